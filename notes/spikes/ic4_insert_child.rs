use vstd::prelude::*;
macro_rules! html_trace { ($($t:tt)*) => {} }
verus! {
// R10 opaque stand-ins
#[derive(Clone, Debug, Default)] struct ComputedStyle { x: u8 }
#[derive(Clone, Debug, Copy, Default)] struct SizeEstimate { size: usize, min_width: usize, prefix_size: usize }
#[verifier::external_body] #[verifier::reject_recursive_types(T)] struct Cell<T> { x: std::marker::PhantomData<T> }
impl<T> Cell<T> { #[verifier::external_body] fn new(t: T) -> Cell<T> { unimplemented!() } }
impl<T> Clone for Cell<T> { #[verifier::external_body] fn clone(&self) -> Self { unimplemented!() } }
impl<T> std::fmt::Debug for Cell<T> { #[verifier::external_body] fn fmt(&self, f: &mut std::fmt::Formatter<'_>) -> std::fmt::Result { unimplemented!() } }
/// Render tree table cell
struct RenderTableCell {
    colspan: usize,
    content: Vec<RenderNode>,
    size_estimate: Cell<Option<SizeEstimate>>,
    col_width: Option<usize>, // Actual width to use
    style: ComputedStyle,
}
/// Render tree table row
struct RenderTableRow {
    cells: Vec<RenderTableCell>,
    col_sizes: Option<Vec<usize>>,
    style: ComputedStyle,
}
/// A representation of a table render tree with metadata.
struct RenderTable {
    rows: Vec<RenderTableRow>,
    num_columns: usize,
    size_estimate: Cell<Option<SizeEstimate>>,
}
/// The node-specific information distilled from the DOM.
#[non_exhaustive]
enum RenderNodeInfo {
    /// Some text.
    Text(String),
    /// A group of nodes collected together.
    Container(Vec<RenderNode>),
    /// A link with contained nodes
    Link(String, Vec<RenderNode>),
    /// An emphasised region
    Em(Vec<RenderNode>),
    /// A strong region
    Strong(Vec<RenderNode>),
    /// A struck out region
    Strikeout(Vec<RenderNode>),
    /// A code region
    Code(Vec<RenderNode>),
    /// An image (src, title)
    Img(String, String),
    /// A block element with children
    Block(Vec<RenderNode>),
    /// A header (h1, h2, ...) with children
    Header(usize, Vec<RenderNode>),
    /// A Div element with children
    Div(Vec<RenderNode>),
    /// A blockquote
    BlockQuote(Vec<RenderNode>),
    /// An unordered list
    Ul(Vec<RenderNode>),
    /// An ordered list
    Ol(i64, Vec<RenderNode>),
    /// A description list (containing Dt or Dd)
    Dl(Vec<RenderNode>),
    /// A term (from a `<dt>`)
    Dt(Vec<RenderNode>),
    /// A definition (from a `<dl>`)
    Dd(Vec<RenderNode>),
    /// A line break
    Break,
    /// A table
    Table(RenderTable),
    /// A set of table rows (from either `<thead>` or `<tbody>`
    TableBody(Vec<RenderTableRow>),
    /// Table row (must only appear within a table body)
    /// If the boolean is true, then the cells are drawn vertically
    /// instead of horizontally (because of space).
    TableRow(RenderTableRow, bool),
    /// Table cell (must only appear within a table row)
    TableCell(RenderTableCell),
    /// Start of a named HTML fragment
    FragStart(String),
    /// A list item
    ListItem(Vec<RenderNode>),
    /// Superscript text
    Sup(Vec<RenderNode>),
}

/// Common fields from a node.
struct RenderNode {
    size_estimate: Cell<Option<SizeEstimate>>,
    info: RenderNodeInfo,
    style: ComputedStyle,
}
impl RenderNode {
    /// Create a node from the RenderNodeInfo.
    fn new(info: RenderNodeInfo) -> RenderNode {
        RenderNode {
            size_estimate: Cell::new(None),
            info,
            style: Default::default(),
        }
    }
}
#[derive(Copy, Clone, PartialEq, Eq)]
enum ChildPosition {
    Start,
    End,
}

/// Prepend or append a FragmentStart (or analogous) marker to an existing
/// RenderNode.
fn insert_child(
    new_child: RenderNode,
    mut orig: RenderNode,
    position: ChildPosition,
) -> (r: RenderNode)
    ensures
        orig.info matches RenderNodeInfo::Block(oc) ==> (r.info matches RenderNodeInfo::Block(rc) &&
            (position == ChildPosition::Start ==> rc@ == seq![new_child] + oc@) &&
            (position == ChildPosition::End ==> rc@ == oc@.push(new_child))),
        orig.info matches RenderNodeInfo::Text(t) ==> (r.info matches RenderNodeInfo::Container(rc) &&
            (position == ChildPosition::Start ==> rc@ == seq![new_child, orig])),
        orig.info matches RenderNodeInfo::TableRow(row, v) ==> (r.info matches RenderNodeInfo::TableRow(rrow, rv) && rv == v &&
            rrow.cells@.len() == row.cells@.len() &&
            (row.cells@.len() > 0 && position == ChildPosition::Start ==> rrow.cells@[0].content@ == seq![new_child] + row.cells@[0].content@)),
{
    use RenderNodeInfo::*;
    html_trace!("insert_child({:?}, {:?}, {:?})", new_child, orig, position);

    match orig.info {
        // For block elements such as Block and Div, we need to insert
        // the node at the front of their children array, otherwise
        // the renderer is liable to drop the fragment start marker
        // _before_ the new line indicating the end of the previous
        // paragraph.
        //
        // For Container, we do the same thing just to make the data
        // less pointlessly nested.
        Block(ref mut children) => {
            match position {
                ChildPosition::Start => children.insert(0, new_child),
                ChildPosition::End => children.push(new_child),
            }
            // Now return orig, but we do that outside the match so
            // that we've given back the borrowed ref 'children'.
        }
        ListItem(ref mut children) => {
            match position {
                ChildPosition::Start => children.insert(0, new_child),
                ChildPosition::End => children.push(new_child),
            }
            // Now return orig, but we do that outside the match so
            // that we've given back the borrowed ref 'children'.
        }
        Dd(ref mut children) => {
            match position {
                ChildPosition::Start => children.insert(0, new_child),
                ChildPosition::End => children.push(new_child),
            }
            // Now return orig, but we do that outside the match so
            // that we've given back the borrowed ref 'children'.
        }
        Dt(ref mut children) => {
            match position {
                ChildPosition::Start => children.insert(0, new_child),
                ChildPosition::End => children.push(new_child),
            }
            // Now return orig, but we do that outside the match so
            // that we've given back the borrowed ref 'children'.
        }
        Dl(ref mut children) => {
            match position {
                ChildPosition::Start => children.insert(0, new_child),
                ChildPosition::End => children.push(new_child),
            }
            // Now return orig, but we do that outside the match so
            // that we've given back the borrowed ref 'children'.
        }
        Div(ref mut children) => {
            match position {
                ChildPosition::Start => children.insert(0, new_child),
                ChildPosition::End => children.push(new_child),
            }
            // Now return orig, but we do that outside the match so
            // that we've given back the borrowed ref 'children'.
        }
        BlockQuote(ref mut children) => {
            match position {
                ChildPosition::Start => children.insert(0, new_child),
                ChildPosition::End => children.push(new_child),
            }
            // Now return orig, but we do that outside the match so
            // that we've given back the borrowed ref 'children'.
        }
        Container(ref mut children) => {
            match position {
                ChildPosition::Start => children.insert(0, new_child),
                ChildPosition::End => children.push(new_child),
            }
            // Now return orig, but we do that outside the match so
            // that we've given back the borrowed ref 'children'.
        }
        TableCell(RenderTableCell {
            content: ref mut children,
            ..
        }) => {
            match position {
                ChildPosition::Start => children.insert(0, new_child),
                ChildPosition::End => children.push(new_child),
            }
            // Now return orig, but we do that outside the match so
            // that we've given back the borrowed ref 'children'.
        }

        // For table rows and tables, push down if there's any content.
        TableRow(ref mut rrow, _) => {
            // If the row is empty, then there isn't really anything
            // to attach the fragment start to.
            if let Some(cell) = rrow.cells.first_mut() {
                match position {
                    ChildPosition::Start => cell.content.insert(0, new_child),
                    ChildPosition::End => cell.content.push(new_child),
                }
            }
        }

        TableBody(ref mut rows) => {
            // If the row is empty, then there isn't really anything
            // to attach the fragment start to.
            if let Some(rrow) = rows.first_mut() {
                if let Some(cell) = rrow.cells.first_mut() {
                    match position {
                        ChildPosition::Start => cell.content.insert(0, new_child),
                        ChildPosition::End => cell.content.push(new_child),
                    }
                }
            }
        }
        Table(RenderTable { ref mut rows, .. }) => {
            // If the row is empty, then there isn't really anything
            // to attach the fragment start to.
            if let Some(rrow) = rows.first_mut() {
                if let Some(cell) = rrow.cells.first_mut() {
                    match position {
                        ChildPosition::Start => cell.content.insert(0, new_child),
                        ChildPosition::End => cell.content.push(new_child),
                    }
                }
            }
        }

        // For anything else, just make a new Container with the
        // new_child node and the original one.
        _ => {
            let result = match position {
                ChildPosition::Start => RenderNode::new(Container(vec![new_child, orig])),
                ChildPosition::End => RenderNode::new(Container(vec![orig, new_child])),
            };
            html_trace!("insert_child() -> {:?}", result);
            return result;
        }
    }
    html_trace!("insert_child() -> {:?}", &orig);
    orig
}
}
fn main() {}
