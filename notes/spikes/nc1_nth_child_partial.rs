use vstd::prelude::*;
use vstd::arithmetic::div_mod::*;
use vstd::arithmetic::mul::*;
verus! {
// spec from the property: idx = a*n + b for some n >= 0
spec fn nth_matches(idx: int, a: int, b: int) -> bool { exists|n: int| n >= 0 && idx == #[trigger] (a * n) + b }

// slice of Selector::do_matches, NthChild arm (css.rs:158-174); free vars idx, a, b; the
// recursive call do_matches(&comps[1..], node) is the opaque parameter `rest`.
fn nth_tail(idx: i32, a: &i32, b: &i32, rest: bool) -> (r: bool)
    requires idx >= 0,
             -2147483647 <= *a, -2147483647 <= *b,        // what parse_nth_child_args can produce
    ensures r == (idx != 0 && nth_matches(idx as int, *a as int, *b as int) && rest),
{
                    if idx == 0 {
                        // The child wasn't found(?)
                        return false;
                    }
                    /* The selector matches if idx == a*n + b, where
                     * n >= 0
                     */
                    let idx_offset = idx - b;
                    if *a == 0 {
                        proof {
                            assert(forall|n: int| (#[trigger] (0 * n)) == 0) by (nonlinear_arith);
                            if idx_offset == 0 { assert(idx == (0 * 0) + *b); }
                        }
                        return idx_offset == 0 && rest;
                    }
                    if (idx_offset % a) != 0 {
                        // Not a multiple
                        proof { lemma_not_multiple(idx as int, *a as int, *b as int); }
                        return false;
                    }
                    let n = idx_offset / a;
                    proof { lemma_multiple(idx as int, *a as int, *b as int); }
                    n >= 0 && rest
}
proof fn lemma_not_multiple(idx: int, a: int, b: int)
    requires a != 0, (idx - b) % a != 0,
    ensures !nth_matches(idx, a, b),
{
    if nth_matches(idx, a, b) {
        let n = choose|n: int| n >= 0 && idx == #[trigger] (a * n) + b;
        lemma_mod_multiples_basic(n, a);
        assert((n * a) % a == 0);
        assert(a * n == n * a) by (nonlinear_arith);
    }
}
proof fn lemma_multiple(idx: int, a: int, b: int)
    requires a != 0, (idx - b) % a == 0,
    ensures nth_matches(idx, a, b) <==> (idx - b) / a >= 0,
{
    let q = (idx - b) / a;
    lemma_fundamental_div_mod(idx - b, a);
    assert(idx - b == a * q);
    if q >= 0 { assert(idx == (a * q) + b); }
    if nth_matches(idx, a, b) {
        let n = choose|n: int| n >= 0 && idx == #[trigger] (a * n) + b;
        assert(a * n == a * q);
        assert(n == q) by (nonlinear_arith) requires a * n == a * q, a != 0;
    }
}
}
fn main() {}
