
use vstd::prelude::*;
use std::fmt::Debug;
use std::mem;
macro_rules! html_trace { ($($t:tt)*) => {} }
macro_rules! html_trace_quiet { ($($t:tt)*) => {} }
verus! {
pub assume_specification<T, F: FnOnce() -> T> [Option::<T>::get_or_insert_with] (o: &mut Option<T>, f: F) -> (r: &mut T)
    requires old(o).is_none() ==> f.requires(()),
    ensures
        final(o).is_some(),
        old(o).is_some() ==> *final(o) == *old(o),
        old(o).is_none() ==> f.ensures((), final(o).unwrap()),
;
#[verifier::external_body]
fn opt_as_deref(o: &Option<String>) -> (r: Option<&str>)
    ensures o.is_none() ==> r.is_none(), o.is_some() ==> r.is_some() && r.unwrap()@ == o.unwrap()@,
{ o.as_deref() }
struct TooNarrow;
pub type Result<T> = std::result::Result<T, TooNarrow>;
#[derive(Debug, Copy, Clone, Default, PartialEq, Eq)]
pub enum WhiteSpace { #[default] Normal, Pre, PreWrap }
impl WhiteSpace {
    pub fn preserve_whitespace(&self) -> bool { match self { WhiteSpace::Normal => false, WhiteSpace::Pre | WhiteSpace::PreWrap => true } }
    pub fn do_wrap(&self) -> bool { match self { WhiteSpace::Normal | WhiteSpace::PreWrap => true, WhiteSpace::Pre => false } }
}
pub uninterp spec fn cw(c: char) -> Option<usize>;
pub open spec fn sw(s: Seq<char>) -> nat decreases s.len() { if s.len() == 0 { 0 } else { sw(s.drop_last()) + (match cw(s.last()) { Some(w) => w as nat, None => 0 }) } }
pub struct UnicodeWidthChar;
impl UnicodeWidthChar {
    #[verifier::external_body]
    pub fn width(c: char) -> (r: Option<usize>) ensures r == cw(c), r matches Some(w) ==> w <= 2 { unimplemented!() }
}
pub struct UnicodeWidthStr;
impl UnicodeWidthStr {
    #[verifier::external_body]
    pub fn width(s: &str) -> (r: usize) ensures r == sw(s@) { unimplemented!() }
}
pub trait StrWidth { fn width(&self) -> usize; }
impl StrWidth for String {
    #[verifier::external_body]
    fn width(&self) -> (r: usize) ensures r == sw(self@) { unimplemented!() }
}
pub assume_specification [ str::repeat ] (s: &str, n: usize) -> (r: String)
    ensures r@.len() == s@.len() * n;
/// A wrapper around a String with extra metadata.
#[derive(Debug, Clone, PartialEq)]
struct TaggedString<T> {
    /// The wrapped text.
    s: String,

    /// The metadata.
    tag: T,
}
impl<T: Debug + PartialEq> TaggedString<T> {
    /// Returns the tagged string’s display width in columns.
    ///
    /// See [`unicode_width::UnicodeWidthStr::width`][] for more information.
    ///
    /// [`unicode_width::UnicodeWidthStr::width`]: https://docs.rs/unicode-width/latest/unicode_width/trait.UnicodeWidthStr.html
    fn width(&self) -> usize {
        self.s.width()
    }
}
/// An element of a line of tagged text: either a TaggedString or a
/// marker appearing in between document characters.
#[derive(Clone, Debug, PartialEq)]
enum TaggedLineElement<T> {
    /// A string with tag information attached.
    Str(TaggedString<T>),

    /// A zero-width marker indicating the start of a named HTML fragment.
    FragmentStart(String),
}

impl<T> TaggedLineElement<T> {
    /// Return true if this element is non-empty.
    /// FragmentStart is considered empty.
    fn has_content(&self) -> bool {
        match self {
            TaggedLineElement::Str(_) => true,
            TaggedLineElement::FragmentStart(_) => false,
        }
    }
}
/// A line of tagged text (composed of a set of `TaggedString`s).
#[derive(Debug, Clone, PartialEq)]
struct TaggedLine<T> {
    v: Vec<TaggedLineElement<T>>,
    len: usize,
}
impl<T: Debug + Eq + PartialEq + Clone + Default> TaggedLine<T> {
    /// Create an empty `TaggedLine`.
    fn new() -> TaggedLine<T> {
        TaggedLine {
            v: Vec::new(),
            len: 0,
        }
    }
    fn is_empty(&self) -> bool {
        for elt in &self.v {
            if elt.has_content() {
                return false;
            }
        }
        true
    }
    /// Add a new tagged string fragment to the line
    fn push_str(&mut self, ts: TaggedString<T>) {
        use self::TaggedLineElement::Str;

        if !ts.s.is_empty() {
            self.len += UnicodeWidthStr::width(ts.s.as_str());
            if let Some(Str(ts_prev)) = self.v.last_mut() {
                if ts_prev.tag == ts.tag {
                    ts_prev.s.push_str(&ts.s);
                    return;
                }
            }
            self.v.push(Str(ts));
        }
    }

    /// Add a new general TaggedLineElement to the line
    fn push(&mut self, tle: TaggedLineElement<T>) {
        use self::TaggedLineElement::Str;

        if let Str(ts) = tle {
            self.push_str(ts);
        } else {
            self.v.push(tle);
        }
    }

    /// Push some whitespace
    fn push_ws(&mut self, len: usize, tag: &T) {
        use self::TaggedLineElement::Str;
        self.push(Str(TaggedString {
            s: " ".repeat(len),
            tag: tag.clone(),
        }));
    }
    /// Add text with a particular tag to self
    fn push_char(&mut self, c: char, tag: &T) {
        use self::TaggedLineElement::Str;

        self.len += UnicodeWidthChar::width(c).unwrap_or(0);
        if let Some(Str(ts_prev)) = self.v.last_mut() {
            if ts_prev.tag == *tag {
                ts_prev.s.push(c);
                return;
            }
        }
        let mut s = String::new();
        s.push(c);
        self.v.push(Str(TaggedString {
            s,
            tag: tag.clone(),
        }));
    }
    #[verifier::external_body]
    fn consume(&mut self, tl: &mut TaggedLine<T>)
        ensures final(self).len == old(self).len + old(tl).len, final(tl).len == old(tl).len,
    { unimplemented!() }
    #[verifier::external_body]
    fn width(&self) -> (r: usize) ensures r == self.len { unimplemented!() }

    /// Pad this line to width with spaces (or if already at least this wide, do
    /// nothing).
    fn pad_to(&mut self, width: usize, tag: &T) {
        let my_width = self.width();
        if width > my_width {
            self.push_ws(width - my_width, tag);
        }
    }
}
/// A type to build up wrapped text, allowing extra metadata for
/// spans.
#[derive(Debug, Clone)]
struct WrappedBlock<T> {
    width: usize,
    text: Vec<TaggedLine<T>>,
    line: TaggedLine<T>,
    spacetag: Option<T>, // Tag for the whitespace before the current word
    word: TaggedLine<T>, // The current word (with no whitespace).
    wordlen: usize,
    wslen: usize,
    pre_wrapped: bool, // If true, we've been forced to wrap a <pre> line.
    pad_blocks: bool,
    allow_overflow: bool,
}
impl<T: Clone + Eq + Debug + Default> WrappedBlock<T> {
    fn new(width: usize, pad_blocks: bool, allow_overflow: bool) -> WrappedBlock<T> {
        WrappedBlock {
            width,
            text: Vec::new(),
            line: TaggedLine::new(),
            spacetag: None,
            word: TaggedLine::new(),
            wordlen: 0,
            wslen: 0,
            pre_wrapped: false,
            pad_blocks,
            allow_overflow,
        }
    }
    fn flush_word(&mut self, ws_mode: WhiteSpace) -> Result<()> {
        use self::TaggedLineElement::Str;

        /* Finish the word. */
        html_trace_quiet!(
            "flush_word: word={:?}, linelen={}",
            self.word,
            self.line.len
        );

        if !self.word.is_empty() {
            self.pre_wrapped = false;
            let space_in_line = self.width - self.line.len;
            let space_needed = self.wslen + self.wordlen;
            if space_needed <= space_in_line {
                html_trace!("Got enough space");
                if self.wslen > 0 {
                    self.line.push(Str(TaggedString {
                        s: " ".repeat(self.wslen),
                        tag: self.spacetag.take().unwrap(),
                    }));
                    self.wslen = 0;
                }

                self.line.consume(&mut self.word);
                html_trace!("linelen increased by wordlen to {}", self.line.len);
            } else {
                html_trace!("Not enough space");
                // The column position inside (whitespace + word)
                if !ws_mode.do_wrap() {
                    // We're not word-wrapping, so output any portion that still
                    // fits.
                    if self.wslen >= space_in_line {
                        // Skip the whitespace
                        self.wslen -= space_in_line;
                    } else if self.wslen > 0 {
                        self.line
                            .push_ws(self.wslen, &self.spacetag.take().unwrap());
                        self.wslen = 0;
                    }
                } else {
                    // We're word-wrapping, so discard any whitespace.
                    self.spacetag = None;
                    self.wslen = 0;
                }
                /* Start a new line */
                self.flush_line();

                if ws_mode == WhiteSpace::Pre {
                    self.pre_wrapped = true;
                }

                // Write any remaining whitespace
                while self.wslen > 0 decreases self.wslen {
                    let to_copy = self.wslen.min(self.width);
                    self.line.push_ws(to_copy, self.spacetag.as_ref().unwrap());
                    if to_copy == self.width {
                        self.flush_line();
                    }
                    self.wslen -= to_copy;
                }
                self.spacetag = None;

                // At this point, either:
                // We're word-wrapping, and at the start of the line or
                // We're preformatted, and may have some whitespace at the start of the
                // line.  In either case we just keep outputing the word directly, hard
                // wrapping if needed.
                self.flush_word_hard_wrap()?;
            }
        }
        self.wordlen = 0;
        Ok(())
    }
    #[verifier::external_body]
    fn add_text(&mut self, text: &str, ws_mode: WhiteSpace, main_tag: &T, wrap_tag: &T) -> (r: Result<()>) { unimplemented!() }
    #[verifier::external_body]
    fn flush_word_hard_wrap(&mut self) -> (r: Result<()>) { unimplemented!() }

    fn flush_line(&mut self) {
        if !self.line.is_empty() {
            self.force_flush_line();
        }
    }

    fn force_flush_line(&mut self) {
        let mut tmp_line = TaggedLine::new();
        mem::swap(&mut tmp_line, &mut self.line);
        if self.pad_blocks {
            let tmp_tag;
            let tag = if let Some(st) = self.spacetag.as_ref() {
                st
            } else {
                tmp_tag = Default::default();
                &tmp_tag
            };
            tmp_line.pad_to(self.width, tag);
        }
        self.text.push(tmp_line);
    }
}
#[verifier::external_body] struct TextFilter { x: u8 }
impl Clone for TextFilter { #[verifier::external_body] fn clone(&self) -> Self { unimplemented!() } }
impl TextFilter { #[verifier::external_body] fn call(&self, s: &str) -> (r: Option<String>) { unimplemented!() } }
struct Colour { r: u8, g: u8, b: u8 }
trait TextDecorator: Sized {
    /// An annotation which can be added to text, and which will
    /// be attached to spans of text.
    type Annotation: Eq + PartialEq + Debug + Clone + Default;

    /// Return an annotation and rendering prefix for a link.
    fn decorate_link_start(&mut self, url: &str) -> (String, Self::Annotation);

    /// Return a suffix for after a link.
    fn decorate_link_end(&mut self) -> String;

    /// Return an annotation and rendering prefix for em
    fn decorate_em_start(&self) -> (String, Self::Annotation);

    /// Return a suffix for after an em.
    fn decorate_em_end(&self) -> String;

    /// Return an annotation and rendering prefix for strong
    fn decorate_strong_start(&self) -> (String, Self::Annotation);

    /// Return a suffix for after a strong.
    fn decorate_strong_end(&self) -> String;

    /// Return an annotation and rendering prefix for strikeout
    fn decorate_strikeout_start(&self) -> (String, Self::Annotation);

    /// Return a suffix for after a strikeout.
    fn decorate_strikeout_end(&self) -> String;

    /// Return an annotation and rendering prefix for code
    fn decorate_code_start(&self) -> (String, Self::Annotation);

    /// Return a suffix for after a code.
    fn decorate_code_end(&self) -> String;

    /// Return an annotation for the initial part of a preformatted line
    fn decorate_preformat_first(&self) -> Self::Annotation;

    /// Return an annotation for a continuation line when a preformatted
    /// line doesn't fit.
    fn decorate_preformat_cont(&self) -> Self::Annotation;

    /// Return an annotation and rendering prefix for a link.
    fn decorate_image(&mut self, src: &str, title: &str) -> (String, Self::Annotation);

    /// Return prefix string of header in specific level.
    fn header_prefix(&self, level: usize) -> String;

    /// Return prefix string of quoted block.
    fn quote_prefix(&self) -> String;

    /// Return prefix string of unordered list item.
    fn unordered_item_prefix(&self) -> String;

    /// Return prefix string of ith ordered list item.
    fn ordered_item_prefix(&self, i: i64) -> String;

    /// Return a new decorator of the same type which can be used
    /// for sub blocks.
    fn make_subblock_decorator(&self) -> Self;

    /// Return an annotation corresponding to adding colour, or none.
    fn push_colour(&mut self, _c: Colour) -> Option<Self::Annotation> {
        None
    }

    /// Pop the last colour pushed if we pushed one.
    fn pop_colour(&mut self) -> bool {
        false
    }

    /// Return an annotation corresponding to adding background colour, or none.
    fn push_bgcolour(&mut self, _c: Colour) -> Option<Self::Annotation> {
        None
    }

    /// Pop the last background colour pushed if we pushed one.
    fn pop_bgcolour(&mut self) -> bool {
        false
    }

    /// Return an annotation and rendering prefix for superscript text
    fn decorate_superscript_start(&self) -> (String, Self::Annotation) {
        ("^{".into(), Default::default())
    }

    /// Return a suffix for after a superscript.
    fn decorate_superscript_end(&self) -> String {
        "}".into()
    }
}

#[verifier::external_body]
#[verifier::reject_recursive_types(T)]
struct LinkedList<T> { x: std::marker::PhantomData<T> }
impl<T> Clone for LinkedList<T> { #[verifier::external_body] fn clone(&self) -> Self { unimplemented!() } }
#[derive(Clone)] enum RenderLine<T> { Text(TaggedLine<T>), Line(T) }

/// Rendering options.
#[derive(Clone)]
#[non_exhaustive]
struct RenderOptions {
    /// The maximum text wrap width.  If set, paragraphs of text will only be wrapped
    /// to that width or less, though the overall width can be larger (e.g. for indented
    /// blocks or side-by-side table cells).
    wrap_width: Option<usize>,

    /// If true, then allow the output to be wider than specified instead of returning
    /// `Err(TooNarrow)`.
    allow_width_overflow: bool,

    /// Whether to always pad lines out to the full width.
    /// This may give a better output when the parent block
    /// has a background colour set.
    pad_block_width: bool,

    /// Raw extraction, ensures text in table cells ends up rendered together
    /// This traverses tables as if they had a single column and every cell is its own row.
    raw: bool,

    /// Whether to draw table borders
    draw_borders: bool,

    /// Whether to wrap links as normal text
    wrap_links: bool,

    /// Whether to include footnotes for hyperlinks
    include_link_footnotes: bool,

    /// Whether to use Unicode combining characters for crossing text out.
    use_unicode_strikeout: bool,
}
/// A renderer which just outputs plain text with
/// annotations depending on a decorator.
#[derive(Clone)]
struct SubRenderer<D: TextDecorator> {
    /// Text width
    width: usize,
    /// Rendering options
    options: RenderOptions,
    /// The currently generated lines
    lines: LinkedList<RenderLine<Vec<D::Annotation>>>,
    /// FragmentStart items which have not yet been output.
    pending_frags: Vec<TaggedLineElement<Vec<D::Annotation>>>,
    /// True at the end of a block, meaning we should add
    /// a blank line if any other text is added.
    at_block_end: bool,
    wrapping: Option<WrappedBlock<Vec<D::Annotation>>>,
    decorator: D,
    ann_stack: Vec<D::Annotation>,
    text_filter_stack: Vec<TextFilter>,
    /// The depth of `<pre>` block stacking.
    pre_depth: usize,
    /// The current stack of whitespace wrapping setting
    ws_stack: Vec<WhiteSpace>,
}
fn get_wrapping_or_insert<'w, D: TextDecorator>(
    wrapping: &'w mut Option<WrappedBlock<Vec<D::Annotation>>>,
    options: &RenderOptions,
    width: usize,
) -> &'w mut WrappedBlock<Vec<D::Annotation>> {
    wrapping.get_or_insert_with(|| {
        let wwidth = match options.wrap_width {
            Some(ww) => ww.min(width),
            None => width,
        };
        WrappedBlock::new(
            wwidth,
            options.pad_block_width,
            options.allow_width_overflow,
        )
    })
}
impl<D: TextDecorator> SubRenderer<D> {
    fn ws_mode(&self) -> WhiteSpace {
        self.ws_stack.last().cloned().unwrap_or(WhiteSpace::Normal)
    }
    #[verifier::external_body]
    fn start_block(&mut self) -> (r: Result<()>) ensures final(self).ann_stack@ == old(self).ann_stack@, final(self).pre_depth == old(self).pre_depth, final(self).width == old(self).width { unimplemented!() }

    fn add_inline_text(&mut self, text: &str) -> (r: Result<()>)
        ensures final(self).ann_stack@ == old(self).ann_stack@, final(self).pre_depth == old(self).pre_depth, final(self).width == old(self).width,
    {
        html_trace!("add_inline_text({}, {})", self.width, text);
        if !self.ws_mode().preserve_whitespace()
            && self.at_block_end
            && text.chars().all(char::is_whitespace)
        {
            // Ignore whitespace between blocks.
            return Ok(());
        }
        if self.at_block_end {
            self.start_block()?;
        }
        let mut s = None;
        // Do any filtering of the text
        for filter in &self.text_filter_stack {
            let srctext = opt_as_deref(&s).unwrap_or(text);
            if let Some(filtered) = filter.call(srctext) {
                s = Some(filtered);
            }
        }
        let filtered_text = opt_as_deref(&s).unwrap_or(text);
        let ws_mode = self.ws_mode();
        let wrapping = get_wrapping_or_insert::<D>(&mut self.wrapping, &self.options, self.width);
        let mut pre_tag_start;
        let mut pre_tag_cont;

        let main_tag;
        let cont_tag;
        if self.pre_depth > 0 {
            pre_tag_start = self.ann_stack.clone();
            pre_tag_cont = self.ann_stack.clone();
            pre_tag_start.push(self.decorator.decorate_preformat_first());
            pre_tag_cont.push(self.decorator.decorate_preformat_cont());
            main_tag = &pre_tag_start;
            cont_tag = &pre_tag_cont;
        } else {
            main_tag = &self.ann_stack;
            cont_tag = &self.ann_stack;
        }
        wrapping.add_text(filtered_text, ws_mode, main_tag, cont_tag)?;
        Ok(())
    }
    fn start_emphasis(&mut self) -> (r: Result<()>)
        ensures final(self).ann_stack@.len() == old(self).ann_stack@.len() + 1, final(self).ann_stack@.drop_last() == old(self).ann_stack@,
    {
        let (s, annotation) = self.decorator.decorate_em_start();
        self.ann_stack.push(annotation);
        self.add_inline_text(&s)
    }
    fn end_emphasis(&mut self) -> (r: Result<()>)
        requires old(self).ann_stack@.len() > 0,
        ensures r.is_ok() ==> final(self).ann_stack@ == old(self).ann_stack@.drop_last(),
    {
        let s = self.decorator.decorate_em_end();
        self.add_inline_text(&s)?;
        self.ann_stack.pop();
        Ok(())
    }
}
} // verus!
fn main() {}
