use html2text::config;
use html2text::render::{TextDecorator, TaggedLine};
use std::panic;
#[derive(Clone)]
struct Dec { quote: &'static str, bullet: &'static str }
impl TextDecorator for Dec {
    type Annotation = ();
    fn decorate_link_start(&mut self, _u: &str) -> (String, ()) { ("[".into(), ()) }
    fn decorate_link_end(&mut self) -> String { "]".into() }
    fn decorate_em_start(&self) -> (String, ()) { ("".into(), ()) }
    fn decorate_em_end(&self) -> String { "".into() }
    fn decorate_strong_start(&self) -> (String, ()) { ("".into(), ()) }
    fn decorate_strong_end(&self) -> String { "".into() }
    fn decorate_strikeout_start(&self) -> (String, ()) { ("".into(), ()) }
    fn decorate_strikeout_end(&self) -> String { "".into() }
    fn decorate_code_start(&self) -> (String, ()) { ("".into(), ()) }
    fn decorate_code_end(&self) -> String { "".into() }
    fn decorate_preformat_first(&self) {}
    fn decorate_preformat_cont(&self) {}
    fn decorate_image(&mut self, _s: &str, t: &str) -> (String, ()) { (t.into(), ()) }
    fn header_prefix(&self, l: usize) -> String { "#".repeat(l) + " " }
    fn quote_prefix(&self) -> String { self.quote.into() }
    fn unordered_item_prefix(&self) -> String { self.bullet.into() }
    fn ordered_item_prefix(&self, i: i64) -> String { format!("{}. ", i) }
    fn make_subblock_decorator(&self) -> Self { self.clone() }
}
fn run(name: &str, f: impl FnOnce() -> String + panic::UnwindSafe) {
    match panic::catch_unwind(f) { Ok(s) => println!("[{name}] OK: {}", s), Err(e) => {
        let m = e.downcast_ref::<String>().cloned().or_else(|| e.downcast_ref::<&str>().map(|s| s.to_string())).unwrap_or_default();
        println!("[{name}] PANIC: {m}") } }
}
fn main() {
    panic::set_hook(Box::new(|_| {}));
    run("quote_box", || format!("{:?}", config::with_decorator(Dec{quote:"\u{2502} ", bullet:"* "}).string_from_read(&b"<blockquote>hello world</blockquote>"[..], 20)));
    run("bullet_dot", || format!("{:?}", config::with_decorator(Dec{quote:"> ", bullet:"\u{2022} "}).string_from_read(&b"<ul><li>hello world foo bar baz</ul>"[..], 12)));
    run("inline_important_vs_author_important", || { let c = config::rich().use_doc_css(); format!("{:?}", c.coloured(&b"<style>p{color:#ff0000 !important;}</style><p style='color:#0000ff !important;'>x</p>"[..], 20, |a,s| format!("{:?}{}", a, s))) });
}
