use vstd::prelude::*;
verus! {
fn f(v: &mut Vec<u8>) requires old(v).len() > 0 { v.insert(0, 1); let x = v.remove(0); }
}
fn main() {}
