use vstd::prelude::*;
verus! {
enum E { A(u8), B }
fn f(e: &E) -> (r: bool) { matches!(e, E::A(_)) }
}
fn main() {}
