use vstd::prelude::*;
verus! {
fn f(a: usize) -> (r: usize) { let g = |x: usize| -> (y: usize) requires x < 10 ensures y == x + 1 { x + 1 }; g(3) }
}
fn main() {}
