use vstd::prelude::*;
verus! {
use std::cmp::{max, min};
fn f(a: usize, b: usize) -> (r: usize) ensures r >= a { max(a, min(b, a)) }
}
fn main() {}
