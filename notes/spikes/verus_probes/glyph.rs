use vstd::prelude::*;
verus! {
#[derive(Copy, Clone, Debug)]
enum BorderSegHoriz { Straight, JoinAbove, JoinBelow, JoinCross, StraightVert }
struct BorderHoriz<T> { segments: Vec<BorderSegHoriz>, tag: T }
spec fn glyph(s: BorderSegHoriz) -> char { match s { BorderSegHoriz::Straight => '─', BorderSegHoriz::StraightVert => '/', BorderSegHoriz::JoinAbove => '┴', BorderSegHoriz::JoinBelow => '┬', BorderSegHoriz::JoinCross => '┼' } }
impl<T: Clone> BorderHoriz<T> {
    fn to_string(&self) -> (r: String)
    {
        self.segments
            .iter()
            .map(|seg| -> (c: char) ensures c == glyph(*seg) { match seg {
                BorderSegHoriz::Straight => '─',
                BorderSegHoriz::StraightVert => '/',
                BorderSegHoriz::JoinAbove => '┴',
                BorderSegHoriz::JoinBelow => '┬',
                BorderSegHoriz::JoinCross => '┼',
            }})
            .collect::<String>()
    }
}
}
fn main() {}
