use vstd::prelude::*;
verus! {
fn f(o: &mut Option<u8>) -> (r: u8) requires old(o).is_some() { let x = o.take().unwrap(); x }
}
fn main() {}
