use vstd::prelude::*;
verus! {
fn f(start: i64, n: usize) -> (r: i64) { let max_number = start + (n as i64) - 1; max_number }
}
fn main() {}
