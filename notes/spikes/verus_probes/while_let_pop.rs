use vstd::prelude::*;
verus! {
fn f(v: &mut Vec<u8>) { while let Some(x) = v.pop() decreases v.len() { } }
}
fn main() {}
