use vstd::prelude::*;
verus! {
fn f(a: &mut Vec<u8>, b: &mut Vec<u8>) { std::mem::swap(a, b); }
}
fn main() {}
