use vstd::prelude::*;
verus! {
fn f(v: &mut Vec<u8>) { if let Some(x) = v.last_mut() { *x = 1; } }
}
fn main() {}
