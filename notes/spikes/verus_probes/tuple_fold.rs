use vstd::prelude::*;
verus! {
fn f(v: &Vec<(bool, usize)>) -> (r: (bool, usize)) { v.iter().fold((false, 0), |a, b| (a.0 || b.0, a.1)) }
}
fn main() {}
