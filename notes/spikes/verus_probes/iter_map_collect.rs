use vstd::prelude::*;
verus! {
fn f(v: &Vec<usize>) -> (r: Vec<usize>) { v.iter().map(|x| 1usize).collect() }
}
fn main() {}
