use vstd::prelude::*;
verus! {
use std::collections::BTreeSet;
fn f(k: usize) { let mut s = BTreeSet::new(); s.insert(k); }
}
fn main() {}
