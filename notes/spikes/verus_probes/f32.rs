use vstd::prelude::*;
verus! {
enum Height { Auto, Length(f32, u8) }
fn f(v: &Height) -> (r: bool) { match v { Height::Auto => false, Height::Length(l, _u) => { if *l == 0.0 { true } else { false } } } }
}
fn main() {}
