use vstd::prelude::*;
verus! {
fn f(s: &str) -> (r: usize) { let mut n = 0usize; for (idx, c) in s.char_indices() { if n < 10 { n += 1; } } n }
}
fn main() {}
