use vstd::prelude::*;
verus! {
pub assume_specification<T, F: FnOnce() -> T> [Option::<T>::get_or_insert_with] (o: &mut Option<T>, f: F) -> (r: &mut T)
    requires old(o).is_none() ==> f.requires(()),
    ensures
        final(o).is_some(),
        old(o).is_some() ==> *final(o) == *old(o),
        old(o).is_none() ==> f.ensures((), final(o).unwrap()),
;
struct W { width: usize }
fn g<'w>(wrapping: &'w mut Option<W>, ww: Option<usize>, width: usize) -> (r: &'w mut W)
{
    wrapping.get_or_insert_with(|| {
        let wwidth = match ww { Some(x) => x.min(width), None => width };
        W { width: wwidth }
    })
}
fn h(ww: Option<usize>, width: usize) {
    let mut o: Option<W> = None;
    let w = g(&mut o, ww, width);
    w.width = 3;
}
}
fn main() {}
