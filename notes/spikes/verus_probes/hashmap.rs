use vstd::prelude::*;
verus! {
use std::collections::HashMap;
fn f(m: &HashMap<usize, usize>, k: usize) -> (r: usize) requires m@.contains_key(k) { *m.get(&k).unwrap() }
}
fn main() {}
