use vstd::prelude::*;
verus! {
fn f(a: usize) { debug_assert!(a == a); }
}
fn main() {}
