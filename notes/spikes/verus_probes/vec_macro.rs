use vstd::prelude::*;
verus! {
fn f(n: usize) -> (r: Vec<u8>) { vec![0u8; n] }
}
fn main() {}
