use vstd::prelude::*;
verus! {
fn f(c: char) -> (r: bool) { c.is_whitespace() }
}
fn main() {}
