use vstd::prelude::*;
verus! {
#[derive(Debug, Copy, Clone, PartialEq, Eq, Default, PartialOrd)]
enum O { #[default] None, Agent, User, Author }
fn f(a: O, b: O) -> (r: bool) { a > b }
}
fn main() {}
