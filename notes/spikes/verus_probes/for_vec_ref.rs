use vstd::prelude::*;
verus! {
fn f(v: &Vec<u8>) -> (r: usize) { let mut n = 0usize; for seg in v { if *seg == 1 && n < 100 { n += 1; } } n }
}
fn main() {}
