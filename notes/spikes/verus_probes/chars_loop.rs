use vstd::prelude::*;
verus! {
fn f(s: &str) -> (r: usize) { let mut n = 0usize; for c in s.chars() { if n < 10 { n += 1; } } n }
}
fn main() {}
