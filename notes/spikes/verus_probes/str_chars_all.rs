use vstd::prelude::*;
verus! {
fn f(s: &str) -> (r: bool) { s.chars().all(char::is_whitespace) }
}
fn main() {}
