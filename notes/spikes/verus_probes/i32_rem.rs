use vstd::prelude::*;
verus! {
fn f(idx: i32, a: i32, b: i32) -> (r: bool) requires a != 0 { let o = idx - b; if (o % a) != 0 { return false; } let n = o / a; n >= 0 }
}
fn main() {}
