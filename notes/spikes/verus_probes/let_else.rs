use vstd::prelude::*;
verus! {
fn f(o: Option<u8>) -> (r: u8) { let Some(x) = o else { return 0; }; x }
}
fn main() {}
