use vstd::prelude::*;
verus! {
fn f(v: &Vec<usize>) -> (r: usize) { v.iter().sum::<usize>() }
}
fn main() {}
