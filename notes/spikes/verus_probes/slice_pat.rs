use vstd::prelude::*;
verus! {
fn f(v: &[u8]) -> (r: bool) { if let [.., 1, 2] = v { true } else { false } }
}
fn main() {}
