use vstd::prelude::*;
verus! {
fn f<T: Clone + Default + PartialEq + Eq + std::fmt::Debug>(t: &T) -> (r: T) { let d: T = Default::default(); if *t == d { t.clone() } else { d } }
}
fn main() {}
