use vstd::prelude::*;
verus! {
fn f(v: &Vec<u8>) -> (r: usize) { let mut n = 0usize; for (idx, seg) in v.iter().enumerate() { if *seg == 1 && idx > 0 && n < 100 { n += 1; } } n }
}
fn main() {}
