use vstd::prelude::*;
verus! {
fn f(a: usize) -> (r: usize) { let mut i = 0usize; loop invariant i <= 10 decreases 10 - i { if i >= 10 { break i; } i += 1; } }
}
fn main() {}
