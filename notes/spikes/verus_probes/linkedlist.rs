use vstd::prelude::*;
verus! {
use std::collections::LinkedList;
fn f(l: &mut LinkedList<u8>) { l.push_back(1); }
}
fn main() {}
