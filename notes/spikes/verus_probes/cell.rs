use vstd::prelude::*;
verus! {
use std::cell::Cell;
fn f(c: &Cell<i64>) { c.set(c.get() + 1); }
}
fn main() {}
