use vstd::prelude::*;
verus! {
fn f(n: usize) -> (r: String) { " ".repeat(n) }
}
fn main() {}
