use vstd::prelude::*;
verus! {
fn f(a: bool, b: bool) -> (r: Option<core::cmp::Ordering>) { a.partial_cmp(&b) }
}
fn main() {}
