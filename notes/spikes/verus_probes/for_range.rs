use vstd::prelude::*;
verus! {
fn f(v: &Vec<u8>) -> (r: usize) { let mut n = 0usize; for i in 0..v.len() { if v[i] == 1 && n < 100 { n += 1; } } n }
}
fn main() {}
