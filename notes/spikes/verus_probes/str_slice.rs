use vstd::prelude::*;
verus! {
fn f(s: &String, b: usize) -> (r: usize) requires b <= s@.len() { let t = &s[b..]; t.len() }
}
fn main() {}
