use vstd::prelude::*;
verus! {
fn f(a: u16, b: u16) -> (r: Option<core::cmp::Ordering>) { a.partial_cmp(&b) }
}
fn main() {}
