use vstd::prelude::*;
verus! {
fn f(a: &mut Vec<u8>) -> (r: Vec<u8>) { std::mem::take(a) }
}
fn main() {}
