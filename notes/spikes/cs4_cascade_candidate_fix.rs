use vstd::prelude::*;
use vstd::std_specs::cmp::PartialOrdSpec;
verus! {
#[derive(Debug, Copy, Clone, PartialEq, Eq, Default, PartialOrd)]
pub enum StyleOrigin {
    #[default]
    None,
    Agent,
    #[allow(unused)]
    User,
    #[allow(unused)]
    Author,
}

#[derive(Debug, Copy, Clone, PartialEq, Eq, Default)]
pub struct Specificity {
    pub inline: bool,
    pub id: u16,
    pub class: u16,
    pub typ: u16,
}
impl std::ops::Add<&Specificity> for &Specificity {
    type Output = Specificity;

    fn add(self, rhs: &Specificity) -> Self::Output {
        Specificity {
            inline: self.inline || rhs.inline,
            id: self.id + rhs.id,
            class: self.class + rhs.class,
            typ: self.typ + rhs.typ,
        }
    }
}

impl std::ops::AddAssign<&Specificity> for Specificity {
    fn add_assign(&mut self, rhs: &Specificity) {
        self.inline = self.inline || rhs.inline;
        self.id += rhs.id;
        self.class += rhs.class;
        self.typ += rhs.typ;
    }
}
impl PartialOrd for Specificity {
    fn partial_cmp(&self, other: &Self) -> Option<std::cmp::Ordering> {
        proof { axiom_bool_partial_cmp(); }
        match self.inline.partial_cmp(&other.inline) {
            Some(core::cmp::Ordering::Equal) => {}
            ord => return ord,
        }
        match self.id.partial_cmp(&other.id) {
            Some(core::cmp::Ordering::Equal) => {}
            ord => return ord,
        }
        match self.class.partial_cmp(&other.class) {
            Some(core::cmp::Ordering::Equal) => {}
            ord => return ord,
        }
        self.typ.partial_cmp(&other.typ)
    }
}
#[derive(Clone, Copy, Debug)]
pub struct WithSpec<T> {
    pub val: Option<T>,
    pub origin: StyleOrigin,
    pub specificity: Specificity,
    pub important: bool,
}
impl<T: Clone> WithSpec<T> {
    fn maybe_update(
        &mut self,
        important: bool,
        origin: StyleOrigin,
        specificity: Specificity,
        val: T,
    )
        requires origin != StyleOrigin::None, old(self).val.is_some() ==> old(self).origin != StyleOrigin::None,
        ensures
            old(self).val.is_none() || key_ge(important, origin, specificity, old(self).important, old(self).origin, old(self).specificity)
                ==> final(self).val == Some(val) && final(self).origin == origin && final(self).specificity == specificity && final(self).important == important,
            !(old(self).val.is_none() || key_ge(important, origin, specificity, old(self).important, old(self).origin, old(self).specificity))
                ==> *final(self) == *old(self),
    {
        if self.val.is_some() {
            // We already have a value, so need to check.
            if self.important && !important {
                // important takes priority over not important.
                return;
            }
            if self.important == important {
                // importance is the same.  Next is checking the origin.
                use StyleOrigin::*;
                match (self.origin, origin) {
                    (Agent, Agent) | (User, User) | (Author, Author) => {
                        // Same origin and importance: specificity decides.
                        if specificity < self.specificity {
                            return;
                        }
                    }
                    (mine, theirs) => {
                        if (important && theirs > mine) || (!important && mine > theirs) {
                            return;
                        }
                    }
                }
            }
        }
        self.val = Some(val);
        self.origin = origin;
        self.specificity = specificity;
        self.important = important;
    }

    fn val(&self) -> Option<&T> {
        self.val.as_ref()
    }
}
#[verifier::external_body]
proof fn axiom_bool_partial_cmp()
    ensures <bool as PartialOrdSpec>::obeys_partial_cmp_spec(),
            forall|a: bool, b: bool| #[trigger] a.partial_cmp_spec(&b) == (if a == b { Some(core::cmp::Ordering::Equal) } else if !a && b { Some(core::cmp::Ordering::Less) } else { Some(core::cmp::Ordering::Greater) }),
{}
impl<'a> vstd::std_specs::ops::AddAssignSpecImpl<&'a Specificity> for Specificity {
    open spec fn obeys_add_assign_spec() -> bool { true }
    open spec fn add_assign_req(&self, rhs: &Specificity) -> bool { self.id + rhs.id <= u16::MAX && self.class + rhs.class <= u16::MAX && self.typ + rhs.typ <= u16::MAX }
    open spec fn add_assign_spec(&self, rhs: &Specificity) -> &Specificity {
        &Specificity { inline: self.inline || rhs.inline, id: (self.id + rhs.id) as u16, class: (self.class + rhs.class) as u16, typ: (self.typ + rhs.typ) as u16 }
    }
}
pub open spec fn oidx(o: StyleOrigin) -> int { match o { StyleOrigin::None => 0, StyleOrigin::Agent => 1, StyleOrigin::User => 2, StyleOrigin::Author => 3 } }
impl vstd::std_specs::cmp::PartialOrdSpecImpl for StyleOrigin {
    open spec fn obeys_partial_cmp_spec() -> bool { true }
    open spec fn partial_cmp_spec(&self, other: &StyleOrigin) -> Option<core::cmp::Ordering> {
        if oidx(*self) < oidx(*other) { Some(core::cmp::Ordering::Less) } else if oidx(*self) > oidx(*other) { Some(core::cmp::Ordering::Greater) } else { Some(core::cmp::Ordering::Equal) }
    }
}
impl vstd::std_specs::cmp::PartialOrdSpecImpl for Specificity {
    open spec fn obeys_partial_cmp_spec() -> bool { true }
    open spec fn partial_cmp_spec(&self, other: &Specificity) -> Option<core::cmp::Ordering> {
        if spec_lt(*self, *other) { Some(core::cmp::Ordering::Less) }
        else if spec_lt(*other, *self) { Some(core::cmp::Ordering::Greater) }
        else { Some(core::cmp::Ordering::Equal) }
    }
}
impl<'a> vstd::std_specs::ops::AddSpecImpl<&'a Specificity> for &'a Specificity {
    open spec fn obeys_add_spec() -> bool { true }
    open spec fn add_req(self, rhs: &Specificity) -> bool { self.id + rhs.id <= u16::MAX && self.class + rhs.class <= u16::MAX && self.typ + rhs.typ <= u16::MAX }
    open spec fn add_spec(self, rhs: &Specificity) -> Specificity {
        Specificity { inline: self.inline || rhs.inline, id: (self.id + rhs.id) as u16, class: (self.class + rhs.class) as u16, typ: (self.typ + rhs.typ) as u16 }
    }
}
// ---- spec taken from the property statement ----
pub open spec fn rank(important: bool, o: StyleOrigin) -> int {
    match (important, o) {
        (false, StyleOrigin::None) => 0,
        (false, StyleOrigin::Agent) => 1, (false, StyleOrigin::User) => 2, (false, StyleOrigin::Author) => 3,
        (true, StyleOrigin::Author) => 4, (true, StyleOrigin::User) => 5, (true, StyleOrigin::Agent) => 6,
        (true, StyleOrigin::None) => 0,
    }
}
pub open spec fn spec_lt(a: Specificity, b: Specificity) -> bool {
    (!a.inline && b.inline) || (a.inline == b.inline && (a.id < b.id || (a.id == b.id && (a.class < b.class || (a.class == b.class && a.typ < b.typ)))))
}
pub open spec fn key_ge(i1: bool, o1: StyleOrigin, s1: Specificity, i0: bool, o0: StyleOrigin, s0: Specificity) -> bool {
    rank(i1, o1) > rank(i0, o0) || (rank(i1, o1) == rank(i0, o0) && !spec_lt(s1, s0))
}

}
fn main() {}
