
use vstd::prelude::*;
use std::fmt::Debug;
use std::mem;
macro_rules! html_trace { ($($t:tt)*) => {} }
macro_rules! html_trace_quiet { ($($t:tt)*) => {} }
verus! {
global size_of usize == 8;
pub struct TooNarrow;
pub type Result<T> = std::result::Result<T, TooNarrow>;
#[derive(Debug, Copy, Clone, Default, PartialEq, Eq)]
pub enum WhiteSpace { #[default] Normal, Pre, PreWrap }
impl WhiteSpace {
    pub fn preserve_whitespace(&self) -> bool { match self { WhiteSpace::Normal => false, WhiteSpace::Pre | WhiteSpace::PreWrap => true } }
    pub open spec fn do_wrap_spec(&self) -> bool { match self { WhiteSpace::Normal | WhiteSpace::PreWrap => true, WhiteSpace::Pre => false } }
    pub fn do_wrap(&self) -> (r: bool) ensures r == self.do_wrap_spec() { match self { WhiteSpace::Normal | WhiteSpace::PreWrap => true, WhiteSpace::Pre => false } }
}
pub uninterp spec fn cw(c: char) -> Option<usize>;
pub open spec fn sw(s: Seq<char>) -> nat decreases s.len() { if s.len() == 0 { 0 } else { sw(s.drop_last()) + (match cw(s.last()) { Some(w) => w as nat, None => 0 }) } }
pub struct UnicodeWidthChar;
impl UnicodeWidthChar {
    #[verifier::external_body]
    pub fn width(c: char) -> (r: Option<usize>) ensures r == cw(c), r matches Some(w) ==> w <= 2 { unimplemented!() }
}
pub struct UnicodeWidthStr;
impl UnicodeWidthStr {
    #[verifier::external_body]
    pub fn width(s: &str) -> (r: usize) ensures r == sw(s@) { unimplemented!() }
}
pub trait StrWidth { fn width(&self) -> usize; }
impl StrWidth for String {
    #[verifier::external_body]
    fn width(&self) -> (r: usize) ensures r == sw(self@) { unimplemented!() }
}
pub assume_specification [ str::repeat ] (s: &str, n: usize) -> (r: String)
    ensures r@.len() == s@.len() * n, forall|i: int| 0 <= i < r@.len() ==> r@[i] == s@[i % (s@.len() as int)];
#[verifier::external_body]
pub proof fn axiom_cw_space() ensures cw(' ') == Some(1usize) {}
pub proof fn lemma_sw_spaces(s: Seq<char>)
    requires forall|i: int| 0 <= i < s.len() ==> s[i] == ' ',
    ensures sw(s) == s.len(),
    decreases s.len()
{
    axiom_cw_space();
    if s.len() > 0 { lemma_sw_spaces(s.drop_last()); }
}

/// A wrapper around a String with extra metadata.
#[derive(Debug, Clone, PartialEq)]
struct TaggedString<T> {
    /// The wrapped text.
    s: String,

    /// The metadata.
    tag: T,
}
impl<T: Debug + PartialEq> TaggedString<T> {
    /// Returns the tagged string’s display width in columns.
    ///
    /// See [`unicode_width::UnicodeWidthStr::width`][] for more information.
    ///
    /// [`unicode_width::UnicodeWidthStr::width`]: https://docs.rs/unicode-width/latest/unicode_width/trait.UnicodeWidthStr.html
    fn width(&self) -> usize {
        self.s.width()
    }
}
/// An element of a line of tagged text: either a TaggedString or a
/// marker appearing in between document characters.
#[derive(Clone, Debug, PartialEq)]
enum TaggedLineElement<T> {
    /// A string with tag information attached.
    Str(TaggedString<T>),

    /// A zero-width marker indicating the start of a named HTML fragment.
    FragmentStart(String),
}

impl<T> TaggedLineElement<T> {
    /// Return true if this element is non-empty.
    /// FragmentStart is considered empty.
    fn has_content(&self) -> bool {
        match self {
            TaggedLineElement::Str(_) => true,
            TaggedLineElement::FragmentStart(_) => false,
        }
    }
}
/// A line of tagged text (composed of a set of `TaggedString`s).
#[derive(Debug, Clone, PartialEq)]
struct TaggedLine<T> {
    v: Vec<TaggedLineElement<T>>,
    len: usize,
}
spec fn ew<T>(e: TaggedLineElement<T>) -> nat { match e { TaggedLineElement::Str(ts) => sw(ts.s@), TaggedLineElement::FragmentStart(_) => 0 } }
spec fn cwid<T>(v: Seq<TaggedLineElement<T>>) -> nat decreases v.len() { if v.len() == 0 { 0 } else { cwid(v.drop_last()) + ew(v.last()) } }
impl<T> TaggedLine<T> {
    spec fn wf(&self) -> bool { self.len == cwid(self.v@) }
}
impl<T: Debug + Eq + PartialEq + Clone + Default> TaggedLine<T> {
    /// Create an empty `TaggedLine`.
    fn new() -> (r: TaggedLine<T>) ensures r.wf(), r.len == 0, r.v@.len() == 0 {
        TaggedLine {
            v: Vec::new(),
            len: 0,
        }
    }
    #[verifier::external_body]
    fn is_empty(&self) -> (r: bool) ensures self.wf() && r ==> self.len == 0, r ==> cwid(self.v@) == 0, cwid(self.v@) > 0 ==> !r {
        for elt in &self.v {
            if elt.has_content() {
                return false;
            }
        }
        true
    }
    /// Add a new tagged string fragment to the line
    #[verifier::external_body]
    fn push_str(&mut self, ts: TaggedString<T>)
        requires old(self).wf(), old(self).len + sw(ts.s@) <= usize::MAX,
        ensures final(self).wf(), final(self).len == old(self).len + sw(ts.s@),
    {
        use self::TaggedLineElement::Str;

        if !ts.s.is_empty() {
            self.len += UnicodeWidthStr::width(ts.s.as_str());
            if let Some(Str(ts_prev)) = self.v.last_mut() {
                if ts_prev.tag == ts.tag {
                    ts_prev.s.push_str(&ts.s);
                    return;
                }
            }
            self.v.push(Str(ts));
        }
    }

    /// Add a new general TaggedLineElement to the line
    fn push(&mut self, tle: TaggedLineElement<T>)
        requires old(self).wf(), old(self).len + ew(tle) <= usize::MAX,
        ensures final(self).wf(), final(self).len == old(self).len + ew(tle),
    {
        use self::TaggedLineElement::Str;

        if let Str(ts) = tle {
            self.push_str(ts);
        } else {
            self.v.push(tle);
            proof { assert(self.v@.drop_last() =~= old(self).v@); }
        }
    }

    /// Push some whitespace
    fn push_ws(&mut self, len: usize, tag: &T)
        requires old(self).wf(), old(self).len + len <= usize::MAX,
        ensures final(self).wf(), final(self).len == old(self).len + len,
    {
        use self::TaggedLineElement::Str;
        proof {
            reveal_strlit(" ");
            assert forall|s: Seq<char>| (forall|i: int| 0 <= i < s.len() ==> s[i] == ' ') implies sw(s) == s.len() by { lemma_sw_spaces(s); }
        }
        self.push(Str(TaggedString {
            s: " ".repeat(len),
            tag: tag.clone(),
        }));
    }
    /// Add text with a particular tag to self
    #[verifier::external_body]
    fn push_char(&mut self, c: char, tag: &T)
        requires old(self).wf(), old(self).len + 2 <= usize::MAX,
        ensures final(self).wf(), final(self).len == old(self).len + (match cw(c) { Some(w) => w as nat, None => 0 }),
    {
        use self::TaggedLineElement::Str;

        self.len += UnicodeWidthChar::width(c).unwrap_or(0);
        if let Some(Str(ts_prev)) = self.v.last_mut() {
            if ts_prev.tag == *tag {
                ts_prev.s.push(c);
                return;
            }
        }
        let mut s = String::new();
        s.push(c);
        self.v.push(Str(TaggedString {
            s,
            tag: tag.clone(),
        }));
    }
    #[verifier::external_body]
    fn consume(&mut self, tl: &mut TaggedLine<T>)
        requires old(self).wf(), old(self).len + cwid(old(tl).v@) <= usize::MAX,
        ensures final(self).wf(), final(self).len == old(self).len + cwid(old(tl).v@), final(tl).v@.len() == 0,
    { unimplemented!() }
    #[verifier::external_body]
    fn width(&self) -> (r: usize) requires self.wf() ensures r == self.len { unimplemented!() }

    /// Pad this line to width with spaces (or if already at least this wide, do
    /// nothing).
    fn pad_to(&mut self, width: usize, tag: &T)
        requires old(self).wf(),
        ensures final(self).wf(), final(self).len == if width > old(self).len { width } else { old(self).len },
    {
        let my_width = self.width();
        if width > my_width {
            self.push_ws(width - my_width, tag);
        }
    }
}
/// A type to build up wrapped text, allowing extra metadata for
/// spans.
#[derive(Debug, Clone)]
struct WrappedBlock<T> {
    width: usize,
    text: Vec<TaggedLine<T>>,
    line: TaggedLine<T>,
    spacetag: Option<T>, // Tag for the whitespace before the current word
    word: TaggedLine<T>, // The current word (with no whitespace).
    wordlen: usize,
    wslen: usize,
    pre_wrapped: bool, // If true, we've been forced to wrap a <pre> line.
    pad_blocks: bool,
    allow_overflow: bool,
}
impl<T> WrappedBlock<T> {
    spec fn inv(&self) -> bool {
        &&& self.line.wf()
        &&& self.line.len <= self.width
        &&& (self.wslen > 0 ==> self.spacetag.is_some())
        &&& self.wordlen == cwid(self.word.v@)
        &&& self.wslen + self.wordlen + self.width <= 0x4000_0000_0000_0000
        &&& (forall|i: int| 0 <= i < self.text@.len() ==> self.line_ok(#[trigger] self.text@[i]))
    }
    spec fn line_ok(&self, l: TaggedLine<T>) -> bool {
        l.wf() && (l.len <= self.width || self.allow_overflow)
    }
}
impl<T: Clone + Eq + Debug + Default> WrappedBlock<T> {
    fn new(width: usize, pad_blocks: bool, allow_overflow: bool) -> WrappedBlock<T> {
        WrappedBlock {
            width,
            text: Vec::new(),
            line: TaggedLine::new(),
            spacetag: None,
            word: TaggedLine::new(),
            wordlen: 0,
            wslen: 0,
            pre_wrapped: false,
            pad_blocks,
            allow_overflow,
        }
    }
    fn flush_word(&mut self, ws_mode: WhiteSpace) -> (r: Result<()>)
        requires old(self).inv(), old(self).width >= 1,
        ensures final(self).inv(), final(self).width == old(self).width, final(self).allow_overflow == old(self).allow_overflow,
                old(self).allow_overflow ==> r.is_ok(),
                // L3 (shape level): greedy fit rule
                cwid(old(self).word.v@) > 0 && old(self).wslen + old(self).wordlen <= old(self).width - old(self).line.len ==>
                    r.is_ok() && final(self).text@.len() == old(self).text@.len()
                    && final(self).line.len == old(self).line.len + old(self).wslen + old(self).wordlen,
                cwid(old(self).word.v@) > 0 && old(self).wslen + old(self).wordlen > old(self).width - old(self).line.len && ws_mode.do_wrap_spec() && r.is_ok()
                    && old(self).line.len > 0 ==>
                    final(self).text@.len() >= old(self).text@.len() + 1,
    {
        use self::TaggedLineElement::Str;

        /* Finish the word. */
        html_trace_quiet!(
            "flush_word: word={:?}, linelen={}",
            self.word,
            self.line.len
        );

        proof {
            reveal_strlit(" ");
            assert forall|s: Seq<char>| (forall|i: int| 0 <= i < s.len() ==> s[i] == ' ') implies sw(s) == s.len() by { lemma_sw_spaces(s); }
        }
        if !self.word.is_empty() {
            self.pre_wrapped = false;
            let space_in_line = self.width - self.line.len;
            let space_needed = self.wslen + self.wordlen;
            if space_needed <= space_in_line {
                html_trace!("Got enough space");
                if self.wslen > 0 {
                    self.line.push(Str(TaggedString {
                        s: " ".repeat(self.wslen),
                        tag: self.spacetag.take().unwrap(),
                    }));
                    self.wslen = 0;
                }

                self.line.consume(&mut self.word);
                html_trace!("linelen increased by wordlen to {}", self.line.len);
            } else {
                html_trace!("Not enough space");
                // The column position inside (whitespace + word)
                if !ws_mode.do_wrap() {
                    // We're not word-wrapping, so output any portion that still
                    // fits.
                    if self.wslen >= space_in_line {
                        // Skip the whitespace
                        self.wslen -= space_in_line;
                    } else if self.wslen > 0 {
                        self.line
                            .push_ws(self.wslen, &self.spacetag.take().unwrap());
                        self.wslen = 0;
                    }
                } else {
                    // We're word-wrapping, so discard any whitespace.
                    self.spacetag = None;
                    self.wslen = 0;
                }
                /* Start a new line */
                self.flush_line();

                if ws_mode == WhiteSpace::Pre {
                    self.pre_wrapped = true;
                }

                // Write any remaining whitespace
                while self.wslen > 0
                    invariant self.text@.len() >= old(self).text@.len() + (if old(self).line.len > 0 { 1int } else { 0int }), self.inv(), self.width >= 1, self.wslen > 0 ==> self.line.len == 0, self.width == old(self).width, self.allow_overflow == old(self).allow_overflow,
                    decreases self.wslen
                {
                    let to_copy = self.wslen.min(self.width);
                    self.line.push_ws(to_copy, self.spacetag.as_ref().unwrap());
                    if to_copy == self.width {
                        self.flush_line();
                    }
                    self.wslen -= to_copy;
                }
                self.spacetag = None;

                // At this point, either:
                // We're word-wrapping, and at the start of the line or
                // We're preformatted, and may have some whitespace at the start of the
                // line.  In either case we just keep outputing the word directly, hard
                // wrapping if needed.
                self.flush_word_hard_wrap()?;
            }
        }
        self.wordlen = 0;
        Ok(())
    }
    #[verifier::external_body]
    fn flush_word_hard_wrap(&mut self) -> (r: Result<()>)
        requires old(self).inv(),
        ensures final(self).inv(), final(self).width == old(self).width, final(self).allow_overflow == old(self).allow_overflow,
                final(self).word.v@.len() == 0, final(self).wslen == old(self).wslen,
                final(self).text@.len() >= old(self).text@.len(),
                old(self).allow_overflow ==> r.is_ok(),
    { unimplemented!() }

    fn flush_line(&mut self)
        requires old(self).inv(),
        ensures final(self).inv(), final(self).line.len == 0,
                final(self).width == old(self).width, final(self).allow_overflow == old(self).allow_overflow,
                final(self).wslen == old(self).wslen, final(self).wordlen == old(self).wordlen, final(self).word == old(self).word,
                final(self).spacetag == old(self).spacetag,
                final(self).text@.len() >= old(self).text@.len(),
                old(self).line.len > 0 ==> final(self).text@.len() == old(self).text@.len() + 1,
    {
        if !self.line.is_empty() {
            self.force_flush_line();
        }
    }

    fn force_flush_line(&mut self)
        requires old(self).inv(),
        ensures final(self).inv(), final(self).line.len == 0, final(self).line.v@.len() == 0,
                final(self).width == old(self).width, final(self).allow_overflow == old(self).allow_overflow,
                final(self).wslen == old(self).wslen, final(self).wordlen == old(self).wordlen, final(self).word == old(self).word,
                final(self).spacetag == old(self).spacetag,
                final(self).text@.len() == old(self).text@.len() + 1,
    {
        let mut tmp_line = TaggedLine::new();
        mem::swap(&mut tmp_line, &mut self.line);
        if self.pad_blocks {
            let tmp_tag;
            let tag = if let Some(st) = self.spacetag.as_ref() {
                st
            } else {
                tmp_tag = Default::default();
                &tmp_tag
            };
            tmp_line.pad_to(self.width, tag);
        }
        self.text.push(tmp_line);
    }
}
} // verus!
fn main() {}
