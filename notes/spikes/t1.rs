use vstd::prelude::*;
verus! {

#[derive(Debug, Clone, Copy, PartialEq, Eq)]
struct TooNarrow;
type Result<T> = std::result::Result<T, TooNarrow>;

struct RenderOptions { allow_width_overflow: bool }
struct SubRenderer { width: usize, options: RenderOptions }

impl SubRenderer {
    fn width_minus(&self, prefix_len: usize, min_width: usize) -> (r: Result<usize>)
        ensures
            match r {
                Ok(w) => w >= min_width && w >= self.width - prefix_len && (w == min_width || w == self.width - prefix_len),
                Err(_) => self.width - prefix_len < min_width && !self.options.allow_width_overflow,
            }
    {
        let new_width = self.width.saturating_sub(prefix_len);
        if new_width < min_width && !self.options.allow_width_overflow {
            return Err(TooNarrow);
        }
        Ok(new_width.max(min_width))
    }
}

/// A space on a horizontal row.
#[derive(Copy, Clone, Debug)]
enum BorderSegHoriz {
    Straight,
    JoinAbove,
    JoinBelow,
    JoinCross,
    StraightVert,
}

struct BorderHoriz<T> {
    segments: Vec<BorderSegHoriz>,
    tag: T,
}

impl<T: Clone> BorderHoriz<T> {
    fn stretch_to(&mut self, width: usize)
        ensures final(self).segments@.len() == if width > old(self).segments@.len() { width as int } else { old(self).segments@.len() as int },
    {
        use self::BorderSegHoriz::*;
        while width > self.segments.len()
            invariant true,
            decreases width - self.segments.len(),
        {
            self.segments.push(Straight);
        }
    }

    fn join_above(&mut self, x: usize)
        requires x < usize::MAX,
    {
        use self::BorderSegHoriz::*;
        self.stretch_to(x + 1);
        let prev = self.segments[x];
        self.segments[x] = match prev {
            Straight | JoinAbove => JoinAbove,
            JoinBelow | JoinCross => JoinCross,
            StraightVert => StraightVert,
        }
    }
}

} // verus!
fn main() {}
