use vstd::prelude::*;
use vstd::arithmetic::mul::*;
use vstd::arithmetic::div_mod::*;
verus! {
global size_of usize == 8;

// ---- prelude (trusted) ----

spec fn in_range(v: Seq<usize>, j: usize) -> bool { j < v.len() }
spec fn key_le(a: (usize, usize, usize), b: (usize, usize, usize)) -> bool {
    a.0 < b.0 || (a.0 == b.0 && (a.1 < b.1 || (a.1 == b.1 && a.2 <= b.2)))
}
// std: Iterator::max_by_key over slice.iter().enumerate()
#[verifier::external_body]
fn enum_max_by_key<F: Fn(&(usize, &usize)) -> (usize, usize, usize)>(v: &Vec<usize>, f: F) -> (r: Option<(usize, &usize)>)
    requires forall|j: usize| j < v.len() ==> #[trigger] call_requires(f, (&(j, &v@[j as int]),)),
    ensures
        v.len() == 0 ==> r.is_none(),
        v.len() > 0 ==> (r matches Some(p) && p.0 < v.len() && *p.1 == v[p.0 as int]
            && exists|ki: (usize, usize, usize)| #[trigger] call_ensures(f, (&(p.0, p.1),), ki)
                && forall|j: usize| #[trigger] in_range(v@, j) ==> exists|kj: (usize, usize, usize)| #[trigger] call_ensures(f, (&(j, &v@[j as int]),), kj) && key_le(kj, ki)),
{ unimplemented!() }

spec fn ssum(s: Seq<usize>) -> nat decreases s.len() { if s.len() == 0 { 0 } else { ssum(s.drop_last()) + s.last() as nat } }
proof fn lemma_ssum_update_dec(s: Seq<usize>, i: int)
    requires 0 <= i < s.len(), s[i] >= 1,
    ensures ssum(s.update(i, (s[i] - 1) as usize)) == ssum(s) - 1,
    decreases s.len()
{
    if i == s.len() - 1 {
        assert(s.update(i, (s[i] - 1) as usize).drop_last() =~= s.drop_last());
    } else {
        assert(s.update(i, (s[i] - 1) as usize).drop_last() =~= s.drop_last().update(i, (s[i] - 1) as usize));
        lemma_ssum_update_dec(s.drop_last(), i);
    }
}
// R7 lowering target for `v.iter().sum::<usize>()`
fn vsum(v: &Vec<usize>) -> (r: usize)
    requires ssum(v@) <= usize::MAX,
    ensures r == ssum(v@),
{
    let mut acc = 0usize;
    for k in 0..v.len()
        invariant acc == ssum(v@.take(k as int)), ssum(v@) <= usize::MAX,
    {
        proof {
            assert(v@.take(k as int + 1).drop_last() =~= v@.take(k as int));
            lemma_ssum_prefix_le(v@, k as int + 1);
        }
        acc += v[k];
    }
    proof { assert(v@.take(v.len() as int) =~= v@); }
    acc
}
proof fn lemma_ssum_prefix_le(s: Seq<usize>, k: int)
    requires 0 <= k <= s.len(),
    ensures ssum(s.take(k)) <= ssum(s),
    decreases s.len() - k
{
    if k < s.len() {
        assert(s.take(k + 1).drop_last() =~= s.take(k));
        lemma_ssum_prefix_le(s, k + 1);
    } else { assert(s.take(k) =~= s); }
}

// ---- real text: SizeEstimate (lib.rs:338-376) ----
#[derive(Debug, Copy, Clone, Default)]
struct SizeEstimate {
    size: usize,      // Rough overall size
    min_width: usize, // The narrowest possible

    // The use is specific to the node type.
    prefix_size: usize,
}

spec fn mins(cs: Seq<SizeEstimate>) -> Seq<usize> { cs.map(|i: int, e: SizeEstimate| e.min_width) }

// ---- slice of render_table_tree (lib.rs:2263-2285), R7 + R12 lowered ----
fn shrink_slice(col_widths: &mut Vec<usize>, col_sizes: &Vec<SizeEstimate>, width: usize, vert_row: bool)
    requires
        old(col_widths).len() == col_sizes.len(),
        ssum(old(col_widths)@) + col_sizes.len() <= 0x4000_0000_0000_0000,
        // !vert_row  ==>  min_size <= width   (established just above the slice)
        !vert_row ==> ssum(mins(col_sizes@)) + (if col_sizes.len() > 0 { col_sizes.len() - 1 } else { 0 }) <= width,
    ensures
        final(col_widths).len() == col_sizes.len(),
        !vert_row && col_sizes.len() > 0 ==> ssum(final(col_widths)@) + (col_sizes.len() - 1) <= width,   // @C02 @C06
        vert_row ==> final(col_widths)@ == old(col_widths)@,
{
    if !vert_row {
        let num_cols = col_widths.len();
        if num_cols > 0 {
            loop
                invariant
                    col_widths.len() == col_sizes.len(), num_cols == col_sizes.len(), num_cols > 0,
                    ssum(col_widths@) + col_sizes.len() <= 0x4000_0000_0000_0000,
                    ssum(mins(col_sizes@)) + (col_sizes.len() - 1) <= width,
                ensures ssum(col_widths@) + (num_cols - 1) <= width, col_widths.len() == col_sizes.len(),
                decreases ssum(col_widths@),
            {
                let cur_width = vsum(&col_widths) + num_cols - 1;
                if cur_width <= width {
                    break;
                }
                proof { lemma_exists_slack(col_widths@, col_sizes@); }
                let ghost cw0 = col_widths@;
                let keyf =
                    |p: &(usize, &usize)| -> (k: (usize, usize, usize))
                        requires p.0 < col_sizes.len()
                        ensures k.0 == (if *p.1 >= col_sizes[p.0 as int].min_width { *p.1 - col_sizes[p.0 as int].min_width } else { 0 }) as usize
                    {
                        let colno = p.0; let width = p.1;
                        (
                            width.saturating_sub(col_sizes[colno].min_width),
                            *width,
                            usize::MAX - colno,
                        )
                    };
                let (i, _p1) = enum_max_by_key(&col_widths, keyf)
                    .unwrap();
                proof {
                    let j = choose|j: int| 0 <= j < cw0.len() && cw0[j] > col_sizes@[j].min_width;
                    let ki = choose|ki: (usize, usize, usize)| #[trigger] call_ensures(keyf, (&(i, _p1),), ki)
                        && forall|j: usize| #[trigger] in_range(cw0, j) ==> exists|kj: (usize, usize, usize)| #[trigger] call_ensures(keyf, (&(j, &cw0[j as int]),), kj) && key_le(kj, ki);
                    assert(in_range(cw0, j as usize));
                    let kj = choose|kj: (usize, usize, usize)| #[trigger] call_ensures(keyf, (&(j as usize, &cw0[j]),), kj) && key_le(kj, ki);
                    assert(kj.0 >= 1);
                    assert(ki.0 >= 1);
                    assert(cw0[i as int] >= 1);
                    lemma_ssum_update_dec(cw0, i as int);
                }
                col_widths[i] -= 1;
            }
        }
    }
}
proof fn lemma_exists_slack(w: Seq<usize>, cs: Seq<SizeEstimate>)
    requires w.len() == cs.len(), ssum(w) > ssum(mins(cs)),
    ensures exists|j: int| 0 <= j < w.len() && w[j] > cs[j].min_width,
    decreases w.len()
{
    if w.len() == 0 { } else {
        assert(mins(cs).drop_last() =~= mins(cs.drop_last()));
        if w.last() > cs.last().min_width { assert(w[w.len() - 1] > cs[w.len() - 1].min_width); }
        else {
            lemma_exists_slack(w.drop_last(), cs.drop_last());
            let j = choose|j: int| 0 <= j < w.drop_last().len() && w.drop_last()[j] > cs.drop_last()[j].min_width;
            assert(w[j] > cs[j].min_width);
        }
    }
}
}
fn main() {}
