
use vstd::prelude::*;
use std::fmt::Debug;
use std::mem;
macro_rules! html_trace { ($($t:tt)*) => {} }
macro_rules! html_trace_quiet { ($($t:tt)*) => {} }
verus! {
global size_of usize == 8;
pub struct TooNarrow;
pub type Result<T> = std::result::Result<T, TooNarrow>;
#[derive(Debug, Copy, Clone, Default, PartialEq, Eq)]
pub enum WhiteSpace { #[default] Normal, Pre, PreWrap }
impl WhiteSpace {
    pub fn preserve_whitespace(&self) -> bool { match self { WhiteSpace::Normal => false, WhiteSpace::Pre | WhiteSpace::PreWrap => true } }
    pub open spec fn do_wrap_spec(&self) -> bool { match self { WhiteSpace::Normal | WhiteSpace::PreWrap => true, WhiteSpace::Pre => false } }
    pub fn do_wrap(&self) -> (r: bool) ensures r == self.do_wrap_spec() { match self { WhiteSpace::Normal | WhiteSpace::PreWrap => true, WhiteSpace::Pre => false } }
}
pub uninterp spec fn cw(c: char) -> Option<usize>;
pub open spec fn sw(s: Seq<char>) -> nat decreases s.len() { if s.len() == 0 { 0 } else { sw(s.drop_last()) + (match cw(s.last()) { Some(w) => w as nat, None => 0 }) } }
pub struct UnicodeWidthChar;
impl UnicodeWidthChar {
    #[verifier::external_body]
    pub fn width(c: char) -> (r: Option<usize>) ensures r == cw(c), r matches Some(w) ==> w <= 2 { unimplemented!() }
}
pub struct UnicodeWidthStr;
impl UnicodeWidthStr {
    #[verifier::external_body]
    pub fn width(s: &str) -> (r: usize) ensures r == sw(s@) { unimplemented!() }
}
pub trait StrWidth { fn width(&self) -> usize; }
impl StrWidth for String {
    #[verifier::external_body]
    fn width(&self) -> (r: usize) ensures r == sw(self@) { unimplemented!() }
}
pub assume_specification [ str::repeat ] (s: &str, n: usize) -> (r: String)
    ensures r@.len() == s@.len() * n, forall|i: int| 0 <= i < r@.len() ==> r@[i] == s@[i % (s@.len() as int)];
pub open spec fn l8(c: char) -> nat { (choose|n: usize| call_ensures(char::len_utf8, (c,), n)) as nat }
#[verifier::external_body]
pub proof fn axiom_l8(c: char) ensures 1 <= l8(c) <= 4 {}
pub open spec fn off(s: Seq<char>, k: int) -> nat decreases k { if k <= 0 { 0 } else { off(s, k - 1) + l8(s[k - 1]) } }
pub open spec fn is_boundary(s: Seq<char>, a: int) -> bool { exists|k: int| 0 <= k <= s.len() && #[trigger] off(s, k) == a }
pub open spec fn cidx(s: Seq<char>, a: int) -> int { choose|k: int| 0 <= k <= s.len() && #[trigger] off(s, k) == a }
pub proof fn lemma_off_mono(s: Seq<char>, i: int, j: int)
    requires 0 <= i <= j <= s.len(),
    ensures off(s, i) + (j - i) <= off(s, j),
    decreases j - i
{ if i < j { axiom_l8(s[j - 1]); lemma_off_mono(s, i, j - 1); } }
pub proof fn lemma_cidx(s: Seq<char>, k: int)
    requires 0 <= k <= s.len(),
    ensures is_boundary(s, off(s, k) as int), cidx(s, off(s, k) as int) == k,
{
    let c = cidx(s, off(s, k) as int);
    if c < k { lemma_off_mono(s, c, k); } else if c > k { lemma_off_mono(s, k, c); }
}
pub proof fn lemma_off_skip(s: Seq<char>, c: int, k: int)
    requires 0 <= c <= s.len(), 0 <= k <= s.len() - c,
    ensures off(s.skip(c), k) + off(s, c) == off(s, c + k),
    decreases k
{ if k > 0 { lemma_off_skip(s, c, k - 1); } }
pub proof fn lemma_sw_take_succ(s: Seq<char>, k: int)
    requires 0 <= k < s.len(),
    ensures sw(s.take(k + 1)) == sw(s.take(k)) + (match cw(s[k]) { Some(w) => w as nat, None => 0 }),
{ assert(s.take(k + 1).drop_last() =~= s.take(k)); }
pub proof fn lemma_sw_concat(a: Seq<char>, b: Seq<char>)
    ensures sw(a + b) == sw(a) + sw(b),
    decreases b.len()
{
    if b.len() == 0 { assert(a + b =~= a); } else {
        assert((a + b).drop_last() =~= a + b.drop_last());
        lemma_sw_concat(a, b.drop_last());
    }
}
#[verifier::external_body]
pub proof fn axiom_string_len_bound(s: Seq<char>) ensures off(s, s.len() as int) <= usize::MAX {}
pub proof fn lemma_off_base(s: Seq<char>)
    ensures off(s, 0) == 0, s.len() > 0 ==> off(s, 1) == l8(s[0]), sw(Seq::<char>::empty()) == 0,
{ if s.len() > 0 { assert(off(s, 1) == off(s, 0) + l8(s[0])); } }
pub proof fn lemma_split(chars: Seq<char>, cpos: int, kb: int, tail: Seq<char>)
    requires 0 <= cpos <= chars.len(), tail == chars.skip(cpos), 0 <= kb <= tail.len(),
    ensures
        is_boundary(chars, off(chars, cpos) as int), is_boundary(chars, (off(chars, cpos) + off(tail, kb)) as int),
        cidx(chars, off(chars, cpos) as int) == cpos, cidx(chars, (off(chars, cpos) + off(tail, kb)) as int) == cpos + kb,
        off(chars, cpos + kb) == off(chars, cpos) + off(tail, kb),
        off(chars, cpos + kb) <= off(chars, chars.len() as int),
        chars.subrange(cpos, cpos + kb) == tail.take(kb),
        chars.skip(cpos + kb) == tail.skip(kb),
        sw(chars.take(cpos + kb)) == sw(chars.take(cpos)) + sw(tail.take(kb)),
        sw(chars) == sw(chars.take(cpos + kb)) + sw(chars.skip(cpos + kb)),
{
    lemma_off_skip(chars, cpos, kb);
    lemma_cidx(chars, cpos + kb);
    lemma_cidx(chars, cpos);
    lemma_off_mono(chars, cpos + kb, chars.len() as int);
    assert(chars.subrange(cpos, cpos + kb) =~= tail.take(kb));
    assert(chars.skip(cpos + kb) =~= tail.skip(kb));
    assert(chars.take(cpos) + tail.take(kb) =~= chars.take(cpos + kb));
    lemma_sw_concat(chars.take(cpos), tail.take(kb));
    lemma_sw_concat(chars.take(cpos + kb), chars.skip(cpos + kb));
    assert(chars.take(cpos + kb) + chars.skip(cpos + kb) =~= chars);
}
// std semantics of byte-indexed String slicing and char_indices over the offset model (R11)
#[verifier::external_body]
pub fn str_range(s: &String, a: usize, b: usize) -> (r: String)
    requires is_boundary(s@, a as int), is_boundary(s@, b as int), a <= b,
    ensures r@ == s@.subrange(cidx(s@, a as int), cidx(s@, b as int)),
{ s[a..b].into() }
#[verifier::external_body]
pub fn str_from(s: &String, a: usize) -> (r: String)
    requires is_boundary(s@, a as int),
    ensures r@ == s@.skip(cidx(s@, a as int)),
{ s[a..].into() }
#[verifier::external_body]
pub fn char_indices_vec(s: &String) -> (r: Vec<(usize, char)>)
    ensures r@.len() == s@.len(), forall|j: int| 0 <= j < s@.len() ==> (#[trigger] r@[j]).0 == off(s@, j) && r@[j].1 == s@[j],
{ s.char_indices().collect() }
pub assume_specification [ String::len ] (s: &String) -> (r: usize) ensures r == off(s@, s@.len() as int);

#[verifier::external_body]
pub proof fn axiom_cw_space() ensures cw(' ') == Some(1usize) {}
pub proof fn lemma_sw_spaces(s: Seq<char>)
    requires forall|i: int| 0 <= i < s.len() ==> s[i] == ' ',
    ensures sw(s) == s.len(),
    decreases s.len()
{
    axiom_cw_space();
    if s.len() > 0 { lemma_sw_spaces(s.drop_last()); }
}

/// A wrapper around a String with extra metadata.
#[derive(Debug, Clone, PartialEq)]
struct TaggedString<T> {
    /// The wrapped text.
    s: String,

    /// The metadata.
    tag: T,
}
impl<T: Debug + PartialEq> TaggedString<T> {
    /// Returns the tagged string’s display width in columns.
    ///
    /// See [`unicode_width::UnicodeWidthStr::width`][] for more information.
    ///
    /// [`unicode_width::UnicodeWidthStr::width`]: https://docs.rs/unicode-width/latest/unicode_width/trait.UnicodeWidthStr.html
    fn width(&self) -> (r: usize) ensures r == sw(self.s@) {
        self.s.width()
    }
}
/// An element of a line of tagged text: either a TaggedString or a
/// marker appearing in between document characters.
#[derive(Clone, Debug, PartialEq)]
enum TaggedLineElement<T> {
    /// A string with tag information attached.
    Str(TaggedString<T>),

    /// A zero-width marker indicating the start of a named HTML fragment.
    FragmentStart(String),
}

impl<T> TaggedLineElement<T> {
    /// Return true if this element is non-empty.
    /// FragmentStart is considered empty.
    fn has_content(&self) -> bool {
        match self {
            TaggedLineElement::Str(_) => true,
            TaggedLineElement::FragmentStart(_) => false,
        }
    }
}
/// A line of tagged text (composed of a set of `TaggedString`s).
#[derive(Debug, Clone, PartialEq)]
struct TaggedLine<T> {
    v: Vec<TaggedLineElement<T>>,
    len: usize,
}
spec fn ew<T>(e: TaggedLineElement<T>) -> nat { match e { TaggedLineElement::Str(ts) => sw(ts.s@), TaggedLineElement::FragmentStart(_) => 0 } }
spec fn elt_some<T>(e: TaggedLineElement<T>) -> bool { match e { TaggedLineElement::Str(ts) => forall|k: int| 0 <= k < ts.s@.len() ==> cw(#[trigger] ts.s@[k]).is_some(), TaggedLineElement::FragmentStart(_) => true } }
spec fn all_some<T>(v: Seq<TaggedLineElement<T>>) -> bool { forall|i: int| 0 <= i < v.len() ==> elt_some(#[trigger] v[i]) }
spec fn cwid<T>(v: Seq<TaggedLineElement<T>>) -> nat decreases v.len() { if v.len() == 0 { 0 } else { cwid(v.drop_last()) + ew(v.last()) } }
proof fn lemma_cwid_ge<T>(v: Seq<TaggedLineElement<T>>, i: int)
    requires 0 <= i < v.len(),
    ensures ew(v[i]) <= cwid(v),
    decreases v.len()
{ if i < v.len() - 1 { lemma_cwid_ge(v.drop_last(), i); } }
impl<T> TaggedLine<T> {
    spec fn wf(&self) -> bool { self.len == cwid(self.v@) }
}
impl<T: Debug + Eq + PartialEq + Clone + Default> TaggedLine<T> {
    /// Create an empty `TaggedLine`.
    fn new() -> (r: TaggedLine<T>) ensures r.wf(), r.len == 0, r.v@.len() == 0 {
        TaggedLine {
            v: Vec::new(),
            len: 0,
        }
    }
    #[verifier::external_body]
    fn is_empty(&self) -> (r: bool) ensures self.wf() && r ==> self.len == 0, r ==> cwid(self.v@) == 0, cwid(self.v@) > 0 ==> !r {
        for elt in &self.v {
            if elt.has_content() {
                return false;
            }
        }
        true
    }
    /// Add a new tagged string fragment to the line
    #[verifier::external_body]
    fn push_str(&mut self, ts: TaggedString<T>)
        requires old(self).wf(), old(self).len + sw(ts.s@) <= usize::MAX,
        ensures final(self).wf(), final(self).len == old(self).len + sw(ts.s@),
    {
        use self::TaggedLineElement::Str;

        if !ts.s.is_empty() {
            self.len += UnicodeWidthStr::width(ts.s.as_str());
            if let Some(Str(ts_prev)) = self.v.last_mut() {
                if ts_prev.tag == ts.tag {
                    ts_prev.s.push_str(&ts.s);
                    return;
                }
            }
            self.v.push(Str(ts));
        }
    }

    /// Add a new general TaggedLineElement to the line
    fn push(&mut self, tle: TaggedLineElement<T>)
        requires old(self).wf(), old(self).len + ew(tle) <= usize::MAX,
        ensures final(self).wf(), final(self).len == old(self).len + ew(tle),
    {
        use self::TaggedLineElement::Str;

        if let Str(ts) = tle {
            self.push_str(ts);
        } else {
            self.v.push(tle);
            proof { assert(self.v@.drop_last() =~= old(self).v@); }
        }
    }

    /// Push some whitespace
    fn push_ws(&mut self, len: usize, tag: &T)
        requires old(self).wf(), old(self).len + len <= usize::MAX,
        ensures final(self).wf(), final(self).len == old(self).len + len,
    {
        use self::TaggedLineElement::Str;
        proof {
            reveal_strlit(" ");
            assert forall|s: Seq<char>| (forall|i: int| 0 <= i < s.len() ==> s[i] == ' ') implies sw(s) == s.len() by { lemma_sw_spaces(s); }
        }
        self.push(Str(TaggedString {
            s: " ".repeat(len),
            tag: tag.clone(),
        }));
    }
    /// Add text with a particular tag to self
    #[verifier::external_body]
    fn push_char(&mut self, c: char, tag: &T)
        requires old(self).len + 2 <= usize::MAX,
        ensures final(self).len == old(self).len + (match cw(c) { Some(w) => w as nat, None => 0 }),
                cwid(final(self).v@) == cwid(old(self).v@) + (match cw(c) { Some(w) => w as nat, None => 0 }),
                old(self).wf() ==> final(self).wf(),
                cw(c).is_some() && all_some(old(self).v@) ==> all_some(final(self).v@),
    {
        use self::TaggedLineElement::Str;

        self.len += UnicodeWidthChar::width(c).unwrap_or(0);
        if let Some(Str(ts_prev)) = self.v.last_mut() {
            if ts_prev.tag == *tag {
                ts_prev.s.push(c);
                return;
            }
        }
        let mut s = String::new();
        s.push(c);
        self.v.push(Str(TaggedString {
            s,
            tag: tag.clone(),
        }));
    }
    #[verifier::external_body]
    fn remove_items(&mut self) -> (r: Vec<TaggedLineElement<T>>)
        ensures r@ == old(self).v@, final(self).v@.len() == 0, final(self).len == 0,
    { self.len = 0; std::mem::take(&mut self.v) }
    #[verifier::external_body]
    fn consume(&mut self, tl: &mut TaggedLine<T>)
        requires old(self).wf(), old(self).len + cwid(old(tl).v@) <= usize::MAX,
        ensures final(self).wf(), final(self).len == old(self).len + cwid(old(tl).v@), final(tl).v@.len() == 0, final(tl).len == old(tl).len,
    { unimplemented!() }
    #[verifier::external_body]
    fn width(&self) -> (r: usize) requires self.wf() ensures r == self.len { unimplemented!() }

    /// Pad this line to width with spaces (or if already at least this wide, do
    /// nothing).
    fn pad_to(&mut self, width: usize, tag: &T)
        requires old(self).wf(),
        ensures final(self).wf(), final(self).len == if width > old(self).len { width } else { old(self).len },
    {
        let my_width = self.width();
        if width > my_width {
            self.push_ws(width - my_width, tag);
        }
    }
}
/// A type to build up wrapped text, allowing extra metadata for
/// spans.
#[derive(Debug, Clone)]
struct WrappedBlock<T> {
    width: usize,
    text: Vec<TaggedLine<T>>,
    line: TaggedLine<T>,
    spacetag: Option<T>, // Tag for the whitespace before the current word
    word: TaggedLine<T>, // The current word (with no whitespace).
    wordlen: usize,
    wslen: usize,
    pre_wrapped: bool, // If true, we've been forced to wrap a <pre> line.
    pad_blocks: bool,
    allow_overflow: bool,
}
impl<T> WrappedBlock<T> {
    spec fn inv_base(&self) -> bool {
        &&& self.line.wf()
        &&& (self.wslen > 0 ==> self.spacetag.is_some())
        &&& self.wslen + self.wordlen + self.width + self.word.len <= 0x4000_0000_0000_0000
        &&& self.line.len <= 0x4000_0000_0000_0000
        &&& (forall|i: int| 0 <= i < self.text@.len() ==> self.line_ok(#[trigger] self.text@[i]))
    }
    spec fn inv_nw(&self) -> bool { self.inv_base() && self.line.len <= self.width }
    spec fn inv(&self) -> bool { self.inv_nw() && self.wordlen == cwid(self.word.v@) && all_some(self.word.v@) }
    spec fn line_ok(&self, l: TaggedLine<T>) -> bool {
        l.wf() && (l.len <= self.width || self.allow_overflow)
    }
}
impl<T: Clone + Eq + Debug + Default> WrappedBlock<T> {
    fn new(width: usize, pad_blocks: bool, allow_overflow: bool) -> WrappedBlock<T> {
        WrappedBlock {
            width,
            text: Vec::new(),
            line: TaggedLine::new(),
            spacetag: None,
            word: TaggedLine::new(),
            wordlen: 0,
            wslen: 0,
            pre_wrapped: false,
            pad_blocks,
            allow_overflow,
        }
    }
    fn flush_word(&mut self, ws_mode: WhiteSpace) -> (r: Result<()>)
        requires old(self).inv(), old(self).width >= 1,
        ensures r.is_ok() ==> final(self).inv(), final(self).inv_nw(), final(self).width == old(self).width, final(self).allow_overflow == old(self).allow_overflow,
                old(self).allow_overflow ==> r.is_ok(),
                final(self).wslen <= old(self).wslen, final(self).wordlen <= old(self).wordlen, final(self).word.len <= old(self).word.len,
                // L3 (shape level): greedy fit rule
                cwid(old(self).word.v@) > 0 && old(self).wslen + old(self).wordlen <= old(self).width - old(self).line.len ==>
                    r.is_ok() && final(self).text@.len() == old(self).text@.len()
                    && final(self).line.len == old(self).line.len + old(self).wslen + old(self).wordlen,
                cwid(old(self).word.v@) > 0 && old(self).wslen + old(self).wordlen > old(self).width - old(self).line.len && ws_mode.do_wrap_spec() && r.is_ok()
                    && old(self).line.len > 0 ==>
                    final(self).text@.len() >= old(self).text@.len() + 1,
    {
        use self::TaggedLineElement::Str;

        /* Finish the word. */
        html_trace_quiet!(
            "flush_word: word={:?}, linelen={}",
            self.word,
            self.line.len
        );

        proof {
            reveal_strlit(" ");
            assert forall|s: Seq<char>| (forall|i: int| 0 <= i < s.len() ==> s[i] == ' ') implies sw(s) == s.len() by { lemma_sw_spaces(s); }
        }
        if !self.word.is_empty() {
            self.pre_wrapped = false;
            let space_in_line = self.width - self.line.len;
            let space_needed = self.wslen + self.wordlen;
            if space_needed <= space_in_line {
                html_trace!("Got enough space");
                if self.wslen > 0 {
                    self.line.push(Str(TaggedString {
                        s: " ".repeat(self.wslen),
                        tag: self.spacetag.take().unwrap(),
                    }));
                    self.wslen = 0;
                }

                self.line.consume(&mut self.word);
                html_trace!("linelen increased by wordlen to {}", self.line.len);
            } else {
                html_trace!("Not enough space");
                // The column position inside (whitespace + word)
                if !ws_mode.do_wrap() {
                    // We're not word-wrapping, so output any portion that still
                    // fits.
                    if self.wslen >= space_in_line {
                        // Skip the whitespace
                        self.wslen -= space_in_line;
                    } else if self.wslen > 0 {
                        self.line
                            .push_ws(self.wslen, &self.spacetag.take().unwrap());
                        self.wslen = 0;
                    }
                } else {
                    // We're word-wrapping, so discard any whitespace.
                    self.spacetag = None;
                    self.wslen = 0;
                }
                /* Start a new line */
                self.flush_line();

                if ws_mode == WhiteSpace::Pre {
                    self.pre_wrapped = true;
                }

                // Write any remaining whitespace
                while self.wslen > 0
                    invariant self.text@.len() >= old(self).text@.len() + (if old(self).line.len > 0 { 1int } else { 0int }), self.inv(), self.width >= 1, self.wordlen == old(self).wordlen, self.word == old(self).word, self.wslen <= old(self).wslen, self.wslen > 0 ==> self.line.len == 0, self.width == old(self).width, self.allow_overflow == old(self).allow_overflow,
                    decreases self.wslen
                {
                    let to_copy = self.wslen.min(self.width);
                    self.line.push_ws(to_copy, self.spacetag.as_ref().unwrap());
                    if to_copy == self.width {
                        self.flush_line();
                    }
                    self.wslen -= to_copy;
                }
                self.spacetag = None;

                // At this point, either:
                // We're word-wrapping, and at the start of the line or
                // We're preformatted, and may have some whitespace at the start of the
                // line.  In either case we just keep outputing the word directly, hard
                // wrapping if needed.
                self.flush_word_hard_wrap()?;
            }
        }
        self.wordlen = 0;
        Ok(())
    }
    #[verifier::loop_isolation(false)]
    fn flush_word_hard_wrap(&mut self) -> (r: Result<()>)
        requires old(self).inv(),
        ensures final(self).inv_nw(), final(self).width == old(self).width, final(self).allow_overflow == old(self).allow_overflow,
                final(self).word.v@.len() == 0, final(self).wslen == old(self).wslen, final(self).wordlen == old(self).wordlen,
                final(self).text@.len() >= old(self).text@.len(), final(self).word.len == 0,
                old(self).allow_overflow ==> r.is_ok(),
    {
        hide(sw); hide(off); hide(cidx); hide(is_boundary);
        use self::TaggedLineElement::Str;

        let mut lineleft = self.width - self.line.len;
        let items = self.word.remove_items();
        for element in it: items
            invariant
                self.inv_nw(), lineleft == self.width - self.line.len,
                self.width == old(self).width, self.allow_overflow == old(self).allow_overflow,
                self.word.v@.len() == 0, self.word.len == 0, self.wslen == old(self).wslen, self.wordlen == old(self).wordlen,
                self.text@.len() >= old(self).text@.len(),
                all_some(items@), it.history@.len() == it.index@, it.seq() == items@, cwid(items@) <= 0x4000_0000_0000_0000,
        {
            proof { lemma_cwid_ge(items@, it.index@); }
            assert(element == items@[it.index@]);
            assert(elt_some(element));
            if let Str(piece) = element {
                let w = piece.width();
                let mut wpos = 0; // Width of already-copied pieces
                let mut bpos = 0; // Byte position of already-copied pieces
                                  //
                let ghost chars = piece.s@;
                let ghost mut cpos: int = 0;
                proof { assert(chars.take(0) =~= Seq::<char>::empty()); lemma_off_base(chars); }
                while w - wpos > lineleft
                    invariant
                        0 <= cpos <= chars.len(), chars == piece.s@, bpos == off(chars, cpos),
                        wpos == sw(chars.take(cpos)), w == sw(chars), wpos <= w, w <= 0x4000_0000_0000_0000,
                        forall|k: int| 0 <= k < chars.len() ==> cw(#[trigger] chars[k]).is_some(),
                        self.inv_nw(), lineleft == self.width - self.line.len,
                        self.width == old(self).width, self.allow_overflow == old(self).allow_overflow,
                        self.word.v@.len() == 0, self.word.len == 0, self.wslen == old(self).wslen, self.wordlen == old(self).wordlen,
                        self.text@.len() >= old(self).text@.len(),
                    decreases chars.len() - cpos, self.line.len,
                {
                    let mut split_idx = 0;
                    proof { lemma_split(chars, cpos, 0, chars.skip(cpos)); }
                    let tail = str_from(&piece.s, bpos);
                    let ci = char_indices_vec(&tail);
                    let ghost ll0 = lineleft;
                    let ghost wpos0 = wpos;
                    let ghost mut kb: int = 0;
                    let ghost mut ovf: bool = false;
                    proof {
                        assert(tail@ == chars.skip(cpos));
                        assert(tail@.take(0) =~= Seq::<char>::empty());
                    }
                    for k in 0..ci.len()
                        invariant_except_break
                            split_idx == 0, !ovf, (k as int) < tail@.len(),
                            lineleft == ll0 - sw(tail@.take(k as int)), wpos == wpos0 + sw(tail@.take(k as int)),
                        invariant
                            tail@ == chars.skip(cpos), ci@.len() == tail@.len(),
                            forall|j: int| 0 <= j < tail@.len() ==> (#[trigger] ci@[j]).0 == off(tail@, j) && ci@[j].1 == tail@[j],
                            forall|j: int| 0 <= j < tail@.len() ==> cw(#[trigger] tail@[j]).is_some(),
                            0 <= cpos <= chars.len(), ll0 == self.width - self.line.len, sw(tail@) == w - wpos0, w - wpos0 > ll0,
                            self.inv_nw(), wpos0 <= w, w <= 0x4000_0000_0000_0000,
                        ensures
                            0 <= kb <= tail@.len(), split_idx == off(tail@, kb), wpos == wpos0 + sw(tail@.take(kb)),
                            !ovf ==> sw(tail@.take(kb)) <= ll0 && (kb >= 1 || self.line.len > 0),
                            ovf ==> kb == 1 && self.allow_overflow && self.line.len == 0,
                    {
                        let (idx, c) = ci[k];
                        let c_w = UnicodeWidthChar::width(c).unwrap();
                        proof { lemma_sw_take_succ(tail@, k as int); }
                        if c_w <= lineleft {
                            lineleft -= c_w;
                            wpos += c_w;
                            proof {
                                if k + 1 == tail@.len() { assert(tail@.take(k as int + 1) =~= tail@); assert(false); }
                            }
                        } else {
                            // Check if we've made no progress, for example
                            // if the first character is 2 cells wide and we
                            // only have a width of 1.
                            if idx == 0 && self.line.width() == 0 {
                                if self.allow_overflow {
                                    split_idx = c.len_utf8();
                                    wpos += c_w;
                                    proof {
                                        assert(call_ensures(char::len_utf8, (c,), split_idx));
                                        if k > 0 { lemma_off_mono(tail@, 0, k as int); }
                                        kb = 1; ovf = true;
                                        lemma_off_base(tail@);
                                    }
                                    break;
                                } else {
                                    return Err(TooNarrow);
                                }
                            }
                            split_idx = idx;
                            proof {
                                kb = k as int;
                                if k == 0 { assert(idx == 0); }
                            }
                            break;
                        }
                    }
                    proof {
                        assert(0 <= kb <= tail@.len());
                        assert(split_idx == off(tail@, kb));
                        assert(wpos == wpos0 + sw(tail@.take(kb)));
                        lemma_split(chars, cpos, kb, tail@);
                        axiom_string_len_bound(chars);
                        if ovf { lemma_sw_take_succ(tail@, 0); assert(tail@.take(0) =~= Seq::<char>::empty()); }
                    }
                    self.line.push(Str(TaggedString {
                        s: str_range(&piece.s, bpos, bpos + split_idx),
                        tag: piece.tag.clone(),
                    }));
                    bpos += split_idx;
                    proof { cpos = cpos + kb; }
                    self.force_flush_line();
                    lineleft = self.width;
                }
                proof {
                    lemma_split(chars, cpos, 0, chars.skip(cpos));
                    if cpos > 0 { lemma_off_mono(chars, 0, cpos); }
                    assert(chars.take(0) =~= Seq::<char>::empty());
                }
                if bpos == 0 {
                    self.line.push(Str(piece));
                    lineleft -= w;
                } else if bpos < piece.s.len() {
                    self.line.push(Str(TaggedString {
                        s: str_from(&piece.s, bpos),
                        tag: piece.tag,
                    }));
                    lineleft -= w.saturating_sub(wpos);
                }
            }
        }
        Ok(())
    }

    #[verifier::loop_isolation(false)]
    #[verifier::rlimit(80)]
    fn add_text(
        &mut self,
        text: &str,
        ws_mode: WhiteSpace,
        main_tag: &T,
        wrap_tag: &T,
    ) -> (r: Result<()>)
        requires old(self).inv(), old(self).width >= 1, text@.len() <= 0x1000_0000_0000_0000, old(self).wslen + old(self).wordlen + old(self).width + old(self).word.len + 4 * text@.len() <= 0x4000_0000_0000_0000,
        ensures r.is_ok() ==> final(self).inv(), final(self).inv_nw(), final(self).width == old(self).width, final(self).allow_overflow == old(self).allow_overflow,
                old(self).allow_overflow ==> r.is_ok(),
    {
        hide(sw); hide(cwid); hide(off);
        html_trace!("WrappedBlock::add_text({}), {:?}", text, main_tag);
        // We walk character by character.
        // 1. First, build up whitespace columns in self.wslen
        //    - In normal mode self.wslen will always be 0 or 1
        //    - If wslen > 0, then self.spacetag will always be set.
        // 2. Next build up a word (non-whitespace).
        // 2a. If the word gets too long for the line
        // 2b. If we get to more whitespace, output the first whitespace and the word
        //     and continue.
        let mut tag = if self.pre_wrapped { wrap_tag } else { main_tag };
        for c in it: text.chars()
            invariant
                self.inv(), self.width == old(self).width, self.width >= 1, self.allow_overflow == old(self).allow_overflow,
                self.wslen + self.wordlen + self.width + self.word.len + 4 * (text@.len() - it.index@) <= 0x4000_0000_0000_0000,
                0 <= it.index@ <= text@.len(),
        {
            html_trace!(
                "c = {:?} word={:?} linelen={} wslen={} line={:?}",
                c,
                self.word,
                self.line.len,
                self.wslen,
                self.line
            );
            if c.is_whitespace() && self.wordlen > 0 {
                self.flush_word(ws_mode)?;
            }

            if c.is_whitespace() {
                // We're just building up whitespace.
                if ws_mode.preserve_whitespace() {
                    match c {
                        '\n' => {
                            // End of line.  We have no words here, so just finish
                            // the line.
                            self.force_flush_line();
                            self.wslen = 0;
                            self.spacetag = None;
                            self.pre_wrapped = false;
                            // Hard new line, so back to main tag.
                            tag = main_tag;
                        }
                        '\t' => {
                            let tab_stop = 8;
                            let mut pos = self.line.len + self.wslen;
                            let mut at_least_one_space = false;
                            while pos % tab_stop != 0 || !at_least_one_space
                                invariant
                                    self.inv(), self.width == old(self).width, self.width >= 1, self.allow_overflow == old(self).allow_overflow,
                                    self.line.len <= pos, pos <= 0x4000_0000_0000_0000, tab_stop == 8,
                                    self.wslen + self.wordlen + self.width + self.word.len + 4 * (text@.len() - it.index@) <= 0x4000_0000_0000_0000,
                                decreases
                                    (if at_least_one_space { 0int } else { 1int }),
                                    (if !at_least_one_space && pos >= self.width { 1int } else { 0int }),
                                    (if pos % 8 == 0 { 0int } else { 8 - pos % 8 }),
                            {
                                if pos >= self.width {
                                    self.flush_line();
                                    pos = 0;
                                } else {
                                    proof { axiom_cw_space(); }
                                    self.line.push_char(' ', tag);
                                    pos += 1;
                                    at_least_one_space = true;
                                }
                            }
                        }
                        _ => {
                            if let Some(cwidth) = UnicodeWidthChar::width(c) {
                                if (self.line.len + self.wslen + cwidth) > self.width {
                                    // In any case we can discard whitespace we've
                                    // built up, as it will be at the end of the line.
                                    self.wslen = 0;

                                    self.flush_line();
                                    if ws_mode.do_wrap() {
                                        // We're handling wrapping, so collapse
                                        self.pre_wrapped = false;
                                    } else {
                                        // Manual wrapping, keep the space.
                                        self.wslen += cwidth;
                                        self.spacetag = Some(tag.clone());
                                        self.pre_wrapped = true;
                                    }
                                } else {
                                    self.spacetag = Some(tag.clone());
                                    self.wslen += cwidth;
                                }
                            }
                        }
                    }
                } else {
                    // If not preserving whitespace, everything is collapsed,
                    // and the line won't start with whitespace.
                    if self.line.len > 0 && self.wslen == 0 {
                        self.spacetag = Some(tag.clone());
                        self.wslen = 1;
                    }
                }
            } else {
                // Non-whitespace character: add to the current word.
                if let Some(cwidth) = UnicodeWidthChar::width(c) {
                    self.wordlen += cwidth;
                    // Special case: detect wrapping preformatted line to switch
                    // the tag.
                    if ws_mode == WhiteSpace::Pre
                        && (self.line.len + self.wslen + self.wordlen > self.width)
                    {
                        self.pre_wrapped = true;
                        tag = wrap_tag;
                    }
                    self.word.push_char(c, tag);
                }
            }
        }
        Ok(())
    }

    fn flush_line(&mut self)
        requires old(self).inv_nw(),
        ensures final(self).inv_nw(), final(self).line.len == 0,
                final(self).width == old(self).width, final(self).allow_overflow == old(self).allow_overflow,
                final(self).wslen == old(self).wslen, final(self).wordlen == old(self).wordlen, final(self).word == old(self).word,
                final(self).spacetag == old(self).spacetag,
                final(self).text@.len() >= old(self).text@.len(),
                old(self).line.len > 0 ==> final(self).text@.len() == old(self).text@.len() + 1,
    {
        if !self.line.is_empty() {
            self.force_flush_line();
        }
    }

    fn force_flush_line(&mut self)
        requires old(self).inv_base(), old(self).line.len <= old(self).width || old(self).allow_overflow,
        ensures final(self).inv_nw(), final(self).line.len == 0, final(self).line.v@.len() == 0,
                final(self).width == old(self).width, final(self).allow_overflow == old(self).allow_overflow,
                final(self).wslen == old(self).wslen, final(self).wordlen == old(self).wordlen, final(self).word == old(self).word,
                final(self).spacetag == old(self).spacetag,
                final(self).text@.len() == old(self).text@.len() + 1,
    {
        let mut tmp_line = TaggedLine::new();
        mem::swap(&mut tmp_line, &mut self.line);
        if self.pad_blocks {
            let tmp_tag;
            let tag = if let Some(st) = self.spacetag.as_ref() {
                st
            } else {
                tmp_tag = Default::default();
                &tmp_tag
            };
            tmp_line.pad_to(self.width, tag);
        }
        self.text.push(tmp_line);
    }
}
} // verus!
fn main() {}
