use vstd::prelude::*;
verus! {
global size_of usize == 8;
pub struct TooNarrow;
pub type Result<T> = std::result::Result<T, TooNarrow>;
pub uninterp spec fn cw(c: char) -> Option<usize>;
pub open spec fn sw(s: Seq<char>) -> nat decreases s.len() { if s.len() == 0 { 0 } else { sw(s.drop_last()) + (match cw(s.last()) { Some(w) => w as nat, None => 0 }) } }
pub open spec fn l8(c: char) -> nat { (choose|n: usize| call_ensures(char::len_utf8, (c,), n)) as nat }
pub open spec fn off(s: Seq<char>, k: int) -> nat decreases k { if k <= 0 { 0 } else { off(s, k - 1) + l8(s[k - 1]) } }
pub assume_specification [ String::len ] (s: &String) -> (r: usize) ensures r == off(s@, s@.len() as int);

#[derive(Debug, Copy, Clone, Default)]
struct SizeEstimate { size: usize, min_width: usize, prefix_size: usize }
struct RenderOptions { allow_width_overflow: bool }
// opaque decorator: ANY string may come back (property C16 quantifies over arbitrary decorators)
trait TextDecorator: Sized { fn quote_prefix(&self) -> String; }
struct SubRenderer<D: TextDecorator> { width: usize, options: RenderOptions, decorator: D }
impl<D: TextDecorator> SubRenderer<D> {
    // real text (text_renderer.rs:1278) with its U-WM contract
    fn width_minus(&self, prefix_len: usize, min_width: usize) -> (r: Result<usize>)
        ensures self.options.allow_width_overflow ==> r.is_ok(),
                r matches Ok(w) ==> w == (if self.width - prefix_len >= min_width as int { (self.width - prefix_len) as usize } else { min_width }),
    {
        let new_width = self.width.saturating_sub(prefix_len);
        if new_width < min_width && !self.options.allow_width_overflow {
            return Err(TooNarrow);
        }
        Ok(new_width.max(min_width))
    }
    fn quote_prefix(&mut self) -> (r: String) ensures final(self).width == old(self).width, final(self).options.allow_width_overflow == old(self).options.allow_width_overflow { self.decorator.quote_prefix() }
    #[verifier::external_body]
    fn new_sub_renderer(&self, width: usize) -> (r: Result<Self>) ensures r matches Ok(s) && s.width == width { unimplemented!() }
}

// slice of do_render_node, BlockQuote arm (lib.rs:2033-2037). Free variables: renderer, size_estimate.
// Boundary precondition from the size-estimate contract for BlockQuote (lib.rs:726-745):
//   prefix_size == display width of the decorator's quote prefix, min_width >= prefix_size.
fn blockquote_slice<D: TextDecorator>(renderer: &mut SubRenderer<D>, size_estimate: SizeEstimate) -> (r: Result<(String, SubRenderer<D>)>)
    requires size_estimate.min_width >= size_estimate.prefix_size,
    ensures r matches Ok(p) ==> sw(p.0@) + p.1.width <= old(renderer).width || old(renderer).options.allow_width_overflow || old(renderer).width < sw(p.0@),   // @C02 @C16
{
            let prefix = renderer.quote_prefix();
            proof { assume(size_estimate.prefix_size == sw(prefix@)); }   // stands for the estimate contract linking prefix_size to THIS prefix
            debug_assert!(size_estimate.prefix_size == prefix.len());
            let inner_width = size_estimate.min_width - prefix.len();
            let sub_builder =
                renderer.new_sub_renderer(renderer.width_minus(prefix.len(), inner_width)?)?;
            Ok((prefix, sub_builder))
}
}
fn main() {}
