import re,sys
path='/verif/units/SR.rs'
s=open(path).read()
def item_range(name):
    m=re.search(r'//@item \S+ :: (?:impl [^\n]*?:: )?(?:fn|trait|struct|enum) %s\n'%re.escape(name), s)
    assert m, name
    e=s.index('//@end', m.end())
    return m.end(), e
def contract(name, text):
    """insert contract lines before the body-open `{` line of fn `name`"""
    global s
    a,e=item_range(name)
    body=s[a:e]
    m=re.search(r'(?m)^(    |)\{\n', body)
    assert m, name
    lines=''.join(l.rstrip()+(' //@w' if '//@w' not in l else '')+'\n' for l in text.strip('\n').split('\n'))
    body=body[:m.start()]+lines+body[m.start():]
    s=s[:a]+body+s[e:]
def after(name, anchor, text, before=False):
    global s
    a,e=item_range(name)
    body=s[a:e]
    i=-1
    while True:
        i=body.index(anchor, i+1)
        l0=body.rfind('\n',0,i)+1
        if not body[l0:].lstrip().startswith('//@'):
            break
    ls=body.rfind('\n',0,i)+1 if before else body.index('\n',i)+1
    lines=''.join(l.rstrip()+(' //@w' if '//@w' not in l else '')+'\n' for l in text.strip('\n').split('\n'))
    body=body[:ls]+lines+body[ls:]
    s=s[:a]+body+s[e:]

# ---------- spec infrastructure (ours), placed before the impl block
infra='''
// ---- specs (ours) ----
spec fn wrap_width_spec(ww: Option<usize>, width: usize) -> usize {
    match ww { Some(m) => { let m1 = if m >= 1 { m } else { 1usize }; if m1 <= width { m1 } else { width } }, None => width }
}
spec fn rl_ok<T>(l: RenderLine<T>, width: usize, allow: bool) -> bool { l matches RenderLine::Text(t) ==> t.wf() && fits(t, width, allow) }
spec fn lines_ok<T>(ls: Seq<RenderLine<T>>, width: usize, allow: bool) -> bool { forall|i: int| 0 <= i < ls.len() ==> rl_ok(#[trigger] ls[i], width, allow) }
impl<D: TextDecorator> SubRenderer<D> {
    // representation invariant of a sub-renderer (C02 lives here: every finished line fits the renderer's width)
    spec fn wrap_ok(&self) -> bool {
        self.wrapping matches Some(w) ==> w.inv() && w.width >= 1 && w.width <= self.width && w.allow_overflow == self.options.allow_width_overflow
            && w.pad_blocks == self.options.pad_block_width
    }
    spec fn sr_inv(&self) -> bool {
        &&& 1 <= self.width <= 0x1000_0000_0000_0000
        &&& self.wrap_ok()
        &&& no_str(self.pending_frags@) && all_some(self.pending_frags@)
        &&& lines_ok(self.lines@, self.width, self.options.allow_width_overflow)
    }
    // A5 (boundary): accumulated widths are far from overflowing when a public operation starts
    spec fn headroom(&self) -> bool { self.wrapping matches Some(w) ==> w.wslen + w.wordlen + w.width + w.word.len <= 0x2000_0000_0000_0000 }
    // what inline operations must leave alone
    spec fn same_stacks(&self, o: &Self) -> bool {
        self.ann_stack@ == o.ann_stack@ && self.ws_stack@ == o.ws_stack@ && self.pre_depth == o.pre_depth && self.text_filter_stack@ == o.text_filter_stack@
    }
    spec fn same_config(&self, o: &Self) -> bool { self.width == o.width && self.options == o.options }
    spec fn ws_mode_spec(&self) -> WhiteSpace { if self.ws_stack@.len() > 0 { self.ws_stack@.last() } else { WhiteSpace::Normal } }
}
'''
s=s.replace("\nimpl<D: TextDecorator> SubRenderer<D> {\n//@item", infra+"\nimpl<D: TextDecorator> SubRenderer<D> {\n//@item",1)

# ---------- trait: A5 bounds on decorator strings; finalise yields one line per url
def trait_line(sig, ens):
    global s
    assert s.count('\n'+sig+'\n')==1, sig
    s=s.replace('\n'+sig+'\n', '\n'+sig+'\n        '+ens+' //@w\n')
for nm in ['decorate_link_start(&mut self, url: &str)','decorate_em_start(&self)','decorate_strong_start(&self)','decorate_strikeout_start(&self)','decorate_code_start(&self)','decorate_image(&mut self, src: &str, title: &str)','decorate_superscript_start(&self)']:
    trait_line('    fn %s -> (r: (String, Self::Annotation))'%nm, 'ensures short(r.0@);')
for nm in ['decorate_link_end(&mut self)','decorate_em_end(&self)','decorate_strong_end(&self)','decorate_strikeout_end(&self)','decorate_code_end(&self)','decorate_superscript_end(&self)']:
    trait_line('    fn %s -> (r: String)'%nm, 'ensures short(r@);')
for nm in ['header_prefix(&self, level: usize)','quote_prefix(&self)','unordered_item_prefix(&self)','ordered_item_prefix(&self, i: i64)']:
    trait_line('    fn %s -> (r: String)'%nm, ';')
trait_line('    fn finalise(&mut self, urls: Vec<String>) -> (r: Vec<TaggedLine<Self::Annotation>>)', 'ensures r@.len() == urls@.len(); //@w @C08 #one_footnote_per_link')

# ---------- get_wrapping_or_insert
contract('get_wrapping_or_insert','''
    requires 1 <= width <= 0x1000_0000_0000_0000, tag_ok::<Vec<D::Annotation>>(),
        (*old(wrapping)) matches Some(w) ==> w.inv(),
    ensures
        *final(wrapping) == Some(*final(r)),
        // an existing block is returned untouched //@w
        (*old(wrapping)) matches Some(w) ==> *r == w, //@w @C15 @C03 #existing_block_untouched
        // a new block wraps at min(max_wrap_width, width) columns (C04/C15: no effect when max_wrap_width >= width) and copies the options //@w
        (*old(wrapping)) is None ==> r.width == wrap_width_spec(options.wrap_width, width), //@w @C02 @C04 @C15 #wrap_width_is_min
        (*old(wrapping)) is None ==> r.pad_blocks == options.pad_block_width && r.allow_overflow == options.allow_width_overflow, //@w @C15 @C11 #block_copies_options
        (*old(wrapping)) is None ==> r.inv() && r.text@.len() == 0 && r.line.v@.len() == 0 && r.word.v@.len() == 0 && r.wslen == 0 && r.wordlen == 0 && r.word.len == 0, //@w @C03 #new_block_empty
''')
open(path,'w').write(s)

s=open(path).read()
# ---------- new
contract('new','''
        requires 1 <= width <= 0x1000_0000_0000_0000,
        ensures
            r.sr_inv(), //@w @C02 #new_sr_inv
            r.width == width && r.options == options, //@w @C15 @C02 #new_copies_config
            r.ann_stack@.len() == 0 && r.ws_stack@.len() == 0 && r.pre_depth == 0 && r.text_filter_stack@.len() == 0, //@w @C09 #new_empty_stacks
            r.lines@.len() == 0 && r.wrapping.is_none() && r.pending_frags@.len() == 0 && !r.at_block_end, //@w @C03 #new_empty_output
            r.decorator == decorator, //@w
''')
after('new','html_trace!("new({})", width);','        proof { assert(lines_ok(Seq::<RenderLine<Vec<D::Annotation>>>::empty(), width, options.allow_width_overflow)); }')
# ---------- add_line
contract('add_line','''
        requires old(self).sr_inv(), tag_ok::<Vec<D::Annotation>>(),
            // C02 at this level: a line handed to a renderer fits the renderer's width //@w
            rl_ok(line, old(self).width, old(self).options.allow_width_overflow), //@w @C02 @C11 #added_line_fits
            line matches RenderLine::Text(t) ==> t.len <= 0x4000_0000_0000_0000,
        ensures
            final(self).sr_inv(), //@w @C02 #add_line_inv
            final(self).same_stacks(old(self)) && final(self).same_config(old(self)) && final(self).wrapping == old(self).wrapping && final(self).at_block_end == old(self).at_block_end && final(self).decorator == old(self).decorator, //@w @C09 #add_line_frame
            final(self).lines@.len() == old(self).lines@.len() + 1 && final(self).lines@.drop_last() == old(self).lines@, //@w @C03 #add_line_appends_one
            // pending fragment markers are prepended to the next TEXT line, exactly once (C14) … //@w
            old(self).pending_frags@.len() > 0 && line is Text ==> final(self).pending_frags@.len() == 0 //@w[ @C14 #pending_markers_go_to_next_text_line
                && (final(self).lines@.last() matches RenderLine::Text(t2) && flat(t2.v@) =~= flat(old(self).pending_frags@) + flat(line->Text_0.v@) && t2.len == line->Text_0.len), //@w]
            // … and stay pending across border lines //@w
            line is Line ==> final(self).pending_frags@ == old(self).pending_frags@ && final(self).lines@.last() == line, //@w @C14 #border_keeps_markers_pending
            old(self).pending_frags@.len() == 0 ==> final(self).pending_frags@.len() == 0 && final(self).lines@.last() == line, //@w @C03 #line_added_verbatim
''')
after('add_line','let frags = vec_take(&mut self.pending_frags);','''                    proof { lemma_no_str_cwid(frags@); }
                    let ghost pf = frags@;''')
after('add_line','for frag in it: frags','''                        invariant //@w[
                            it.seq() == frags@, frags@ == pf, no_str(pf), all_some(pf), tag_ok::<Vec<D::Annotation>>(),
                            tl.wf(), tl.len == 0, flat(tl.v@) =~= flat(pf.take(it.index@)),
                        //@w]''')
after('add_line','tl.push(frag);','''                        proof { //@w[
                            let k = it.index@;
                            assert(pf.take(k + 1) =~= pf.take(k).push(pf[k]));
                            lemma_flat_push(pf.take(k), pf[k]);
                            assert(!(pf[k] is Str));
                        } //@w]''', before=True)
after('add_line','let parts = tagged_line.v;','''                    proof { assert(pf.take(pf.len() as int) =~= pf); }
                    let ghost tv = parts@;''')
after('add_line','for part in it2: parts','''                        invariant //@w[
                            it2.seq() == parts@, parts@ == tv, tag_ok::<Vec<D::Annotation>>(), cwid(tv) == tagged_line.len, tagged_line.len <= 0x4000_0000_0000_0000,
                            tl.wf(), tl.len == cwid(tv.take(it2.index@)), flat(tl.v@) =~= flat(pf) + flat(tv.take(it2.index@)),
                        //@w]''')
after('add_line','tl.push(part);','''                        proof { //@w[
                            let k = it2.index@;
                            assert(tv.take(k + 1) =~= tv.take(k).push(tv[k]));
                            lemma_flat_push(tv.take(k), tv[k]);
                            lemma_flat_concat(tv.take(k + 1), tv.skip(k + 1));
                            assert(tv.take(k + 1) + tv.skip(k + 1) =~= tv);
                        } //@w]''', before=True)
after('add_line','self.lines.push_back(RenderLine::Text(tl));','''                    proof { assert(tv.take(tv.len() as int) =~= tv); }''', before=True)
open(path,'w').write(s)

s=open(path).read()
FRAME='final(self).same_stacks(old(self)) && final(self).same_config(old(self)) && final(self).decorator == old(self).decorator'
# ---------- flush_wrapping
contract('flush_wrapping','''
        requires old(self).sr_inv(), tag_ok::<Vec<D::Annotation>>(),
        ensures
            final(self).sr_inv(), //@w @C02 #flush_wrapping_inv
            %s && final(self).at_block_end == old(self).at_block_end, //@w @C09 #flush_wrapping_frame
            r.is_ok() ==> final(self).wrapping.is_none(), //@w @C03 #block_closed
            old(self).wrapping.is_none() ==> r.is_ok() && final(self).lines@ == old(self).lines@ && final(self).pending_frags@ == old(self).pending_frags@, //@w @C03 #no_block_noop
            old(self).options.allow_width_overflow ==> r.is_ok(), //@w @C11 #flush_wrapping_overflow_ok
            final(self).lines@.len() >= old(self).lines@.len() && final(self).lines@.take(old(self).lines@.len() as int) =~= old(self).lines@, //@w @C03 #flush_wrapping_keeps_lines
            // markers recorded after the last word of the block are not lost: they become pending for the next text line (C14) //@w
            r.is_ok() && (old(self).wrapping matches Some(w) && no_str(w.word.v@)) ==> //@w[ @C14 #trailing_markers_become_pending
                final(self).pending_frags@.len() >= (old(self).wrapping->Some_0).word.v@.len()
                && final(self).pending_frags@.skip(final(self).pending_frags@.len() - (old(self).wrapping->Some_0).word.v@.len()) =~= (old(self).wrapping->Some_0).word.v@, //@w]
'''%FRAME)
after('flush_wrapping','let frags = w.take_trailing_fragments();','''            proof { //@w[
                assert forall|i: int| 0 <= i < frags@.len() implies elt_some(#[trigger] frags@[i]) by { assert(!(frags@[i] is Str)); }
            } //@w]
            let ghost w1 = w;''')
after('flush_wrapping','for l in it: ls','''                invariant //@w[
                    it.seq() == ls@, tag_ok::<Vec<D::Annotation>>(), self.sr_inv(), self.wrapping.is_none(),
                    self.same_stacks(old(self)) && self.same_config(old(self)) && self.decorator == old(self).decorator && self.at_block_end == old(self).at_block_end,
                    forall|i: int| 0 <= i < ls@.len() ==> (#[trigger] ls@[i]).wf() && fits(ls@[i], w1.width, w1.allow_overflow),
                    w1.width <= self.width && w1.allow_overflow == self.options.allow_width_overflow && self.width <= 0x1000_0000_0000_0000,
                    self.lines@.len() >= old(self).lines@.len() && self.lines@.take(old(self).lines@.len() as int) =~= old(self).lines@,
                //@w]''')
after('flush_wrapping','vec_extend(&mut self.pending_frags, frags);','''            proof { //@w[
                let p = self.pending_frags@;
                assert(p.skip(p.len() - frags@.len()) =~= frags@);
                assert(lines_ok(self.lines@, self.width, self.options.allow_width_overflow));
            } //@w]''')
# ---------- flush_all / add_empty_line / start_block
BLOCK_ENS='''
        requires old(self).sr_inv(), tag_ok::<Vec<D::Annotation>>(),
        ensures
            final(self).sr_inv(), //@w @C02
            %s, //@w @C09
            r.is_ok() ==> final(self).wrapping.is_none(), //@w @C03
            old(self).options.allow_width_overflow ==> r.is_ok(), //@w @C11
            final(self).lines@.len() >= old(self).lines@.len() && final(self).lines@.take(old(self).lines@.len() as int) =~= old(self).lines@, //@w @C03
'''%FRAME
contract('flush_all', BLOCK_ENS+'            final(self).at_block_end == old(self).at_block_end,\n')
contract('add_empty_line', BLOCK_ENS+'            r.is_ok() ==> !final(self).at_block_end && final(self).lines@.len() >= old(self).lines@.len() + 1, //@w @C12 #empty_line_added\n')
contract('start_block', BLOCK_ENS+'            r.is_ok() ==> !final(self).at_block_end,\n')
open(path,'w').write(s)

s=open(path).read()
contract('ws_mode','''
        ensures r == self.ws_mode_spec(), //@w @C13 @C12 #ws_mode_is_top_of_stack
''')
# ---------- add_inline_text
contract('add_inline_text','''
        requires old(self).sr_inv(), old(self).headroom(), short(text@), tag_ok::<Vec<D::Annotation>>(),
        ensures
            r.is_ok() ==> final(self).sr_inv(), //@w @C02 #inline_text_inv
            // inline text never touches the annotation / white-space / filter stacks or the configuration (C09) //@w
            %s, //@w @C09 #inline_text_keeps_stacks
            old(self).options.allow_width_overflow ==> r.is_ok(), //@w @C11 #inline_text_overflow_ok
            // white space between blocks is ignored in collapsing modes (C13) //@w
            !old(self).ws_mode_spec().preserve_spec() && old(self).at_block_end && all_ws(text@) ==> r.is_ok() && *final(self) == *old(self), //@w @C13 #interblock_whitespace_ignored
            final(self).lines@.len() >= old(self).lines@.len() && final(self).lines@.take(old(self).lines@.len() as int) =~= old(self).lines@, //@w @C03 #inline_text_keeps_lines
'''%FRAME)
after('add_inline_text','for filter in it: &self.text_filter_stack','''            invariant //@w[
                self.sr_inv(), self.same_stacks(old(self)) && self.same_config(old(self)) && self.decorator == old(self).decorator,
                self.wrapping.is_none() || self.headroom(),
                self.lines@.len() >= old(self).lines@.len() && self.lines@.take(old(self).lines@.len() as int) =~= old(self).lines@,
            //@w]''')
after('add_inline_text','let filtered_text = opt_as_deref_or(&s, text);','''        proof { assume_filtered_short(filtered_text@); } //@w''')
after('add_inline_text','let wrapping = get_wrapping_or_insert::<D>(&mut self.wrapping, &self.options, self.width);','''        // tagging rule (C09, C12): text is tagged with the current annotation stack; inside <pre> the first piece of a line gets //@w
        // the stack + preformat-first, continuation pieces the stack + preformat-continuation //@w
        let ghost stack0 = self.ann_stack@;''')
after('add_inline_text','wrapping.add_text(filtered_text, ws_mode, main_tag, cont_tag)?;','''        assert(self.pre_depth == 0 ==> main_tag@ == stack0 && cont_tag@ == stack0); //@w @C09 #text_tagged_with_stack
        assert(self.pre_depth > 0 ==> main_tag@.drop_last() == stack0 && cont_tag@.drop_last() == stack0 && main_tag@.len() == stack0.len() + 1 && cont_tag@.len() == stack0.len() + 1); //@w @C09 @C12 #pre_text_tagged_with_stack_plus_preformat
        assert(ws_mode == old(self).ws_mode_spec()); //@w @C12 @C13 #text_added_in_current_ws_mode''', before=True)
if "assume_filtered_short" not in s: s=s.replace("// A5: decorator strings and text nodes","""// A5: the result of a text filter (at most one combining mark per character) is still short
#[verifier::external_body]
proof fn assume_filtered_short(s: Seq<char>) ensures short(s) {}
// A5: decorator strings and text nodes""")
open(path,'w').write(s)

s=open(path).read()
# ---------- start_X / end_X pairs (C09): start pushes exactly one annotation (before adding the prefix), end pops it (after the suffix)
START='''
        requires old(self).sr_inv(), old(self).headroom(), tag_ok::<Vec<D::Annotation>>(), %s
        ensures
            r.is_ok() ==> final(self).sr_inv(), //@w @C02
            // exactly one annotation is pushed on an otherwise unchanged stack (C09) //@w
            final(self).ann_stack@.len() == old(self).ann_stack@.len() + 1 && final(self).ann_stack@.drop_last() == old(self).ann_stack@, //@w @C09 #start_pushes_one_annotation
            final(self).ws_stack@ == old(self).ws_stack@ && final(self).pre_depth == old(self).pre_depth && final(self).same_config(old(self)), //@w @C09 #start_keeps_other_stacks
            %s
            old(self).options.allow_width_overflow ==> r.is_ok(), //@w @C11
'''
END='''
        requires old(self).sr_inv(), old(self).headroom(), tag_ok::<Vec<D::Annotation>>(),
            old(self).ann_stack@.len() > 0, //@w #paired_with_start
            %s
        ensures
            r.is_ok() ==> final(self).sr_inv(), //@w @C02
            // the annotation pushed by the matching start is popped, nothing else (C09: no annotation leaks past its element) //@w
            r.is_ok() ==> final(self).ann_stack@ == old(self).ann_stack@.drop_last(), //@w @C09 #end_pops_one_annotation
            final(self).ws_stack@ == old(self).ws_stack@ && final(self).pre_depth == old(self).pre_depth && final(self).same_config(old(self)), //@w @C09 #end_keeps_other_stacks
            %s
            old(self).options.allow_width_overflow ==> r.is_ok(), //@w @C11
'''
SAMEF='final(self).text_filter_stack@ == old(self).text_filter_stack@, //@w @C15 #filters_unchanged'
for n in ['start_link','start_emphasis','start_strong','start_code','start_superscript']:
    contract(n, START%('', SAMEF))
for n in ['end_link','end_emphasis','end_strong','end_code','end_superscript']:
    contract(n, END%('', SAMEF))
contract('add_image','''
        requires old(self).sr_inv(), old(self).headroom(), tag_ok::<Vec<D::Annotation>>(),
        ensures
            r.is_ok() ==> final(self).sr_inv(), //@w @C02
            // the image annotation covers exactly the image text: the stack is back to what it was (C09) //@w
            r.is_ok() ==> final(self).same_stacks(old(self)), //@w @C09 #image_annotation_scoped
            final(self).same_config(old(self)), //@w @C15
            old(self).options.allow_width_overflow ==> r.is_ok(), //@w @C11
''')
contract('start_strikeout', START%('', '''// the strike-through filter is active exactly when the option is on (C15)
            r.is_ok() && old(self).options.use_unicode_strikeout ==> final(self).text_filter_stack@.len() == old(self).text_filter_stack@.len() + 1 && final(self).text_filter_stack@.drop_last() == old(self).text_filter_stack@ && final(self).text_filter_stack@.last().is_strikeout(), //@w @C15 #strikeout_filter_pushed
            !old(self).options.use_unicode_strikeout ==> final(self).text_filter_stack@ == old(self).text_filter_stack@, //@w @C15 #no_filter_without_option'''))
contract('end_strikeout', END%('old(self).options.use_unicode_strikeout ==> old(self).text_filter_stack@.len() > 0, //@w #paired_with_start_strikeout', '''r.is_ok() && old(self).options.use_unicode_strikeout ==> final(self).text_filter_stack@ == old(self).text_filter_stack@.drop_last(), //@w @C15 #strikeout_filter_popped
            !old(self).options.use_unicode_strikeout ==> final(self).text_filter_stack@ == old(self).text_filter_stack@, //@w @C15'''))
# ---------- new_sub_renderer
contract('new_sub_renderer','''
        requires 1 <= width <= 0x1000_0000_0000_0000, tag_ok::<Vec<D::Annotation>>(),
        ensures
            r.is_ok(), //@w @C11
            // a sub-renderer starts with a COPY of the annotation stack (C09: annotations reach into nested blocks) //@w
            r matches Ok(s) ==> s.ann_stack@ == self.ann_stack@, //@w @C09 #sub_renderer_inherits_annotations
            r matches Ok(s) ==> s.options == self.options && s.width == width, //@w @C15 @C02 #sub_renderer_inherits_options
            r matches Ok(s) ==> s.sr_inv() && s.lines@.len() == 0 && s.wrapping.is_none() && s.pending_frags@.len() == 0, //@w @C03 #sub_renderer_starts_empty
''')
# ---------- record_frag_start
contract('record_frag_start','''
        requires old(self).sr_inv(), tag_ok::<Vec<D::Annotation>>(),
        ensures
            final(self).sr_inv(), //@w @C02 #marker_keeps_inv
            final(self).same_stacks(old(self)) && final(self).same_config(old(self)) && final(self).lines@ == old(self).lines@ && final(self).pending_frags@ == old(self).pending_frags@, //@w @C14 #marker_frame
            // the marker is appended to the current word of the (possibly new) block: zero width, before any later text (C14) //@w
            final(self).wrapping matches Some(w2) && flat(w2.word.v@) =~= flat((match old(self).wrapping { Some(w) => w.word.v@, None => Seq::empty() })).push(CItem::Frag(fragname@)), //@w @C14 #marker_recorded_once
            old(self).wrapping.is_none() ==> (final(self).wrapping->Some_0).width == wrap_width_spec(old(self).options.wrap_width, old(self).width), //@w @C15 #marker_block_wrap_width
''')
after('record_frag_start','use self::TaggedLineElement::FragmentStart;','''        proof { lemma_flat_empty::<Vec<D::Annotation>>(); }''')
# ---------- finalise
contract('finalise','''
        ensures
            // footnote list only when enabled (C08, C15) //@w
            !old(self).options.include_link_footnotes ==> r@.len() == 0, //@w @C08 @C15 #no_footnotes_when_disabled
            old(self).options.include_link_footnotes ==> r@.len() == links@.len(), //@w @C08 #one_footnote_line_per_link
''')
# ---------- colours
for n,m in [('push_colour','colour'),('push_bgcolour','colour')]:
    contract(n,'''
        ensures
            (final(self).ann_stack@ == old(self).ann_stack@) || (final(self).ann_stack@.len() == old(self).ann_stack@.len() + 1 && final(self).ann_stack@.drop_last() == old(self).ann_stack@), //@w @C09 @C19 #colour_pushes_at_most_one
            final(self).ws_stack@ == old(self).ws_stack@ && final(self).pre_depth == old(self).pre_depth && final(self).text_filter_stack@ == old(self).text_filter_stack@ && final(self).same_config(old(self)) && final(self).wrapping == old(self).wrapping && final(self).lines@ == old(self).lines@ && final(self).pending_frags@ == old(self).pending_frags@, //@w @C09
''')
for n in ['pop_colour','pop_bgcolour']:
    contract(n,'''
        ensures
            (final(self).ann_stack@ == old(self).ann_stack@) || (old(self).ann_stack@.len() > 0 && final(self).ann_stack@ == old(self).ann_stack@.drop_last()), //@w @C09 @C19 #colour_pops_at_most_one
            final(self).ws_stack@ == old(self).ws_stack@ && final(self).pre_depth == old(self).pre_depth && final(self).text_filter_stack@ == old(self).text_filter_stack@ && final(self).same_config(old(self)) && final(self).wrapping == old(self).wrapping && final(self).lines@ == old(self).lines@ && final(self).pending_frags@ == old(self).pending_frags@, //@w @C09
''')
REST='final(self).ann_stack@ == old(self).ann_stack@ && final(self).text_filter_stack@ == old(self).text_filter_stack@ && final(self).same_config(old(self)) && final(self).wrapping == old(self).wrapping && final(self).lines@ == old(self).lines@ && final(self).pending_frags@ == old(self).pending_frags@ && final(self).at_block_end == old(self).at_block_end'
contract('push_ws','''
        ensures final(self).ws_stack@ == old(self).ws_stack@.push(ws) && final(self).pre_depth == old(self).pre_depth && %s, //@w @C12 #push_ws
'''%REST)
contract('pop_ws','''
        ensures (old(self).ws_stack@.len() > 0 ==> final(self).ws_stack@ == old(self).ws_stack@.drop_last()) && (old(self).ws_stack@.len() == 0 ==> final(self).ws_stack@.len() == 0) && final(self).pre_depth == old(self).pre_depth && %s, //@w @C12 #pop_ws
'''%REST)
contract('push_preformat','''
        requires old(self).pre_depth < usize::MAX,
        ensures final(self).pre_depth == old(self).pre_depth + 1 && final(self).ws_stack@ == old(self).ws_stack@ && %s, //@w @C12 #push_preformat
'''%REST)
contract('pop_preformat','''
        requires old(self).pre_depth > 0, //@w @C01 #pop_preformat_paired
        ensures final(self).pre_depth == old(self).pre_depth - 1 && final(self).ws_stack@ == old(self).ws_stack@ && %s, //@w @C12 #pop_preformat
'''%REST)
contract('end_block','''
        ensures final(self).at_block_end && final(self).ws_stack@ == old(self).ws_stack@ && final(self).pre_depth == old(self).pre_depth && final(self).ann_stack@ == old(self).ann_stack@ && final(self).text_filter_stack@ == old(self).text_filter_stack@ && final(self).same_config(old(self)) && final(self).wrapping == old(self).wrapping && final(self).lines@ == old(self).lines@ && final(self).pending_frags@ == old(self).pending_frags@, //@w @C13 #end_block
''')
if True: s=s.replace("// ---- specs (ours) ----","// ---- specs (ours) ----\nproof fn lemma_flat_empty<T>() ensures flat(Seq::<TaggedLineElement<T>>::empty()) =~= Seq::<CItem<T>>::empty() {}")
open(path,'w').write(s)

s=open(path).read()
after('add_image','self.ann_stack.pop();','        proof { assert(self.ann_stack@ =~= old(self).ann_stack@); }')
open(path,'w').write(s)
