//@unit TE — text engine: TaggedString, TaggedLineElement, TaggedLine, WrappedBlock
// Real items are re-extracted from src/render/text_renderer.rs on every run; lines marked //@w are ours.
// Trusted prelude (A2, A3): unicode_width as cw/sw; str::repeat; byte-offset model of String slicing (R11).

use vstd::prelude::*;
use std::fmt::Debug;
use std::mem;
macro_rules! html_trace { ($($t:tt)*) => {} }
macro_rules! html_trace_quiet { ($($t:tt)*) => {} }
verus! {
//@export-begin
global size_of usize == 8;

use vstd::std_specs::cmp::{PartialEqSpec, PartialEqSpecImpl};
pub struct TooNarrow;
pub type Result<T> = std::result::Result<T, TooNarrow>;

//@item src/lib.rs :: enum WhiteSpace
#[derive(Debug, Copy, Clone, Default, PartialEq, Eq)] //@w
enum WhiteSpace {
    #[default]
    Normal,
    // NoWrap,
    Pre,
    #[allow(unused)]
    PreWrap,
    // PreLine,
    // BreakSpaces,
}
//@end

// trusted (A3): #[derive(PartialEq)] on a field-less enum is structural equality
impl PartialEqSpecImpl for WhiteSpace {
    open spec fn obeys_eq_spec() -> bool { true }
    open spec fn eq_spec(&self, other: &Self) -> bool { *self == *other }
}
impl WhiteSpace {
    spec fn preserve_spec(&self) -> bool { match self { WhiteSpace::Normal => false, WhiteSpace::Pre | WhiteSpace::PreWrap => true } }
    spec fn do_wrap_spec(&self) -> bool { match self { WhiteSpace::Normal | WhiteSpace::PreWrap => true, WhiteSpace::Pre => false } }

//@item src/lib.rs :: impl WhiteSpace :: fn preserve_whitespace
//@sub /-> bool/ ==> -> (r: bool)
    fn preserve_whitespace(&self) -> (r: bool)
        ensures r == self.preserve_spec(), //@w @C12 @C13 #ws_preserve
    {
        match self {
            WhiteSpace::Normal => false,
            WhiteSpace::Pre | WhiteSpace::PreWrap => true,
        }
    }
//@end

//@item src/lib.rs :: impl WhiteSpace :: fn do_wrap
//@sub /-> bool/ ==> -> (r: bool)
    fn do_wrap(&self) -> (r: bool)
        ensures r == self.do_wrap_spec(), //@w @C12 @C04 #ws_do_wrap
    {
        match self {
            WhiteSpace::Normal | WhiteSpace::PreWrap => true,
            WhiteSpace::Pre => false,
        }
    }
//@end

}

pub uninterp spec fn cw(c: char) -> Option<usize>;
pub open spec fn sw(s: Seq<char>) -> nat decreases s.len() { if s.len() == 0 { 0 } else { sw(s.drop_last()) + (match cw(s.last()) { Some(w) => w as nat, None => 0 }) } }
pub struct UnicodeWidthChar;
impl UnicodeWidthChar {
    #[verifier::external_body]
    pub fn width(c: char) -> (r: Option<usize>) ensures r == cw(c), r matches Some(w) ==> w <= 2 { unimplemented!() }
}
pub struct UnicodeWidthStr;
impl UnicodeWidthStr {
    #[verifier::external_body]
    pub fn width(s: &str) -> (r: usize) ensures r == sw(s@) { unimplemented!() }
}
pub trait StrWidth { fn width(&self) -> usize; }
impl StrWidth for String {
    #[verifier::external_body]
    fn width(&self) -> (r: usize) ensures r == sw(self@) { unimplemented!() }
}
pub assume_specification [ str::repeat ] (s: &str, n: usize) -> (r: String)
    ensures r@.len() == s@.len() * n, forall|i: int| 0 <= i < r@.len() ==> r@[i] == s@[i % (s@.len() as int)];
pub open spec fn l8(c: char) -> nat { (choose|n: usize| call_ensures(char::len_utf8, (c,), n)) as nat }
#[verifier::external_body]
pub proof fn axiom_l8(c: char) ensures 1 <= l8(c) <= 4 {}
pub open spec fn off(s: Seq<char>, k: int) -> nat decreases k { if k <= 0 { 0 } else { off(s, k - 1) + l8(s[k - 1]) } }
pub open spec fn is_boundary(s: Seq<char>, a: int) -> bool { exists|k: int| 0 <= k <= s.len() && #[trigger] off(s, k) == a }
pub open spec fn cidx(s: Seq<char>, a: int) -> int { choose|k: int| 0 <= k <= s.len() && #[trigger] off(s, k) == a }
pub proof fn lemma_off_mono(s: Seq<char>, i: int, j: int)
    requires 0 <= i <= j <= s.len(),
    ensures off(s, i) + (j - i) <= off(s, j),
    decreases j - i
{ if i < j { axiom_l8(s[j - 1]); lemma_off_mono(s, i, j - 1); } }
pub proof fn lemma_cidx(s: Seq<char>, k: int)
    requires 0 <= k <= s.len(),
    ensures is_boundary(s, off(s, k) as int), cidx(s, off(s, k) as int) == k,
{
    let c = cidx(s, off(s, k) as int);
    if c < k { lemma_off_mono(s, c, k); } else if c > k { lemma_off_mono(s, k, c); }
}
pub proof fn lemma_off_skip(s: Seq<char>, c: int, k: int)
    requires 0 <= c <= s.len(), 0 <= k <= s.len() - c,
    ensures off(s.skip(c), k) + off(s, c) == off(s, c + k),
    decreases k
{ if k > 0 { lemma_off_skip(s, c, k - 1); } }
pub proof fn lemma_sw_take_succ(s: Seq<char>, k: int)
    requires 0 <= k < s.len(),
    ensures sw(s.take(k + 1)) == sw(s.take(k)) + (match cw(s[k]) { Some(w) => w as nat, None => 0 }),
{ assert(s.take(k + 1).drop_last() =~= s.take(k)); }
pub proof fn lemma_sw_concat(a: Seq<char>, b: Seq<char>)
    ensures sw(a + b) == sw(a) + sw(b),
    decreases b.len()
{
    if b.len() == 0 { assert(a + b =~= a); } else {
        assert((a + b).drop_last() =~= a + b.drop_last());
        lemma_sw_concat(a, b.drop_last());
    }
}
#[verifier::external_body]
pub proof fn axiom_string_len_bound(s: Seq<char>) ensures off(s, s.len() as int) <= usize::MAX {}
pub proof fn lemma_off_base(s: Seq<char>)
    ensures off(s, 0) == 0, s.len() > 0 ==> off(s, 1) == l8(s[0]), sw(Seq::<char>::empty()) == 0,
{ if s.len() > 0 { assert(off(s, 1) == off(s, 0) + l8(s[0])); } }
pub proof fn lemma_split(chars: Seq<char>, cpos: int, kb: int, tail: Seq<char>)
    requires 0 <= cpos <= chars.len(), tail == chars.skip(cpos), 0 <= kb <= tail.len(),
    ensures
        is_boundary(chars, off(chars, cpos) as int), is_boundary(chars, (off(chars, cpos) + off(tail, kb)) as int),
        cidx(chars, off(chars, cpos) as int) == cpos, cidx(chars, (off(chars, cpos) + off(tail, kb)) as int) == cpos + kb,
        off(chars, cpos + kb) == off(chars, cpos) + off(tail, kb),
        off(chars, cpos + kb) <= off(chars, chars.len() as int),
        chars.subrange(cpos, cpos + kb) == tail.take(kb),
        chars.skip(cpos + kb) == tail.skip(kb),
        sw(chars.take(cpos + kb)) == sw(chars.take(cpos)) + sw(tail.take(kb)),
        sw(chars) == sw(chars.take(cpos + kb)) + sw(chars.skip(cpos + kb)),
{
    lemma_off_skip(chars, cpos, kb);
    lemma_cidx(chars, cpos + kb);
    lemma_cidx(chars, cpos);
    lemma_off_mono(chars, cpos + kb, chars.len() as int);
    assert(chars.subrange(cpos, cpos + kb) =~= tail.take(kb));
    assert(chars.skip(cpos + kb) =~= tail.skip(kb));
    assert(chars.take(cpos) + tail.take(kb) =~= chars.take(cpos + kb));
    lemma_sw_concat(chars.take(cpos), tail.take(kb));
    lemma_sw_concat(chars.take(cpos + kb), chars.skip(cpos + kb));
    assert(chars.take(cpos + kb) + chars.skip(cpos + kb) =~= chars);
}
// std semantics of byte-indexed String slicing and char_indices over the offset model (R11)
#[verifier::external_body]
pub fn str_range(s: &String, a: usize, b: usize) -> (r: String)
    requires is_boundary(s@, a as int), is_boundary(s@, b as int), a <= b,
    ensures r@ == s@.subrange(cidx(s@, a as int), cidx(s@, b as int)),
{ s[a..b].into() }
#[verifier::external_body]
pub fn str_from(s: &String, a: usize) -> (r: String)
    requires is_boundary(s@, a as int),
    ensures r@ == s@.skip(cidx(s@, a as int)),
{ s[a..].into() }
#[verifier::external_body]
pub fn char_indices_vec(s: &String) -> (r: Vec<(usize, char)>)
    ensures r@.len() == s@.len(), forall|j: int| 0 <= j < s@.len() ==> (#[trigger] r@[j]).0 == off(s@, j) && r@[j].1 == s@[j],
{ s.char_indices().collect() }
pub assume_specification [ String::len ] (s: &String) -> (r: usize) ensures r == off(s@, s@.len() as int);

#[verifier::external_body]
pub proof fn axiom_cw_space() ensures cw(' ') == Some(1usize) {}
pub proof fn lemma_sw_spaces(s: Seq<char>)
    requires forall|i: int| 0 <= i < s.len() ==> s[i] == ' ',
    ensures sw(s) == s.len(),
    decreases s.len()
{
    axiom_cw_space();
    if s.len() > 0 { lemma_sw_spaces(s.drop_last()); }
}

//@item src/render/text_renderer.rs :: struct TaggedString
#[derive(Debug, Clone, PartialEq)] //@w
struct TaggedString<T> {
    /// The wrapped text.
    s: String,

    /// The metadata.
    tag: T,
}
//@end
impl<T: Debug + PartialEq> TaggedString<T> {
//@item src/render/text_renderer.rs :: impl TaggedString :: fn width
//@sub /-> usize/ ==> -> (r: usize)
    fn width(&self) -> (r: usize)
        ensures r == sw(self.s@), //@w @C02 #ts_width
    {
        self.s.width()
    }
//@end
}
//@item src/render/text_renderer.rs :: enum TaggedLineElement
#[derive(Clone, Debug, PartialEq)] //@w
enum TaggedLineElement<T> {
    /// A string with tag information attached.
    Str(TaggedString<T>),

    /// A zero-width marker indicating the start of a named HTML fragment.
    FragmentStart(String),
}
//@end
impl<T> TaggedLineElement<T> {
//@item src/render/text_renderer.rs :: impl TaggedLineElement :: fn has_content
//@sub /-> bool/ ==> -> (r: bool)
    fn has_content(&self) -> (r: bool)
        ensures r == (self is Str), //@w @C14 #has_content
    {
        match self {
            TaggedLineElement::Str(_) => true,
            TaggedLineElement::FragmentStart(_) => false,
        }
    }
//@end
}
//@item src/render/text_renderer.rs :: struct TaggedLine
#[derive(Debug, Clone, PartialEq)] //@w
struct TaggedLine<T> {
    v: Vec<TaggedLineElement<T>>,
    len: usize,
}
//@end

// std semantics (A3): Vec::drain(..) collected, mem::take on a Vec, String::insert_str at 0
#[verifier::external_body]
fn vec_drain_all<E>(v: &mut Vec<E>) -> (r: Vec<E>)
    ensures r@ == old(v)@, final(v)@.len() == 0,
{ v.drain(..).collect() }
#[verifier::external_body]
fn vec_take<E>(v: &mut Vec<E>) -> (r: Vec<E>)
    ensures r@ == old(v)@, final(v)@.len() == 0,
{ std::mem::take(v) }
pub assume_specification [ String::insert_str ] (s: &mut String, idx: usize, t: &str)
    requires idx == 0,
    ensures final(s)@ == t@ + old(s)@;
// `std::mem::take(&mut tl).v` on a TaggedLine: Default is TaggedLine::new() (src/render/text_renderer.rs:146-150)
#[verifier::external_body]
fn tl_take_items<T>(tl: &mut TaggedLine<T>) -> (r: Vec<TaggedLineElement<T>>)
    ensures r@ == old(tl).v@, final(tl).v@.len() == 0, final(tl).len == 0,
{ unimplemented!() }
// ---- abstract views (ours) ----
pub enum CItem<T> { Ch(char, T), Frag(Seq<char>) }
spec fn cwn(c: char) -> nat { match cw(c) { Some(w) => w as nat, None => 0 } }
spec fn flat_str<T>(s: Seq<char>, tag: T) -> Seq<CItem<T>> { Seq::new(s.len(), |i: int| CItem::Ch(s[i], tag)) }
spec fn flat_elt<T>(e: TaggedLineElement<T>) -> Seq<CItem<T>> { match e { TaggedLineElement::Str(ts) => flat_str(ts.s@, ts.tag), TaggedLineElement::FragmentStart(n) => seq![CItem::Frag(n@)] } }
spec fn flat<T>(v: Seq<TaggedLineElement<T>>) -> Seq<CItem<T>> decreases v.len() { if v.len() == 0 { Seq::empty() } else { flat(v.drop_last()) + flat_elt(v.last()) } }
// collapse rule of normal flow, from the property (C04/C13): a run of collapsible whitespace leaves exactly one pending
// space, and only when the line already has text (no line begins with a space)
spec fn collapse_ws(line_len: usize, wslen: usize) -> usize { if line_len > 0 && wslen == 0 { 1 } else { wslen } }
proof fn lemma_collapse_idempotent(line_len: usize, wslen: usize) //@w @C13 #collapse_runs_equal_one_space
    ensures collapse_ws(line_len, collapse_ws(line_len, wslen)) == collapse_ws(line_len, wslen), wslen <= 1 ==> collapse_ws(line_len, wslen) <= 1,
{}
spec fn padn(width: usize, len: usize) -> nat { if width > len { (width - len) as nat } else { 0 } }
spec fn spaces(n: nat) -> Seq<char> { Seq::new(n, |i: int| ' ') }
spec fn str_some(s: Seq<char>) -> bool { forall|k: int| 0 <= k < s.len() ==> cw(#[trigger] s[k]).is_some() }
spec fn no_str<T>(v: Seq<TaggedLineElement<T>>) -> bool { forall|i: int| 0 <= i < v.len() ==> !(#[trigger] v[i] is Str) }
spec fn ew<T>(e: TaggedLineElement<T>) -> nat { match e { TaggedLineElement::Str(ts) => sw(ts.s@), TaggedLineElement::FragmentStart(_) => 0 } }
spec fn elt_some<T>(e: TaggedLineElement<T>) -> bool { match e { TaggedLineElement::Str(ts) => str_some(ts.s@), TaggedLineElement::FragmentStart(_) => true } }
spec fn all_some<T>(v: Seq<TaggedLineElement<T>>) -> bool { forall|i: int| 0 <= i < v.len() ==> elt_some(#[trigger] v[i]) }
spec fn cwid<T>(v: Seq<TaggedLineElement<T>>) -> nat decreases v.len() { if v.len() == 0 { 0 } else { cwid(v.drop_last()) + ew(v.last()) } }
// boundary assumption A6: the tag type's == and clone are structural (true for Vec<RichAnnotation>, Vec<()>)
pub open spec fn tag_ok<T: PartialEq + Clone>() -> bool {
    &&& T::obeys_eq_spec()
    &&& forall|a: T, b: T| #[trigger] a.eq_spec(&b) == (a == b)
    &&& forall|a: &T, b: T| #[trigger] call_ensures(T::clone, (a,), b) ==> *a == b
}
proof fn lemma_cwid_ge<T>(v: Seq<TaggedLineElement<T>>, i: int)
    requires 0 <= i < v.len(),
    ensures ew(v[i]) <= cwid(v),
    decreases v.len()
{ if i < v.len() - 1 { lemma_cwid_ge(v.drop_last(), i); } }
proof fn lemma_sw_one(c: char) ensures sw(seq![c]) == cwn(c), str_some(seq![c]) == cw(c).is_some() { assert(seq![c].drop_last() =~= Seq::<char>::empty()); assert(seq![c].last() == c); assert(sw(seq![c]) == sw(seq![c].drop_last()) + cwn(seq![c].last())); }
proof fn lemma_flat_one<T>(e: TaggedLineElement<T>) ensures flat(seq![e]) =~= flat_elt(e), cwid(seq![e]) == ew(e) { assert(seq![e].drop_last() =~= Seq::<TaggedLineElement<T>>::empty()); assert(seq![e].last() == e); assert(flat(seq![e]) =~= flat(seq![e].drop_last()) + flat_elt(e)); assert(cwid(seq![e]) == cwid(seq![e].drop_last()) + ew(seq![e].last())); }
proof fn lemma_front<T>(a: Seq<TaggedLineElement<T>>, b: Seq<TaggedLineElement<T>>)
    requires a.len() > 0, b.len() == a.len(), b.skip(1) =~= a.skip(1),
    ensures flat(a) =~= flat_elt(a[0]) + flat(a.skip(1)), flat(b) =~= flat_elt(b[0]) + flat(b.skip(1)),
            cwid(a) == ew(a[0]) + cwid(a.skip(1)), cwid(b) == ew(b[0]) + cwid(b.skip(1)),
{
    lemma_flat_concat(seq![a[0]], a.skip(1)); assert(seq![a[0]] + a.skip(1) =~= a); lemma_flat_one(a[0]);
    lemma_flat_concat(seq![b[0]], b.skip(1)); assert(seq![b[0]] + b.skip(1) =~= b); lemma_flat_one(b[0]);
}
proof fn lemma_sw_empty() ensures sw(Seq::<char>::empty()) == 0 {}
proof fn lemma_flat_str_empty<T>(tag: T) ensures flat_str(Seq::<char>::empty(), tag) =~= Seq::<CItem<T>>::empty() {}
proof fn lemma_flat_str_concat<T>(a: Seq<char>, b: Seq<char>, tag: T) ensures flat_str(a + b, tag) =~= flat_str(a, tag) + flat_str(b, tag) {}
proof fn lemma_spaces(n: nat) ensures sw(spaces(n)) == n, str_some(spaces(n)), spaces(n).len() == n { lemma_sw_spaces(spaces(n)); axiom_cw_space(); }
proof fn lemma_no_str_cwid<T>(v: Seq<TaggedLineElement<T>>)
    requires no_str(v),
    ensures cwid(v) == 0,
    decreases v.len()
{ if v.len() > 0 { lemma_no_str_cwid(v.drop_last()); } }
proof fn lemma_flat_push<T>(v: Seq<TaggedLineElement<T>>, e: TaggedLineElement<T>)
    ensures flat(v.push(e)) =~= flat(v) + flat_elt(e), cwid(v.push(e)) == cwid(v) + ew(e), all_some(v) && elt_some(e) ==> all_some(v.push(e)),
{ assert(v.push(e).drop_last() =~= v); }
proof fn lemma_flat_concat<T>(a: Seq<TaggedLineElement<T>>, b: Seq<TaggedLineElement<T>>)
    ensures flat(a + b) =~= flat(a) + flat(b), cwid(a + b) == cwid(a) + cwid(b),
    decreases b.len()
{
    if b.len() == 0 { assert(a + b =~= a); } else {
        assert((a + b).drop_last() =~= a + b.drop_last());
        lemma_flat_concat(a, b.drop_last());
    }
}
impl<T> TaggedLine<T> {
    spec fn wf(&self) -> bool { self.len == cwid(self.v@) }
}
// R7: `.tagged_strings().map(TaggedString::width).sum()` — std iterator semantics (A3)
#[verifier::external_body]
fn tagged_width_sum<T>(v: &Vec<TaggedLineElement<T>>) -> (r: usize)
    ensures r == cwid(v@),
{ unimplemented!() }
impl<T: Debug + Eq + PartialEq + Clone + Default> TaggedLine<T> {
//@item src/render/text_renderer.rs :: impl TaggedLine :: fn new
//@sub /-> TaggedLine<T>/ ==> -> (r: TaggedLine<T>)
    fn new() -> (r: TaggedLine<T>)
        ensures r.wf(), r.len == 0, r.v@.len() == 0, //@w @C02 @C04 @C12 #tl_new
    {
        TaggedLine {
            v: Vec::new(),
            len: 0,
        }
    }
//@end
//@item src/render/text_renderer.rs :: impl TaggedLine :: fn from_string
//@sub /-> TaggedLine<T>/ ==> -> (r: TaggedLine<T>)
//@auto C01 C08
    fn from_string(s: String, tag: &T) -> (r: TaggedLine<T>)
        requires tag_ok::<T>(), //@w
        ensures //@w
            r.wf() && r.len == sw(s@), //@w @C02 @C04 @C12 #from_string_width
            flat(r.v@) =~= flat_str(s@, *tag), //@w @C08 @C03 #from_string_content
    {
        let len = UnicodeWidthStr::width(s.as_str());
        proof { //@w
            assert forall|v: Seq<TaggedLineElement<T>>| v.len() == 1 implies #[trigger] flat(v) =~= flat_elt(v[0]) by { assert(v =~= seq![v[0]]); lemma_flat_one(v[0]); } //@w
            assert forall|v: Seq<TaggedLineElement<T>>| v.len() == 1 implies #[trigger] cwid(v) == ew(v[0]) by { assert(v =~= seq![v[0]]); lemma_flat_one(v[0]); } //@w
        } //@w
        TaggedLine {
            v: vec![TaggedLineElement::Str(TaggedString {
                s,
                tag: tag.clone(),
            })],
            len,
        }
    }
//@end
//@item src/render/text_renderer.rs :: impl TaggedLine :: fn is_empty
//@sub /-> bool/ ==> -> (r: bool)
//@sub /for elt in &self\.v/ ==> for elt in it: &self.v
    fn is_empty(&self) -> (r: bool)
        ensures r == no_str(self.v@), //@w @C14 @C03 #tl_is_empty
    {
        for elt in it: &self.v
            invariant forall|j: int| 0 <= j < it.index@ ==> !(#[trigger] self.v@[j] is Str), //@w @C03 @C14 #is_empty_loop_invariant
        {
            if elt.has_content() {
                return false;
            }
        }
        true
    }
//@end
//@item src/render/text_renderer.rs :: impl TaggedLine :: fn push_str
    fn push_str(&mut self, ts: TaggedString<T>)
        requires old(self).len + sw(ts.s@) <= usize::MAX, tag_ok::<T>(), //@w
        ensures //@w
            cwid(final(self).v@) == cwid(old(self).v@) + sw(ts.s@), //@w @C02 @C04 @C12 #push_str_cwid
            old(self).wf() ==> final(self).wf(), //@w @C02 @C04 @C12 #push_str_wf
            final(self).len == old(self).len + sw(ts.s@), //@w @C02 @C04 @C12 #push_str_len
            flat(final(self).v@) =~= flat(old(self).v@) + flat_str(ts.s@, ts.tag), //@w @C03 @C04 @C09 @C14 #push_str_flat
            all_some(old(self).v@) && str_some(ts.s@) ==> all_some(final(self).v@), //@w @C01 #push_str_some
            final(self).v@.len() >= old(self).v@.len(), //@w
    {
        use self::TaggedLineElement::Str;
        proof { lemma_flat_str_empty(ts.tag); lemma_sw_empty(); } //@w

        if !ts.s.is_empty() {
            self.len += UnicodeWidthStr::width(ts.s.as_str());
            if let Some(Str(ts_prev)) = self.v.last_mut() {
                if ts_prev.tag == ts.tag {
                    proof { //@w
                        let p = old(self).v@.last()->Str_0; //@w
                        lemma_sw_concat(p.s@, ts.s@); //@w
                        lemma_flat_str_concat(p.s@, ts.s@, ts.tag); //@w
                    } //@w
                    ts_prev.s.push_str(&ts.s);
                    proof { //@w
                        let p = old(self).v@.last()->Str_0; //@w
                        let q = self.v@.last()->Str_0; //@w
                        assert(self.v@.drop_last() =~= old(self).v@.drop_last()); //@w
                        assert(q.s@ =~= p.s@ + ts.s@); //@w
                        assert(elt_some(self.v@.last()) <== elt_some(old(self).v@.last()) && str_some(ts.s@)); //@w
                    } //@w
                    return;
                }
            }
            self.v.push(Str(ts));
            proof { assert(self.v@.drop_last() =~= old(self).v@); } //@w
        }
    }
//@end

//@item src/render/text_renderer.rs :: impl TaggedLine :: fn push
    fn push(&mut self, tle: TaggedLineElement<T>)
        requires old(self).len + ew(tle) <= usize::MAX, tag_ok::<T>(), //@w
        ensures //@w
            cwid(final(self).v@) == cwid(old(self).v@) + ew(tle), //@w @C02 @C04 @C12 #push_cwid
            old(self).wf() ==> final(self).wf(), //@w @C02 @C04 @C12 #push_wf
            final(self).len == old(self).len + ew(tle), //@w @C02 @C04 @C12 @C14 #push_len
            flat(final(self).v@) =~= flat(old(self).v@) + flat_elt(tle), //@w @C03 @C04 @C09 @C14 #push_flat
            all_some(old(self).v@) && elt_some(tle) ==> all_some(final(self).v@), //@w @C01 #push_some
            final(self).v@.len() >= old(self).v@.len(), //@w
    {
        use self::TaggedLineElement::Str;

        if let Str(ts) = tle {
            self.push_str(ts);
        } else {
            self.v.push(tle);
            proof { assert(self.v@.drop_last() =~= old(self).v@); } //@w
        }
    }
//@end

//@item src/render/text_renderer.rs :: impl TaggedLine :: fn push_ws
    fn push_ws(&mut self, len: usize, tag: &T)
        requires old(self).len + len <= usize::MAX, tag_ok::<T>(), //@w
        ensures //@w
            cwid(final(self).v@) == cwid(old(self).v@) + len, //@w @C02 @C04 @C12 #push_ws_cwid
            old(self).wf() ==> final(self).wf(), //@w @C02 @C04 @C12 #push_ws_wf
            final(self).len == old(self).len + len, //@w @C02 @C04 @C12 @C15 #push_ws_len
            flat(final(self).v@) =~= flat(old(self).v@) + flat_str(spaces(len as nat), *tag), //@w @C03 @C04 @C09 @C15 #push_ws_flat
            all_some(old(self).v@) ==> all_some(final(self).v@), //@w @C01
    {
        use self::TaggedLineElement::Str;
        proof { //@w
            lemma_spaces(len as nat); reveal_strlit(" "); //@w
            assert(" "@.len() == 1); //@w
            assert forall|s: Seq<char>| s.len() == len && (forall|i: int| 0 <= i < s.len() ==> s[i] == ' ') implies s =~= spaces(len as nat) by {} //@w
            assert(1 * len == len) by (nonlinear_arith); //@w
        } //@w
        self.push(Str(TaggedString {
            s: " ".repeat(len),
            tag: tag.clone(),
        }));
    }
//@end

//@item src/render/text_renderer.rs :: impl TaggedLine :: fn push_char
    fn push_char(&mut self, c: char, tag: &T)
        requires old(self).len + 2 <= usize::MAX, tag_ok::<T>(), //@w
        ensures //@w
            cwid(final(self).v@) == cwid(old(self).v@) + cwn(c), //@w @C02 @C04 @C12 #push_char_cwid
            old(self).wf() ==> final(self).wf(), //@w @C02 @C04 @C12 #push_char_wf
            final(self).len == old(self).len + cwn(c), //@w @C02 @C04 @C12 #push_char_len
            flat(final(self).v@) =~= flat(old(self).v@).push(CItem::Ch(c, *tag)), //@w @C03 @C04 @C09 @C12 #push_char_flat
            cw(c).is_some() && all_some(old(self).v@) ==> all_some(final(self).v@), //@w @C01 #push_char_some
            final(self).v@.len() > 0, //@w
    {
        use self::TaggedLineElement::Str;

        self.len += UnicodeWidthChar::width(c).unwrap_or(0);
        if let Some(Str(ts_prev)) = self.v.last_mut() {
            if ts_prev.tag == *tag {
                proof { //@w
                    let p = old(self).v@.last()->Str_0; //@w
                    lemma_sw_concat(p.s@, seq![c]); //@w
                    lemma_flat_str_concat(p.s@, seq![c], *tag); //@w
                    lemma_sw_one(c); //@w
                } //@w
                ts_prev.s.push(c);
                proof { //@w
                    let p = old(self).v@.last()->Str_0; //@w
                    let q = self.v@.last()->Str_0; //@w
                    assert(self.v@.drop_last() =~= old(self).v@.drop_last()); //@w
                    assert(q.s@ =~= p.s@ + seq![c]); //@w
                    assert(flat_str(seq![c], *tag) =~= seq![CItem::Ch(c, *tag)]); //@w
                } //@w
                return;
            }
        }
        let mut s = String::new();
        s.push(c);
        proof { lemma_sw_one(c); assert(s@ =~= seq![c]); assert(flat_str(seq![c], *tag) =~= seq![CItem::Ch(c, *tag)]); } //@w
        self.v.push(Str(TaggedString {
            s,
            tag: tag.clone(),
        }));
        proof { assert(self.v@.drop_last() =~= old(self).v@); } //@w
    }
//@end

//@item src/render/text_renderer.rs :: impl TaggedLine :: fn insert_front
    fn insert_front(&mut self, ts: TaggedString<T>)
        requires old(self).len + sw(ts.s@) <= usize::MAX, tag_ok::<T>(), //@w
        ensures //@w
            cwid(final(self).v@) == cwid(old(self).v@) + sw(ts.s@), //@w @C02 #insert_front_cwid
            old(self).wf() ==> final(self).wf(), //@w @C02 #insert_front_wf
            final(self).len == old(self).len + sw(ts.s@), //@w @C02 @C07 #insert_front_len
            flat(final(self).v@) =~= flat_str(ts.s@, ts.tag) + flat(old(self).v@), //@w @C03 @C04 @C07 @C09 #insert_front_flat
    {
        use self::TaggedLineElement::Str;

        self.len += UnicodeWidthStr::width(ts.s.as_str());

        if let Some(Str(ts1)) = self.v.get_mut(0) {
            if ts1.tag == ts.tag {
                // Combine into one TaggedString
                ts1.s.insert_str(0, &ts.s);
                proof { //@w
                    let p = old(self).v@[0]->Str_0; //@w
                    lemma_sw_concat(ts.s@, p.s@); //@w
                    lemma_flat_str_concat(ts.s@, p.s@, ts.tag); //@w
                    let q = self.v@[0]->Str_0; //@w
                    assert(q.s@ =~= ts.s@ + p.s@); //@w
                    assert(self.v@.skip(1) =~= old(self).v@.skip(1)); //@w
                    lemma_front(old(self).v@, self.v@); //@w
                    assert(flat_elt(self.v@[0]) =~= flat_str(ts.s@, ts.tag) + flat_elt(old(self).v@[0])); //@w
                } //@w
                return;
            }
        }
        self.v.insert(0, Str(ts));
        proof { lemma_flat_concat(seq![Str(ts)], old(self).v@); assert(self.v@ =~= seq![Str(ts)] + old(self).v@); lemma_flat_one(Str(ts)); } //@w
    }
//@end

//@item src/render/text_renderer.rs :: impl TaggedLine :: fn consume
//@sub /for ts in tl\.v\.drain\(\.\.\)/ ==> let items = vec_drain_all(&mut tl.v);\n        for ts in it: items
    fn consume(&mut self, tl: &mut TaggedLine<T>)
        requires old(self).wf(), old(self).len + cwid(old(tl).v@) <= usize::MAX, tag_ok::<T>(), //@w
        ensures //@w
            final(self).wf(), //@w @C02 @C04 @C12 #consume_wf
            final(self).len == old(self).len + cwid(old(tl).v@), //@w @C02 @C04 @C12 #consume_len
            flat(final(self).v@) =~= flat(old(self).v@) + flat(old(tl).v@), //@w @C03 @C04 @C09 @C14 #consume_flat
            all_some(old(self).v@) && all_some(old(tl).v@) ==> all_some(final(self).v@), //@w @C01 #consume_some
            final(tl).v@.len() == 0, //@w @C03 #consume_drains
            final(tl).len == old(tl).len, //@w
    {
        let items = vec_drain_all(&mut tl.v);
        for ts in it: items
            invariant //@w
                tag_ok::<T>(), it.seq() == items@, items@ == old(tl).v@, //@w @C02 @C03 @C04 @C09 @C12 @C14 #consume_loop_invariant
                self.wf(), self.len == old(self).len + cwid(items@.take(it.index@)), //@w @C02 @C03 @C04 @C09 @C12 @C14 #consume_loop_invariant
                old(self).len + cwid(items@) <= usize::MAX, //@w @C02 @C03 @C04 @C09 @C12 @C14 #consume_loop_invariant
                flat(self.v@) =~= flat(old(self).v@) + flat(items@.take(it.index@)), //@w @C02 @C03 @C04 @C09 @C12 @C14 #consume_loop_invariant
                all_some(old(self).v@) && all_some(items@) ==> all_some(self.v@), //@w @C02 @C03 @C04 @C09 @C12 @C14 #consume_loop_invariant
                tl.v@.len() == 0, tl.len == old(tl).len, //@w @C02 @C03 @C04 @C09 @C12 @C14 #consume_loop_invariant
        {
            proof { //@w
                let k = it.index@; //@w
                assert(items@.take(k + 1) =~= items@.take(k).push(items@[k])); //@w
                lemma_flat_push(items@.take(k), items@[k]); //@w
                lemma_flat_concat(items@.take(k + 1), items@.skip(k + 1)); //@w
                assert(items@.take(k + 1) + items@.skip(k + 1) =~= items@); //@w
            } //@w
            self.push(ts);
        }
        proof { assert(items@.take(items@.len() as int) =~= items@); } //@w
    }
//@end

//@item src/render/text_renderer.rs :: impl TaggedLine :: fn remove_items
//@sub /-> impl Iterator<Item = TaggedLineElement<T>>/ ==> -> (r: Vec<TaggedLineElement<T>>)
//@sub /std::mem::take\(&mut self\.v\)\.into_iter\(\)/ ==> vec_take(&mut self.v)
    fn remove_items(&mut self) -> (r: Vec<TaggedLineElement<T>>)
        ensures //@w
            r@ == old(self).v@, //@w @C03 @C14 #remove_items_all
            final(self).v@.len() == 0, final(self).len == 0, //@w @C03 #remove_items_empties
    {
        self.len = 0;
        vec_take(&mut self.v)
    }
//@end

//@item src/render/text_renderer.rs :: impl TaggedLine :: fn width
//@sub /-> usize/ ==> -> (r: usize)
//@sub /self\.tagged_strings\(\)\.map\(TaggedString::width\)\.sum\(\)/ ==> tagged_width_sum(&self.v)
//@sub /debug_assert_eq!\(self\.len, result\)/ ==> debug_assert!(self.len == result)
    fn width(&self) -> (r: usize)
        requires self.wf(), //@w @C01 #width_debug_assert
        ensures r == self.len, //@w @C02 @C04 @C12 #tl_width
    {
        let result = tagged_width_sum(&self.v);
        debug_assert!(self.len == result);
        result
    }
//@end

//@item src/render/text_renderer.rs :: impl TaggedLine :: fn pad_to
    fn pad_to(&mut self, width: usize, tag: &T)
        requires old(self).wf(), tag_ok::<T>(), //@w
        ensures //@w
            final(self).wf(), //@w @C02 #pad_to_wf
            final(self).len == (if width > old(self).len { width } else { old(self).len }), //@w @C02 @C05 @C15 #pad_to_len
            flat(final(self).v@) =~= flat(old(self).v@) + flat_str(spaces((if width > old(self).len { width - old(self).len } else { 0 }) as nat), *tag), //@w @C15 @C03 #pad_to_only_spaces
            all_some(old(self).v@) ==> all_some(final(self).v@), //@w
    {
        let my_width = self.width();
        proof { lemma_flat_str_empty(*tag); assert(spaces(0) =~= Seq::<char>::empty()); } //@w
        if width > my_width {
            self.push_ws(width - my_width, tag);
        }
    }
//@end
}
//@item src/render/text_renderer.rs :: struct WrappedBlock
#[derive(Debug, Clone)] //@w
struct WrappedBlock<T> {
    width: usize,
    text: Vec<TaggedLine<T>>,
    line: TaggedLine<T>,
    spacetag: Option<T>, // Tag for the whitespace before the current word
    word: TaggedLine<T>, // The current word (with no whitespace).
    wordlen: usize,
    wslen: usize,
    pre_wrapped: bool, // If true, we've been forced to wrap a <pre> line.
    pad_blocks: bool,
    allow_overflow: bool,
}
//@end
// ---- content view of a block (C03, C14): everything that is not a plain space, in order ----
// (the engine itself only ever adds ' ' characters: pending whitespace, tab expansion and block padding)
spec fn is_sp<T>(i: CItem<T>) -> bool { match i { CItem::Ch(c, _) => c == ' ', CItem::Frag(_) => false } }
spec fn ns<T>(s: Seq<CItem<T>>) -> Seq<CItem<T>> decreases s.len() {
    if s.len() == 0 { Seq::empty() } else if is_sp(s.last()) { ns(s.drop_last()) } else { ns(s.drop_last()).push(s.last()) }
}
proof fn lemma_ns_concat<T>(a: Seq<CItem<T>>, b: Seq<CItem<T>>)
    ensures ns(a + b) =~= ns(a) + ns(b),
    decreases b.len()
{
    if b.len() == 0 { assert(a + b =~= a); } else {
        assert((a + b).drop_last() =~= a + b.drop_last());
        lemma_ns_concat(a, b.drop_last());
    }
}
proof fn lemma_ns_spaces<T>(n: nat, t: T)
    ensures ns(flat_str(spaces(n), t)) =~= Seq::<CItem<T>>::empty(),
    decreases n
{
    if n > 0 {
        assert(flat_str(spaces(n), t).drop_last() =~= flat_str(spaces((n - 1) as nat), t));
        lemma_ns_spaces((n - 1) as nat, t);
    }
}
spec fn lines_flat<T>(t: Seq<TaggedLine<T>>) -> Seq<CItem<T>> decreases t.len() {
    if t.len() == 0 { Seq::empty() } else { lines_flat(t.drop_last()) + flat(t.last().v@) }
}
// the non-space content of the finished lines followed by the current line
#[verifier::opaque]
spec fn content<T>(text: Seq<TaggedLine<T>>, linev: Seq<TaggedLineElement<T>>) -> Seq<CItem<T>> { ns(lines_flat(text) + flat(linev)) }
proof fn lemma_content_append<T>(text: Seq<TaggedLine<T>>, v: Seq<TaggedLineElement<T>>, v2: Seq<TaggedLineElement<T>>, extra: Seq<CItem<T>>)
    requires flat(v2) =~= flat(v) + extra,
    ensures content(text, v2) =~= content(text, v) + ns(extra),
{
    reveal(content);
    assert(lines_flat(text) + flat(v2) =~= (lines_flat(text) + flat(v)) + extra);
    lemma_ns_concat(lines_flat(text) + flat(v), extra);
}
proof fn lemma_content_flush<T>(text: Seq<TaggedLine<T>>, l: TaggedLine<T>, v: Seq<TaggedLineElement<T>>)
    requires ns(flat(l.v@)) =~= ns(flat(v)),
    ensures content(text.push(l), Seq::<TaggedLineElement<T>>::empty()) =~= content(text, v),
{
    reveal(content);
    assert(text.push(l).drop_last() =~= text);
    assert(flat(Seq::<TaggedLineElement<T>>::empty()) =~= Seq::<CItem<T>>::empty());
    assert(lines_flat(text.push(l)) + flat(Seq::<TaggedLineElement<T>>::empty()) =~= lines_flat(text) + flat(l.v@));
    lemma_ns_concat(lines_flat(text), flat(l.v@));
    lemma_ns_concat(lines_flat(text), flat(v));
}
proof fn lemma_flat_empty_te<T>() ensures flat(Seq::<TaggedLineElement<T>>::empty()) =~= Seq::<CItem<T>>::empty(), ns(Seq::<CItem<T>>::empty()) =~= Seq::<CItem<T>>::empty() {}
proof fn lemma_ns_empty<T>() ensures ns(Seq::<CItem<T>>::empty()) =~= Seq::<CItem<T>>::empty() {}
proof fn lemma_clone_is_copy<T: Clone + PartialEq>(a: &T, b: T)
    requires tag_ok::<T>(), call_ensures(T::clone, (a,), b),
    ensures *a == b,
{}
// pushing a string piece extends the block content by its non-space characters
proof fn lemma_piece_pushed<T>(text: Seq<TaggedLine<T>>, v: Seq<TaggedLineElement<T>>, v2: Seq<TaggedLineElement<T>>, sub: Seq<char>, tag: T)
    requires exists|e: TaggedLineElement<T>| flat(v2) =~= flat(v) + flat_elt(e) && (e matches TaggedLineElement::Str(ts) && ts.s@ == sub && ts.tag == tag),
    ensures content(text, v2) =~= content(text, v) + ns(flat_str(sub, tag)),
{
    let e = choose|e: TaggedLineElement<T>| flat(v2) =~= flat(v) + flat_elt(e) && (e matches TaggedLineElement::Str(ts) && ts.s@ == sub && ts.tag == tag);
    lemma_content_append(text, v, v2, flat_elt(e));
}
// off(s, k) == off(s, len) only for k == len (every character has at least one byte)
proof fn lemma_off_end(s: Seq<char>, k: int)
    requires 0 <= k <= s.len(), off(s, k) >= off(s, s.len() as int),
    ensures k == s.len(),
{ if k < s.len() { lemma_off_mono(s, k, s.len() as int); axiom_l8(s[k]); lemma_off_mono(s, k + 1, s.len() as int); assert(off(s, k + 1) == off(s, k) + l8(s[k])); } }
// "no character or marker is lost": (finished lines ++ current line ++ word) has the same non-space content before and after.
// Opaque so that callers which only need the width invariant (add_text) do not pay for the sequence algebra.
// all non-space content of a block: finished lines, current line, and the word being built (`content` is opaque)
spec fn all_ns<T>(t: Seq<TaggedLine<T>>, l: Seq<TaggedLineElement<T>>, w: Seq<TaggedLineElement<T>>) -> Seq<CItem<T>> { content(t, l) + ns(flat(w)) }
spec fn keeps_all<T>(t0: Seq<TaggedLine<T>>, l0: Seq<TaggedLineElement<T>>, w0: Seq<TaggedLineElement<T>>, t1: Seq<TaggedLine<T>>, l1: Seq<TaggedLineElement<T>>, w1: Seq<TaggedLineElement<T>>) -> bool {
    all_ns(t1, l1, w1) =~= all_ns(t0, l0, w0)
}
// ---- L2 of add_text: which characters reach the block, in which order, under which tag (C03, C09, C16) -------------------
// R13: `c.is_whitespace()` -> char_is_ws(c) (trusted name for core's char::is_whitespace, so that it has a spec-level counterpart)
pub uninterp spec fn is_ws(c: char) -> bool;
#[verifier::external_body] pub proof fn axiom_space_is_ws() ensures is_ws(' ') {}
#[verifier::external_body] fn char_is_ws(c: char) -> (r: bool) ensures r == is_ws(c) { c.is_whitespace() }
// std functions that tidy-ups of this code tend to introduce (A3: their std documentation is their specification)
pub open spec fn trim_end_spec(s: Seq<char>) -> Seq<char> decreases s.len() { if s.len() > 0 && is_ws(s.last()) { trim_end_spec(s.drop_last()) } else { s } }
pub open spec fn trim_start_spec(s: Seq<char>) -> Seq<char> decreases s.len() { if s.len() > 0 && is_ws(s.first()) { trim_start_spec(s.drop_first()) } else { s } }
pub assume_specification[ String::with_capacity ](n: usize) -> (r: String) ensures r@ == Seq::<char>::empty();
pub assume_specification[ str::trim_end ](s: &str) -> (r: &str) ensures r@ == trim_end_spec(s@);
pub assume_specification[ str::trim_start ](s: &str) -> (r: &str) ensures r@ == trim_start_spec(s@);
pub assume_specification[ str::trim ](s: &str) -> (r: &str) ensures r@ == trim_end_spec(trim_start_spec(s@));
// the characters of the input that are kept: everything except white space and characters without a display width (controls)
spec fn keepc(c: char) -> bool { !is_ws(c) && cw(c).is_some() }
spec fn kept(s: Seq<char>) -> Seq<char> decreases s.len() { if s.len() == 0 { Seq::empty() } else if keepc(s.last()) { kept(s.drop_last()).push(s.last()) } else { kept(s.drop_last()) } }
proof fn lemma_kept_empty() ensures kept(Seq::<char>::empty()) =~= Seq::<char>::empty() {}
proof fn lemma_kept_step(s: Seq<char>, i: int)
    requires 0 <= i < s.len(),
    ensures kept(s.take(i + 1)) =~= (if keepc(s[i]) { kept(s.take(i)).push(s[i]) } else { kept(s.take(i)) }),
{ assert(s.take(i + 1).drop_last() =~= s.take(i)); assert(s.take(i + 1).last() == s[i]); }
// S is the characters cs, in order, each tagged with one of the two tags handed to add_text
#[verifier::opaque]
spec fn tagged_by<T>(S: Seq<CItem<T>>, cs: Seq<char>, t1: T, t2: T) -> bool {
    S.len() == cs.len() && forall|i: int| 0 <= i < S.len() ==> ((#[trigger] S[i]) matches CItem::Ch(c, t) && c == cs[i] && (t == t1 || t == t2))
}
// all_ns(after) == all_ns(before) ++ acc for some acc that is the characters cs, in order, tagged m or w
spec fn appended_b<T>(base: Seq<CItem<T>>, t1: Seq<TaggedLine<T>>, l1: Seq<TaggedLineElement<T>>, w1: Seq<TaggedLineElement<T>>, cs: Seq<char>, m: T, w: T) -> bool {
    exists|acc: Seq<CItem<T>>| #[trigger] tagged_by(acc, cs, m, w) && all_ns(t1, l1, w1) =~= base + acc
}
// a block without lines, line elements and word elements has no content
proof fn lemma_all_ns_empty<T>(t: Seq<TaggedLine<T>>, l: Seq<TaggedLineElement<T>>, w: Seq<TaggedLineElement<T>>)
    requires t.len() == 0, l.len() == 0, w.len() == 0,
    ensures all_ns(t, l, w) =~= Seq::<CItem<T>>::empty(),
{ reveal(content); }
// a sequence of content items that holds fragment markers only
spec fn only_frags<T>(s: Seq<CItem<T>>) -> bool { forall|i: int| 0 <= i < s.len() ==> (#[trigger] s[i]) is Frag }
proof fn lemma_no_str_flat<T>(v: Seq<TaggedLineElement<T>>)
    requires no_str(v),
    ensures only_frags(flat(v)), ns(flat(v)) =~= flat(v), flat(v).len() == v.len(),
    decreases v.len()
{
    if v.len() > 0 {
        lemma_no_str_flat(v.drop_last());
        assert(!(v.last() is Str));
        lemma_ns_concat(flat(v.drop_last()), flat_elt(v.last()));
        let e = flat_elt(v.last());
        assert(e.len() == 1 && e.last() is Frag);
        assert(e.drop_last() =~= Seq::<CItem<T>>::empty());
        assert(ns(e.drop_last()) =~= Seq::<CItem<T>>::empty());
        assert(!is_sp(e.last()));
        assert(ns(e) =~= e);
    }
}
// white space only: nothing is kept
spec fn all_ws(s: Seq<char>) -> bool { forall|i: int| 0 <= i < s.len() ==> is_ws(#[trigger] s[i]) }
proof fn lemma_kept_ws(s: Seq<char>)
    requires all_ws(s),
    ensures kept(s) =~= Seq::<char>::empty(),
    decreases s.len()
{ if s.len() > 0 { assert(is_ws(s[s.len() - 1])); lemma_kept_ws(s.drop_last()); } }
// a space pushed onto the current line does not change the non-space content
proof fn lemma_space_pushed<T>(t: Seq<TaggedLine<T>>, la: Seq<TaggedLineElement<T>>, lb: Seq<TaggedLineElement<T>>, tg: T)
    requires flat(lb) =~= flat(la).push(CItem::Ch(' ', tg)),
    ensures content(t, lb) =~= content(t, la),
{
    let extra = seq![CItem::Ch(' ', tg)];
    assert(flat(lb) =~= flat(la) + extra);
    lemma_content_append(t, la, lb, extra);
    reveal_with_fuel(ns, 2);
    assert(extra.drop_last() =~= Seq::<CItem<T>>::empty());
    assert(extra.last() == CItem::Ch(' ', tg) && is_sp(extra.last()));
    assert(ns(extra) =~= Seq::<CItem<T>>::empty());
}
// a non-space character pushed onto the word extends the non-space content by exactly that character under that tag
proof fn lemma_char_pushed<T>(wa: Seq<TaggedLineElement<T>>, wb: Seq<TaggedLineElement<T>>, c: char, tg: T, acc: Seq<CItem<T>>, cs: Seq<char>, m: T, w: T)
    requires flat(wb) =~= flat(wa).push(CItem::Ch(c, tg)), c != ' ', tg == m || tg == w, tagged_by(acc, cs, m, w),
    ensures ns(flat(wb)) =~= ns(flat(wa)).push(CItem::Ch(c, tg)), tagged_by(acc.push(CItem::Ch(c, tg)), cs.push(c), m, w),
{
    reveal(tagged_by);
    assert(flat(wb).drop_last() =~= flat(wa));
    assert(flat(wb).last() == CItem::Ch(c, tg));
}
proof fn lemma_tagged_empty<T>(m: T, w: T) ensures tagged_by(Seq::<CItem<T>>::empty(), Seq::<char>::empty(), m, w) { reveal(tagged_by); }
// a line fits (C02): at most `width` columns; with overflow allowed the only wider line is a single over-wide character (C11)
spec fn fits<T>(l: TaggedLine<T>, width: usize, allow: bool) -> bool { l.len <= width || (allow && l.len <= 2) }
spec fn lines_wf<T>(t: Seq<TaggedLine<T>>) -> bool { forall|i: int| 0 <= i < t.len() ==> (#[trigger] t[i]).wf() }
spec fn lines_fit<T>(t: Seq<TaggedLine<T>>, width: usize, allow: bool) -> bool { forall|i: int| 0 <= i < t.len() ==> fits(#[trigger] t[i], width, allow) }
impl<T> WrappedBlock<T> {
    // the representation invariant, one conjunct per spec fn so that a failing postcondition names it
    spec fn inv_wf(&self) -> bool { self.line.wf() && lines_wf(self.text@) }
    spec fn inv_ws(&self) -> bool { self.wslen > 0 ==> self.spacetag.is_some() }
    spec fn inv_bound(&self) -> bool { self.wslen + self.wordlen + self.width + self.word.len <= 0x4000_0000_0000_0000 && self.line.len <= 0x4000_0000_0000_0000 }
    spec fn line_fits(&self, l: TaggedLine<T>) -> bool { fits(l, self.width, self.allow_overflow) }
    spec fn inv_out(&self) -> bool { lines_fit(self.text@, self.width, self.allow_overflow) }
    spec fn inv_fit(&self) -> bool { self.line.len <= self.width }
    spec fn inv_word(&self) -> bool { self.wordlen == cwid(self.word.v@) && all_some(self.word.v@) }
    spec fn inv_base(&self) -> bool { self.inv_wf() && self.inv_ws() && self.inv_bound() && self.inv_out() }
    spec fn inv_nw(&self) -> bool { self.inv_base() && self.inv_fit() }
    spec fn inv(&self) -> bool { self.inv_nw() && self.inv_word() }
    spec fn total(&self) -> int { self.wslen + self.wordlen + self.width + self.word.len }
    spec fn frame(&self, o: &Self) -> bool { self.width == o.width && self.allow_overflow == o.allow_overflow && self.pad_blocks == o.pad_blocks }
}
impl<T: Clone + Eq + Debug + Default> WrappedBlock<T> {
//@item src/render/text_renderer.rs :: impl WrappedBlock :: fn new
//@sub /-> WrappedBlock<T>/ ==> -> (r: WrappedBlock<T>)
    fn new(width: usize, pad_blocks: bool, allow_overflow: bool) -> (r: WrappedBlock<T>)
        requires width <= 0x2000_0000_0000_0000, //@w
        ensures //@w
            r.inv(), //@w @C02 #new_inv
            r.width == width, r.pad_blocks == pad_blocks, r.allow_overflow == allow_overflow, //@w @C15 @C11 @C02 #new_fields
            r.text@.len() == 0, r.line.v@.len() == 0, r.word.v@.len() == 0, r.wslen == 0, r.wordlen == 0, r.word.len == 0, r.line.len == 0, r.spacetag.is_none(), !r.pre_wrapped, //@w @C03 #new_empty
    {
        WrappedBlock {
            width,
            text: Vec::new(),
            line: TaggedLine::new(),
            spacetag: None,
            word: TaggedLine::new(),
            wordlen: 0,
            wslen: 0,
            pre_wrapped: false,
            pad_blocks,
            allow_overflow,
        }
    }
//@end
//@item src/render/text_renderer.rs :: impl WrappedBlock :: fn flush_word
//@sub /-> Result<\(\)>/ ==> -> (r: Result<()>)
//@auto C01 C02 C11
    #[verifier::spinoff_prover] //@w
    fn flush_word(&mut self, ws_mode: WhiteSpace) -> (r: Result<()>)
        requires old(self).inv(), tag_ok::<T>(), //@w
            old(self).width >= 1, //@w #width_ge_1
        ensures //@w
            final(self).inv_wf(), final(self).inv_ws(), final(self).inv_bound(), //@w @C01 #fw_inv
            final(self).inv_out(), //@w @C02 @C11 #fw_out
            final(self).inv_fit(), //@w @C02 #fw_fit
            r.is_ok() ==> final(self).inv_word(), //@w @C04 #fw_word_inv
            final(self).frame(old(self)), //@w @C02 @C15 #fw_frame
            old(self).allow_overflow ==> r.is_ok(), //@w @C11 #fw_overflow_ok
            final(self).wslen <= old(self).wslen, final(self).wordlen <= old(self).wordlen, final(self).word.len <= old(self).word.len, //@w
            final(self).text@.len() >= old(self).text@.len(), //@w @C03 #fw_text_grows
            final(self).text@.take(old(self).text@.len() as int) =~= old(self).text@, //@w @C03 #fw_keeps_emitted_lines
            r.is_ok() ==> final(self).wordlen == 0 && no_str(final(self).word.v@), //@w @C04 @C03 #fw_word_flushed
            r.is_ok() && !no_str(old(self).word.v@) ==> final(self).word.v@.len() == 0, //@w @C03 @C14 #fw_word_emptied
            // flushing moves the word to the output; no character or marker is lost, duplicated or reordered (C03, C14) //@w
            r.is_ok() ==> keeps_all(old(self).text@, old(self).line.v@, old(self).word.v@, final(self).text@, final(self).line.v@, final(self).word.v@), //@w @C03 @C14 #fw_keeps_content
            no_str(old(self).word.v@) ==> r.is_ok() && final(self).text@ == old(self).text@ && final(self).line == old(self).line && final(self).word == old(self).word //@w @C04 @C14 #fw_empty_word_noop
                && final(self).wslen == old(self).wslen && final(self).spacetag == old(self).spacetag && final(self).pre_wrapped == old(self).pre_wrapped, //@w @C04 @C14 #fw_empty_word_noop
            !no_str(old(self).word.v@) && old(self).wslen + old(self).wordlen <= old(self).width - old(self).line.len ==> //@w @C04 @C12 #fw_fits_same_line
                r.is_ok() && final(self).text@ == old(self).text@ //@w @C04 @C12 #fw_fits_same_line
                && final(self).line.len == old(self).line.len + old(self).wslen + old(self).wordlen //@w @C04 @C12 #fw_fits_same_line
                && final(self).wslen == 0 && !final(self).pre_wrapped, //@w @C04 @C12 #fw_fits_same_line
            !no_str(old(self).word.v@) && old(self).wslen + old(self).wordlen <= old(self).width - old(self).line.len && old(self).wslen > 0 ==> //@w @C04 @C03 @C09 #fw_fits_content_ws
                flat(final(self).line.v@) =~= flat(old(self).line.v@) + flat_str(spaces(old(self).wslen as nat), old(self).spacetag.unwrap()) + flat(old(self).word.v@), //@w @C04 @C03 @C09 #fw_fits_content_ws
            !no_str(old(self).word.v@) && old(self).wslen + old(self).wordlen <= old(self).width - old(self).line.len && old(self).wslen == 0 ==> //@w @C04 @C03 @C09 #fw_fits_content
                flat(final(self).line.v@) =~= flat(old(self).line.v@) + flat(old(self).word.v@), //@w @C04 @C03 @C09 #fw_fits_content
            !no_str(old(self).word.v@) && old(self).wslen + old(self).wordlen > old(self).width - old(self).line.len && ws_mode.do_wrap_spec() && r.is_ok() ==> //@w @C04 #fw_wraps
                final(self).wslen == 0 && final(self).spacetag.is_none() //@w @C04 #fw_wraps
                && (!no_str(old(self).line.v@) ==> final(self).text@.len() >= old(self).text@.len() + 1 && final(self).text@[old(self).text@.len() as int].len == (if old(self).pad_blocks { old(self).width } else { old(self).line.len })), //@w @C04 #fw_wraps
            !no_str(old(self).word.v@) && old(self).wslen + old(self).wordlen > old(self).width - old(self).line.len && ws_mode == WhiteSpace::Pre && r.is_ok() ==> //@w @C09 @C12 #fw_pre_wrapped
                final(self).pre_wrapped, //@w @C09 @C12 #fw_pre_wrapped
            !no_str(old(self).word.v@) && old(self).wslen + old(self).wordlen > old(self).width - old(self).line.len && ws_mode != WhiteSpace::Pre && r.is_ok() ==> //@w @C09 @C12 #fw_not_pre_wrapped
                !final(self).pre_wrapped, //@w @C09 @C12 #fw_not_pre_wrapped
    {
        use self::TaggedLineElement::Str;

        /* Finish the word. */
        html_trace_quiet!(
            "flush_word: word={:?}, linelen={}",
            self.word,
            self.line.len
        );
        proof { //@w
            reveal_strlit(" "); //@w
            assert forall|s: Seq<char>| (forall|i: int| 0 <= i < s.len() ==> s[i] == ' ') implies sw(s) == s.len() by { lemma_sw_spaces(s); } //@w
            assert forall|s: Seq<char>| s.len() == self.wslen && (forall|i: int| 0 <= i < s.len() ==> s[i] == ' ') implies s =~= spaces(self.wslen as nat) by {} //@w
            assert(1 * self.wslen == self.wslen) by (nonlinear_arith); //@w
            if no_str(self.word.v@) { lemma_no_str_cwid(self.word.v@); } //@w
            lemma_flat_empty_te::<T>(); //@w
        } //@w
        let ghost c0 = content(self.text@, self.line.v@); //@w

        if !self.word.is_empty() {
            self.pre_wrapped = false;
            let space_in_line = self.width - self.line.len;
            let space_needed = self.wslen + self.wordlen;
            if space_needed <= space_in_line {
                html_trace!("Got enough space");
                if self.wslen > 0 {
                    let ghost va = self.line.v@; //@w
                    let ghost sp_tag = self.spacetag.unwrap(); //@w
                    self.line.push(Str(TaggedString {
                        s: " ".repeat(self.wslen),
                        tag: self.spacetag.take().unwrap(),
                    }));
                    proof { //@w
                        lemma_ns_spaces(self.wslen as nat, sp_tag); //@w
                        lemma_content_append(self.text@, va, self.line.v@, flat_str(spaces(self.wslen as nat), sp_tag)); //@w
                    } //@w
                    self.wslen = 0;
                }
                let ghost vb = self.line.v@; //@w

                self.line.consume(&mut self.word);
                proof { lemma_content_append(self.text@, vb, self.line.v@, flat(old(self).word.v@)); } //@w
                html_trace!("linelen increased by wordlen to {}", self.line.len);
            } else {
                html_trace!("Not enough space");
                // The column position inside (whitespace + word)
                if !ws_mode.do_wrap() {
                    // We're not word-wrapping, so output any portion that still
                    // fits.
                    if self.wslen >= space_in_line {
                        // Skip the whitespace
                        self.wslen -= space_in_line;
                    } else if self.wslen > 0 {
                        let ghost vc = self.line.v@; //@w
                        let ghost tagc = self.spacetag.unwrap(); //@w
                        self.line
                            .push_ws(self.wslen, &self.spacetag.take().unwrap());
                        proof { //@w
                            lemma_ns_spaces(self.wslen as nat, tagc); //@w
                            lemma_content_append(self.text@, vc, self.line.v@, flat_str(spaces(self.wslen as nat), tagc)); //@w
                        } //@w
                        self.wslen = 0;
                    }
                } else {
                    // We're word-wrapping, so discard any whitespace.
                    self.spacetag = None;
                    self.wslen = 0;
                }
                /* Start a new line */
                self.flush_line();

                if ws_mode == WhiteSpace::Pre {
                    self.pre_wrapped = true;
                }

                // Write any remaining whitespace
                while self.wslen > 0
                    invariant //@w
                        self.inv(), tag_ok::<T>(), self.width >= 1, self.frame(old(self)), //@w
                        self.wordlen == old(self).wordlen, self.word == old(self).word, self.wslen <= old(self).wslen, //@w
                        self.wslen > 0 ==> self.line.len == 0, //@w
                        self.text@.len() >= old(self).text@.len() + (if !no_str(old(self).line.v@) { 1int } else { 0int }), //@w
                        self.text@.take(old(self).text@.len() as int) =~= old(self).text@, //@w
                        ws_mode.do_wrap_spec() && !no_str(old(self).line.v@) ==> self.text@[old(self).text@.len() as int].len == (if old(self).pad_blocks { old(self).width } else { old(self).line.len }), //@w
                        self.pre_wrapped == (ws_mode == WhiteSpace::Pre), //@w @C09 @C12 #fw_ws_loop_pre_flag
                        ws_mode.do_wrap_spec() ==> self.wslen == 0, //@w
                        content(self.text@, self.line.v@) =~= c0, //@w @C03 #fw_ws_loop_keeps_content
                    decreases self.wslen //@w
                {
                    let to_copy = self.wslen.min(self.width);
                    let ghost vd = self.line.v@; //@w
                    self.line.push_ws(to_copy, self.spacetag.as_ref().unwrap());
                    proof { //@w
                        lemma_ns_spaces(to_copy as nat, self.spacetag.unwrap()); //@w
                        lemma_content_append(self.text@, vd, self.line.v@, flat_str(spaces(to_copy as nat), self.spacetag.unwrap())); //@w
                    } //@w
                    if to_copy == self.width {
                        self.flush_line();
                    }
                    self.wslen -= to_copy;
                }
                self.spacetag = None;

                // At this point, either:
                // We're word-wrapping, and at the start of the line or
                // We're preformatted, and may have some whitespace at the start of the
                // line.  In either case we just keep outputing the word directly, hard
                // wrapping if needed.
                self.flush_word_hard_wrap()?;
            }
        }
        self.wordlen = 0;
        Ok(())
    }
//@end
//@item src/render/text_renderer.rs :: impl WrappedBlock :: fn flush_word_hard_wrap
//@sub /-> Result<\(\)>/ ==> -> (r: Result<()>)
//@sub /for element in self\.word\.remove_items\(\)/ ==> let items = self.word.remove_items();\n        for element in it: items
//@sub /for \(idx, c\) in piece\.s\[bpos\.\.\]\.char_indices\(\)/ ==> let tail = str_from(&piece.s, bpos);\n                    let ci = char_indices_vec(&tail);\n                    for k in 0..ci.len()
//@sub /piece\.s\[bpos\.\.bpos \+ split_idx\]\.into\(\)/ ==> str_range(&piece.s, bpos, bpos + split_idx)
//@sub /piece\.s\[bpos\.\.\]\.into\(\)/ ==> str_from(&piece.s, bpos)
//@auto C01 C02 C11
    #[verifier::loop_isolation(false)] //@w
    #[verifier::rlimit(150)] //@w
    fn flush_word_hard_wrap(&mut self) -> (r: Result<()>)
        requires old(self).inv(), tag_ok::<T>(), //@w
        ensures //@w
            final(self).inv_wf(), final(self).inv_ws(), final(self).inv_bound(), //@w @C01 #hw_inv
            final(self).inv_out(), //@w @C02 @C11 #hw_out
            final(self).inv_fit(), //@w @C02 #hw_fit
            final(self).frame(old(self)), //@w @C02 @C15 #hw_frame
            final(self).word.v@.len() == 0, final(self).word.len == 0, //@w @C03 #hw_word_consumed
            final(self).wslen == old(self).wslen, final(self).wordlen == old(self).wordlen, //@w @C04 #hw_keeps_counts
            final(self).spacetag == old(self).spacetag, final(self).pre_wrapped == old(self).pre_wrapped, //@w @C12 #hw_keeps_state
            final(self).text@.len() >= old(self).text@.len(), //@w @C03 #hw_text_grows
            final(self).text@.take(old(self).text@.len() as int) =~= old(self).text@, //@w @C03 #hw_keeps_emitted_lines
            old(self).allow_overflow ==> r.is_ok(), //@w @C11 #hw_overflow_ok
            // nothing of the word is lost, duplicated or reordered by the hard wrap: text pieces AND fragment markers (C03, C14) //@w
            r.is_ok() ==> content(final(self).text@, final(self).line.v@) =~= content(old(self).text@, old(self).line.v@) + ns(flat(old(self).word.v@)), //@w @C03 @C14 #hw_keeps_content
    {
        hide(sw); hide(off); hide(cidx); hide(is_boundary); hide(flat); hide(flat_str); hide(spaces); hide(tag_ok); hide(ns); //@w
        use self::TaggedLineElement::Str;

        let mut lineleft = self.width - self.line.len;
        let items = self.word.remove_items();
        let ghost c0 = content(self.text@, self.line.v@); //@w
        proof { assert forall|a: &T, b: T| call_ensures(T::clone, (a,), b) implies *a == b by { lemma_clone_is_copy(a, b); } } //@w
        proof { assert(items@.take(0) =~= Seq::<TaggedLineElement<T>>::empty()); lemma_flat_empty_te::<T>(); } //@w
        for element in it: items
            invariant //@w
                self.inv_nw(), tag_ok::<T>(), //@w
                lineleft == self.width - self.line.len, //@w @C02 @C04 #hw_lineleft
                self.frame(old(self)), self.spacetag == old(self).spacetag, self.pre_wrapped == old(self).pre_wrapped, //@w
                self.word.v@.len() == 0, self.word.len == 0, self.wslen == old(self).wslen, self.wordlen == old(self).wordlen, //@w
                self.text@.len() >= old(self).text@.len(), self.text@.take(old(self).text@.len() as int) =~= old(self).text@, //@w
                all_some(items@), it.history@.len() == it.index@, it.seq() == items@, cwid(items@) <= 0x4000_0000_0000_0000, //@w
                content(self.text@, self.line.v@) =~= c0 + ns(flat(items@.take(it.index@))), //@w @C03 @C14 #hw_content_so_far
        {
            proof { lemma_cwid_ge(items@, it.index@); } //@w
            assert(element == items@[it.index@]); //@w
            assert(elt_some(element)); //@w
            let ghost cpre = content(self.text@, self.line.v@); //@w
            proof { //@w
                let k = it.index@; //@w
                assert(items@.take(k + 1) =~= items@.take(k).push(items@[k])); //@w
                lemma_flat_push(items@.take(k), items@[k]); //@w
                lemma_ns_concat(flat(items@.take(k)), flat_elt(items@[k])); //@w
            } //@w
            if let Str(piece) = element {
                let w = piece.width();
                let mut wpos = 0; // Width of already-copied pieces
                let mut bpos = 0; // Byte position of already-copied pieces
                let ghost chars = piece.s@; //@w
                let ghost mut cpos: int = 0; //@w
                proof { assert(chars.take(0) =~= Seq::<char>::empty()); lemma_off_base(chars); lemma_flat_str_empty(piece.tag); lemma_ns_empty::<T>(); } //@w
                                  //
                while w - wpos > lineleft
                    invariant //@w
                        0 <= cpos <= chars.len(), chars == piece.s@, bpos == off(chars, cpos), //@w
                        wpos == sw(chars.take(cpos)), w == sw(chars), wpos <= w, w <= 0x4000_0000_0000_0000, //@w
                        forall|k: int| 0 <= k < chars.len() ==> cw(#[trigger] chars[k]).is_some(), //@w
                        self.inv_nw(), tag_ok::<T>(), //@w
                        lineleft == self.width - self.line.len, //@w @C02 @C04 #hw_lineleft_inner
                        self.frame(old(self)), self.spacetag == old(self).spacetag, self.pre_wrapped == old(self).pre_wrapped, //@w
                        self.word.v@.len() == 0, self.word.len == 0, self.wslen == old(self).wslen, self.wordlen == old(self).wordlen, //@w
                        self.text@.len() >= old(self).text@.len(), self.text@.take(old(self).text@.len() as int) =~= old(self).text@, //@w
                        content(self.text@, self.line.v@) =~= cpre + ns(flat_str(chars.take(cpos), piece.tag)), //@w @C03 #hw_piece_content_so_far
                    decreases chars.len() - cpos, self.line.len, //@w
                {
                    let mut split_idx = 0;
                    proof { lemma_split(chars, cpos, 0, chars.skip(cpos)); } //@w
                    let tail = str_from(&piece.s, bpos);
                    let ci = char_indices_vec(&tail);
                    let ghost ll0 = lineleft; //@w
                    let ghost wpos0 = wpos; //@w
                    let ghost mut kb: int = 0; //@w
                    let ghost mut ovf: bool = false; //@w
                    proof { //@w
                        assert(tail@ == chars.skip(cpos)); //@w
                        assert(tail@.take(0) =~= Seq::<char>::empty()); //@w
                    } //@w
                    for k in 0..ci.len()
                        invariant_except_break //@w
                            split_idx == 0, !ovf, (k as int) < tail@.len(), //@w
                            lineleft == ll0 - sw(tail@.take(k as int)), wpos == wpos0 + sw(tail@.take(k as int)), //@w
                        invariant //@w
                            tail@ == chars.skip(cpos), ci@.len() == tail@.len(), //@w @C02 @C03 @C04 @C11 @C12 @C14 @C15 #flush_word_hard_wrap_loop_invariant
                            forall|j: int| 0 <= j < tail@.len() ==> (#[trigger] ci@[j]).0 == off(tail@, j) && ci@[j].1 == tail@[j], //@w @C02 @C03 @C04 @C11 @C12 @C14 @C15 #flush_word_hard_wrap_loop_invariant
                            forall|j: int| 0 <= j < tail@.len() ==> cw(#[trigger] tail@[j]).is_some(), //@w @C02 @C03 @C04 @C11 @C12 @C14 @C15 #flush_word_hard_wrap_loop_invariant
                            0 <= cpos <= chars.len(), ll0 == self.width - self.line.len, sw(tail@) == w - wpos0, w - wpos0 > ll0, //@w @C02 @C03 @C04 @C11 @C12 @C14 @C15 #flush_word_hard_wrap_loop_invariant
                            self.inv_nw(), wpos0 <= w, w <= 0x4000_0000_0000_0000, //@w @C02 @C03 @C04 @C11 @C12 @C14 @C15 #flush_word_hard_wrap_loop_invariant
                        ensures //@w @C02 @C03 @C04 @C11 @C12 @C14 @C15 #flush_word_hard_wrap_loop_invariant
                            0 <= kb <= tail@.len(), split_idx == off(tail@, kb), wpos == wpos0 + sw(tail@.take(kb)), //@w @C02 @C03 @C04 @C11 @C12 @C14 @C15 #flush_word_hard_wrap_loop_invariant
                            !ovf ==> sw(tail@.take(kb)) <= ll0 && (kb >= 1 || self.line.len > 0), //@w @C02 @C03 @C04 @C11 @C12 @C14 @C15 #flush_word_hard_wrap_loop_invariant
                            ovf ==> kb == 1 && self.allow_overflow && self.line.len == 0 && sw(tail@.take(1)) <= 2, //@w @C02 @C03 @C04 @C11 @C12 @C14 @C15 #flush_word_hard_wrap_loop_invariant
                    {
                        let (idx, c) = ci[k]; //@w
                        let c_w = UnicodeWidthChar::width(c).unwrap();
                        proof { lemma_sw_take_succ(tail@, k as int); } //@w
                        if c_w <= lineleft {
                            lineleft -= c_w;
                            wpos += c_w;
                            proof { //@w
                                if k + 1 == tail@.len() { assert(tail@.take(k as int + 1) =~= tail@); assert(false); } //@w
                            } //@w
                        } else {
                            // Check if we've made no progress, for example
                            // if the first character is 2 cells wide and we
                            // only have a width of 1.
                            if idx == 0 && self.line.width() == 0 {
                                if self.allow_overflow {
                                    split_idx = c.len_utf8();
                                    wpos += c_w;
                                    proof { //@w
                                        assert(call_ensures(char::len_utf8, (c,), split_idx)); //@w
                                        if k > 0 { lemma_off_mono(tail@, 0, k as int); } //@w
                                        kb = 1; ovf = true; //@w
                                        lemma_off_base(tail@); //@w
                                        assert(sw(tail@.take(1)) <= 2) by { reveal(sw); lemma_sw_take_succ(tail@, 0); assert(tail@.take(0) =~= Seq::<char>::empty()); } //@w
                                    } //@w
                                    break;
                                } else {
                                    return Err(TooNarrow);
                                }
                            }
                            split_idx = idx;
                            proof { //@w
                                kb = k as int; //@w
                                if k == 0 { assert(idx == 0); } //@w
                            } //@w
                            break;
                        }
                    }
                    proof { //@w
                        assert(0 <= kb <= tail@.len()); //@w
                        assert(split_idx == off(tail@, kb)); //@w
                        assert(wpos == wpos0 + sw(tail@.take(kb))); //@w
                        // the piece is maximal: the character after it no longer fits on the line (C04: "cut into maximal pieces") //@w
                        assert(!ovf ==> kb < tail@.len() && sw(tail@.take(kb + 1)) > ll0); //@w @C04 #hard_wrap_piece_is_maximal
                        lemma_split(chars, cpos, kb, tail@); //@w
                        axiom_string_len_bound(chars); //@w
                        if ovf { lemma_sw_take_succ(tail@, 0); assert(tail@.take(0) =~= Seq::<char>::empty()); } //@w
                    } //@w
                    let ghost v0 = self.line.v@; //@w
                    let ghost t0 = self.text@; //@w
                    self.line.push(Str(TaggedString {
                        s: str_range(&piece.s, bpos, bpos + split_idx),
                        tag: piece.tag.clone(),
                    }));
                    bpos += split_idx;
                    proof { //@w
                        let sub = chars.subrange(cpos, cpos + kb); //@w
                        lemma_piece_pushed(t0, v0, self.line.v@, sub, piece.tag); //@w
                        assert(chars.take(cpos + kb) =~= chars.take(cpos) + sub); //@w
                        lemma_flat_str_concat(chars.take(cpos), sub, piece.tag); //@w
                        lemma_ns_concat(flat_str(chars.take(cpos), piece.tag), flat_str(sub, piece.tag)); //@w
                    } //@w
                    proof { cpos = cpos + kb; } //@w
                    self.force_flush_line();
                    lineleft = self.width;
                } //@w
                proof { //@w
                    lemma_split(chars, cpos, 0, chars.skip(cpos)); //@w
                    if cpos > 0 { lemma_off_mono(chars, 0, cpos); } //@w
                    assert(chars.take(0) =~= Seq::<char>::empty()); //@w
                }
                let ghost v1 = self.line.v@; //@w
                let ghost t1 = self.text@; //@w
                if bpos == 0 {
                    self.line.push(Str(piece));
                    lineleft -= w;
                    proof { //@w
                        assert(cpos == 0); //@w
                        lemma_piece_pushed(t1, v1, self.line.v@, chars, piece.tag); //@w
                    } //@w
                } else if bpos < piece.s.len() {
                    self.line.push(Str(TaggedString {
                        s: str_from(&piece.s, bpos),
                        tag: piece.tag,
                    }));
                    lineleft -= w.saturating_sub(wpos);
                    proof { //@w
                        let sub = chars.skip(cpos); //@w
                        lemma_piece_pushed(t1, v1, self.line.v@, sub, piece.tag); //@w
                        assert(chars =~= chars.take(cpos) + sub); //@w
                        lemma_flat_str_concat(chars.take(cpos), sub, piece.tag); //@w
                        lemma_ns_concat(flat_str(chars.take(cpos), piece.tag), flat_str(sub, piece.tag)); //@w
                    } //@w
                }
                else { //@w
                    proof { //@w
                        // every byte of the piece has been emitted: cpos is the end of the string //@w
                        lemma_off_end(chars, cpos); //@w
                        assert(chars.take(cpos) =~= chars); //@w
                    } //@w
                } //@w
                assert(content(self.text@, self.line.v@) =~= cpre + ns(flat_elt(items@[it.index@]))); //@w @C03 #hw_piece_kept
            } else {
                let ghost v2 = self.line.v@; //@w
                let ghost t2 = self.text@; //@w
                // Keep zero-width markers (fragment starts) with the text
                // which follows them.
                self.line.push(element);
                proof { lemma_content_append(t2, v2, self.line.v@, flat_elt(items@[it.index@])); } //@w
            }
        }
        proof { assert(items@.take(items@.len() as int) =~= items@); } //@w
        Ok(())
    }
//@end
//@item src/render/text_renderer.rs :: impl WrappedBlock :: fn flush_line
//@auto C01 C02 C11
    fn flush_line(&mut self)
        requires old(self).inv_nw(), tag_ok::<T>(), //@w
        ensures //@w
            final(self).inv_wf(), final(self).inv_ws(), final(self).inv_bound(), //@w @C01 #fl_inv
            final(self).inv_out(), //@w @C02 #fl_out
            final(self).inv_fit(), //@w @C02 #fl_fit
            final(self).line.len == 0, //@w @C02 #fl_line_len0
            no_str(final(self).line.v@), //@w @C04 #fl_line_no_text
            content(final(self).text@, final(self).line.v@) =~= content(old(self).text@, old(self).line.v@), //@w @C03 @C14 #fl_keeps_content
            final(self).frame(old(self)), //@w @C02 @C15 #fl_frame
            final(self).wslen == old(self).wslen, final(self).wordlen == old(self).wordlen, final(self).word == old(self).word, //@w @C03 #fl_keeps_word
            final(self).spacetag == old(self).spacetag, final(self).pre_wrapped == old(self).pre_wrapped, //@w @C12 #fl_keeps_state
            no_str(old(self).line.v@) ==> final(self).text@ == old(self).text@ && final(self).line == old(self).line, //@w @C04 @C14 #fl_empty_noop
            !no_str(old(self).line.v@) ==> final(self).text@.len() == old(self).text@.len() + 1 && final(self).text@.drop_last() == old(self).text@ && final(self).line.v@.len() == 0, //@w @C04 @C03 #fl_emits_one
            old(self).line.len > 0 ==> final(self).text@.len() == old(self).text@.len() + 1, //@w @C04 #fl_nonempty_emits
            !no_str(old(self).line.v@) ==> final(self).text@.last().len == (if old(self).pad_blocks { old(self).width } else { old(self).line.len }), //@w @C15 @C02 #fl_len_padded
    {
        proof { if no_str(self.line.v@) { lemma_no_str_cwid(self.line.v@); } } //@w
        if !self.line.is_empty() {
            self.force_flush_line();
        }
    }
//@end
//@item src/render/text_renderer.rs :: impl WrappedBlock :: fn force_flush_line
//@auto C01 C02 C11
    fn force_flush_line(&mut self)
        requires //@w
            old(self).inv_base(), tag_ok::<T>(), //@w
            old(self).line_fits(old(self).line), //@w @C02 @C11 #emitted_line_fits
        ensures //@w
            final(self).inv_wf(), final(self).inv_ws(), final(self).inv_bound(), //@w @C01 #ffl_inv
            final(self).inv_out(), //@w @C02 #ffl_out
            final(self).inv_fit(), //@w @C02 #ffl_fit
            final(self).line.len == 0, final(self).line.v@.len() == 0, //@w @C03 #ffl_line_empty
            final(self).frame(old(self)), //@w @C02 @C15 #ffl_frame
            final(self).wslen == old(self).wslen, final(self).wordlen == old(self).wordlen, final(self).word == old(self).word, //@w @C03 #ffl_keeps_word
            final(self).spacetag == old(self).spacetag, final(self).pre_wrapped == old(self).pre_wrapped, //@w @C12 #ffl_keeps_state
            final(self).text@.len() == old(self).text@.len() + 1, //@w @C12 @C04 #ffl_one_line
            final(self).text@.drop_last() == old(self).text@, //@w @C03 #ffl_keeps_text
            content(final(self).text@, final(self).line.v@) =~= content(old(self).text@, old(self).line.v@), //@w @C03 @C14 #ffl_keeps_content
            final(self).text@.last().len == (if old(self).pad_blocks && old(self).width > old(self).line.len { old(self).width } else { old(self).line.len }), //@w @C15 @C02 #ffl_len_padded
            !old(self).pad_blocks ==> final(self).text@.last() == old(self).line, //@w @C03 @C15 #ffl_line_moved
            old(self).pad_blocks ==> exists|t: T| flat(final(self).text@.last().v@) =~= flat(old(self).line.v@) + #[trigger] flat_str(spaces(padn(old(self).width, old(self).line.len)), t), //@w @C03 @C11 @C15 #ffl_pad_only_spaces
    {
        let mut tmp_line = TaggedLine::new();
        mem::swap(&mut tmp_line, &mut self.line);
        if self.pad_blocks {
            let tmp_tag;
            let tag = if let Some(st) = self.spacetag.as_ref() {
                st
            } else {
                tmp_tag = Default::default();
                &tmp_tag
            };
            tmp_line.pad_to(self.width, tag);
            proof { //@w
                assert(flat(tmp_line.v@) =~= flat(old(self).line.v@) + flat_str(spaces(padn(old(self).width, old(self).line.len)), *tag)); //@w
                lemma_ns_spaces(padn(old(self).width, old(self).line.len), *tag); //@w
                lemma_ns_concat(flat(old(self).line.v@), flat_str(spaces(padn(old(self).width, old(self).line.len)), *tag)); //@w
            } //@w
        }
        proof { lemma_content_flush(self.text@, tmp_line, old(self).line.v@); assert(self.line.v@ =~= Seq::<TaggedLineElement<T>>::empty()); assert(self.text@ == old(self).text@); } //@w
        self.text.push(tmp_line);
    }
//@end
//@item src/render/text_renderer.rs :: impl WrappedBlock :: fn add_text
//@sub /\) -> Result<\(\)>/ ==> ) -> (r: Result<()>)
//@sub /for c in text\.chars\(\)/ ==> for c in it: text.chars()
//@sub 2 /c\.is_whitespace\(\)/ ==> char_is_ws(c)
//@auto C01 C02 C12 C11
    #[verifier::loop_isolation(false)] //@w
    #[verifier::rlimit(800)] //@w
    fn add_text(
        &mut self,
        text: &str,
        ws_mode: WhiteSpace,
        main_tag: &T,
        wrap_tag: &T,
    ) -> (r: Result<()>)
        requires old(self).inv(), tag_ok::<T>(), //@w
            old(self).width >= 1, //@w #width_ge_1
            text@.len() <= 0x1000_0000_0000_0000, old(self).wslen + old(self).wordlen + old(self).width + old(self).word.len + 4 * text@.len() <= 0x4000_0000_0000_0000, //@w
        ensures //@w
            final(self).inv_wf(), final(self).inv_ws(), final(self).inv_bound(), //@w @C01 #at_inv
            final(self).inv_out(), //@w @C02 @C11 @C12 #at_out
            final(self).inv_fit(), //@w @C02 @C12 #at_fit
            r.is_ok() ==> final(self).inv_word(), //@w @C04 #at_word_inv
            final(self).frame(old(self)), //@w @C02 @C15 #at_frame
            old(self).allow_overflow ==> r.is_ok(), //@w @C11 #at_overflow_ok
            final(self).text@.len() >= old(self).text@.len(), final(self).text@.take(old(self).text@.len() as int) =~= old(self).text@, //@w @C03 #at_keeps_emitted_lines
            final(self).total() <= old(self).total() + 4 * text@.len(), //@w @C01 #at_growth_bound
            // L2 (C03, C09, C16): the block gains exactly the kept characters of `text` (everything but white space and characters //@w
            // without a display width), in order, after what it already held, each tagged with main_tag or wrap_tag; nothing is lost, //@w
            // duplicated or reordered by wrapping //@w
            r.is_ok() ==> appended_b(all_ns(old(self).text@, old(self).line.v@, old(self).word.v@), final(self).text@, final(self).line.v@, final(self).word.v@, kept(text@), *main_tag, *wrap_tag), //@w @C03 @C09 @C16 #text_appended_in_order_tagged
    {
        hide(sw); hide(cwid); hide(off); hide(flat); hide(flat_str); hide(flat_elt); hide(spaces); hide(lines_wf); hide(lines_fit); hide(ns); hide(lines_flat); hide(no_str); hide(kept); hide(all_ws); //@w
        html_trace!("WrappedBlock::add_text({}), {:?}", text, main_tag);
        // We walk character by character.
        // 1. First, build up whitespace columns in self.wslen
        //    - In normal mode self.wslen will always be 0 or 1
        //    - If wslen > 0, then self.spacetag will always be set.
        // 2. Next build up a word (non-whitespace).
        // 2a. If the word gets too long for the line
        // 2b. If we get to more whitespace, output the first whitespace and the word
        //     and continue.
        let mut tag = if self.pre_wrapped { wrap_tag } else { main_tag };
        let ghost mut acc: Seq<CItem<T>> = Seq::empty(); //@w
        let ghost mut cs: Seq<char> = Seq::empty(); //@w
        proof { lemma_tagged_empty(*main_tag, *wrap_tag); assert(text@.take(0) =~= Seq::<char>::empty()); lemma_kept_empty(); } //@w
        let ghost base = all_ns(self.text@, self.line.v@, self.word.v@); //@w
        for c in it: text.chars()
            invariant //@w
                *tag == *main_tag || *tag == *wrap_tag, cs == kept(text@.take(it.index@)), //@w
                base == all_ns(old(self).text@, old(self).line.v@, old(self).word.v@), tagged_by(acc, cs, *main_tag, *wrap_tag), //@w
                all_ns(self.text@, self.line.v@, self.word.v@) =~= base + acc, //@w @C03 @C09 @C16 #content_so_far
                self.inv(), tag_ok::<T>(), self.frame(old(self)), self.width >= 1, //@w
                self.wslen + self.wordlen + self.width + self.word.len + 4 * (text@.len() - it.index@) <= 0x4000_0000_0000_0000, //@w
                self.total() + 4 * (text@.len() - it.index@) <= old(self).total() + 4 * text@.len(), //@w
                0 <= it.index@ <= text@.len(), //@w
                self.text@.len() >= old(self).text@.len(), self.text@.take(old(self).text@.len() as int) =~= old(self).text@, //@w
        {
            html_trace!(
                "c = {:?} word={:?} linelen={} wslen={} line={:?}",
                c,
                self.word,
                self.line.len,
                self.wslen,
                self.line
            );
            assert(c == text@[it.index@]); //@w
            let ghost pre = *self; //@w
            if char_is_ws(c) && self.wordlen > 0 {
                self.flush_word(ws_mode)?;
            }
            let ghost mid = *self; //@w

            if char_is_ws(c) {
                // We're just building up whitespace.
                if ws_mode.preserve_whitespace() {
                    match c {
                        '\n' => {
                            // End of line.  We have no words here, so just finish
                            // the line.
                            self.force_flush_line();
                            self.wslen = 0;
                            self.spacetag = None;
                            self.pre_wrapped = false;
                            // Hard new line, so back to main tag.
                            tag = main_tag;
                            // newline rule (C12): exactly one line is emitted (blank lines kept), pending space dropped //@w
                            assert(self.text@.len() == mid.text@.len() + 1 && self.text@.drop_last() == mid.text@); //@w @C12 #newline_emits_one_line
                            assert(self.wslen == 0 && self.line.v@.len() == 0 && !self.pre_wrapped && tag == main_tag); //@w @C12 #newline_resets
                        }
                        '\t' => {
                            let tab_stop = 8;
                            let mut pos = self.line.len + self.wslen;
                            let mut at_least_one_space = false;
                            let ghost mut wrapped = false; //@w
                            let ghost pos0 = pos; //@w
                            while pos % tab_stop != 0 || !at_least_one_space
                                invariant //@w
                                    all_ns(self.text@, self.line.v@, self.word.v@) =~= base + acc, //@w @C03 #tab_keeps_content
                                    self.inv(), tag_ok::<T>(), self.frame(old(self)), self.width >= 1, //@w
                                    self.text@.len() >= old(self).text@.len(), self.text@.take(old(self).text@.len() as int) =~= old(self).text@, //@w
                                    self.line.len <= pos, pos <= 0x4000_0000_0000_0000, tab_stop == 8, //@w
                                    !wrapped ==> pos == self.line.len + self.wslen && pos >= pos0 && pos <= pos0 - pos0 % 8 + 8 && (pos > pos0) == at_least_one_space && self.text == mid.text, //@w
                                    self.wslen == mid.wslen, self.word == mid.word, //@w
                                    self.wslen + self.wordlen + self.width + self.word.len + 4 * (text@.len() - it.index@) <= 0x4000_0000_0000_0000, //@w
                                    self.total() + 4 * (text@.len() - it.index@) <= old(self).total() + 4 * text@.len(), //@w
                                decreases //@w
                                    (if at_least_one_space { 0int } else { 1int }), //@w
                                    (if !at_least_one_space && pos >= self.width { 1int } else { 0int }), //@w
                                    (if pos % 8 == 0 { 0int } else { 8 - pos % 8 }), //@w
                            {
                                let ghost tb = *self; //@w
                                if pos >= self.width {
                                    self.flush_line();
                                    pos = 0;
                                    proof { wrapped = true; } //@w
                                } else {
                                    proof { axiom_cw_space(); } //@w
                                    self.line.push_char(' ', tag);
                                    proof { lemma_space_pushed(self.text@, tb.line.v@, self.line.v@, *tag); } //@w
                                    pos += 1;
                                    at_least_one_space = true;
                                }
                            }
                            // tab rule (C12): unless the line had to be broken, the column (text + pending spaces) advances //@w
                            // to the next multiple of 8, by at least one and at most eight columns //@w
                            assert(!wrapped ==> (self.line.len + self.wslen) % 8 == 0 && self.line.len + self.wslen > pos0 && self.line.len + self.wslen - pos0 <= 8); //@w @C12 #tab_next_stop
                            assert(!wrapped ==> self.text == mid.text); //@w @C12 #tab_no_line_emitted
                        }
                        _ => {
                            if let Some(cwidth) = UnicodeWidthChar::width(c) {
                                if (self.line.len + self.wslen + cwidth) > self.width {
                                    // In any case we can discard whitespace we've
                                    // built up, as it will be at the end of the line.
                                    self.wslen = 0;

                                    self.flush_line();
                                    if ws_mode.do_wrap() {
                                        // We're handling wrapping, so collapse
                                        self.pre_wrapped = false;
                                    } else {
                                        // Manual wrapping, keep the space.
                                        self.wslen += cwidth;
                                        self.spacetag = Some(tag.clone());
                                        self.pre_wrapped = true;
                                    }
                                } else {
                                    self.spacetag = Some(tag.clone());
                                    self.wslen += cwidth;
                                }
                            }
                        }
                    }
                } else {
                    // If not preserving whitespace, everything is collapsed,
                    // and the line won't start with whitespace.
                    if self.line.len > 0 && self.wslen == 0 {
                        self.spacetag = Some(tag.clone());
                        self.wslen = 1;
                    }
                    // collapse rule (C04, C13): any collapsible whitespace character only records ONE pending space, //@w
                    // and only when the line already has text and no space is pending; nothing else changes //@w
                    assert(self.wslen == collapse_ws(mid.line.len, mid.wslen)); //@w @C04 @C13 #collapse_rule
                    assert(self.text == mid.text && self.line == mid.line && self.word == mid.word && self.wordlen == mid.wordlen && self.pre_wrapped == mid.pre_wrapped); //@w @C04 @C13 #collapse_frame
                    assert(self.wslen > mid.wslen ==> self.spacetag == Some(*tag)); //@w @C09 @C13 #collapse_space_tag
                }
            } else {
                // Non-whitespace character: add to the current word.
                if let Some(cwidth) = UnicodeWidthChar::width(c) {
                    self.wordlen += cwidth;
                    // Special case: detect wrapping preformatted line to switch
                    // the tag.
                    if ws_mode == WhiteSpace::Pre
                        && (self.line.len + self.wslen + self.wordlen > self.width)
                    {
                        self.pre_wrapped = true;
                        tag = wrap_tag;
                    }
                    self.word.push_char(c, tag);
                    proof { //@w[
                        axiom_space_is_ws();
                        lemma_char_pushed(mid.word.v@, self.word.v@, c, *tag, acc, cs, *main_tag, *wrap_tag);
                        let x = CItem::Ch(c, *tag);
                        assert(all_ns(self.text@, self.line.v@, self.word.v@) =~= all_ns(mid.text@, mid.line.v@, mid.word.v@).push(x));
                        assert((base + acc).push(x) =~= base + acc.push(x));
                        acc = acc.push(x);
                        cs = cs.push(c);
                    } //@w]
                }
            }
            proof { lemma_kept_step(text@, it.index@); } //@w
        }
        proof { assert(text@.take(text@.len() as int) =~= text@); assert(cs == kept(text@)); assert(tagged_by(acc, kept(text@), *main_tag, *wrap_tag)); //@w
                assert(appended_b(base, self.text@, self.line.v@, self.word.v@, kept(text@), *main_tag, *wrap_tag)); } //@w
        Ok(())
    }
//@end

//@item src/render/text_renderer.rs :: impl WrappedBlock :: fn flush
//@sub /-> Result<\(\)>/ ==> -> (r: Result<()>)
//@auto C01 C02
    fn flush(&mut self) -> (r: Result<()>)
        requires old(self).inv(), tag_ok::<T>(), //@w
            old(self).width >= 1, //@w #width_ge_1
        ensures //@w
            final(self).inv_wf(), final(self).inv_ws(), final(self).inv_bound(), //@w @C01 #flush_inv
            final(self).inv_out(), //@w @C02 @C11 #flush_out
            final(self).inv_fit(), //@w @C02 #flush_fit
            final(self).frame(old(self)), //@w @C02 @C15 #flush_frame
            old(self).allow_overflow ==> r.is_ok(), //@w @C11 #flush_overflow_ok
            r.is_ok() ==> final(self).inv_word() && final(self).wordlen == 0 && no_str(final(self).word.v@) && no_str(final(self).line.v@) && final(self).line.len == 0, //@w @C03 @C04 #flush_everything_emitted
            final(self).text@.len() >= old(self).text@.len(), final(self).text@.take(old(self).text@.len() as int) =~= old(self).text@, //@w @C03 #flush_keeps_emitted_lines
            r.is_ok() ==> keeps_all(old(self).text@, old(self).line.v@, old(self).word.v@, final(self).text@, final(self).line.v@, final(self).word.v@), //@w @C03 @C14 #flush_keeps_content
            r.is_ok() && !no_str(old(self).word.v@) ==> final(self).word.v@.len() == 0, //@w @C03 @C14 #flush_word_emptied
            no_str(old(self).word.v@) ==> final(self).word == old(self).word, //@w @C14 #flush_keeps_marker_word
    {
        self.flush_word(WhiteSpace::Normal)?;
        self.flush_line();
        Ok(())
    }
//@end

//@item src/render/text_renderer.rs :: impl WrappedBlock :: fn into_lines
//@sub /-> Result<Vec<TaggedLine<T>>>/ ==> -> (r: Result<Vec<TaggedLine<T>>>)
//@sub /fn into_lines\(mut self\)/ ==> fn into_lines(self)
//@sub /self\.flush\(\)\?;/ ==> let mut this = self;\n        this.flush()?;
//@sub /self\.text\.last_mut\(\)/ ==> this.text.last_mut()
//@sub /&mut self\.line/ ==> &mut this.line
//@sub /Ok\(self\.text\)/ ==> Ok(this.text)
//@auto C01 C02
    fn into_lines(self) -> (r: Result<Vec<TaggedLine<T>>>)
        requires self.inv(), tag_ok::<T>(), //@w
            self.width >= 1, //@w #width_ge_1
        ensures //@w
            self.allow_overflow ==> r.is_ok(), //@w @C11 #into_lines_overflow_ok
            // every line handed to the renderer is at most `width` columns wide (C02), or a single over-wide character when overflow is allowed (C11) //@w
            r matches Ok(lines) ==> forall|i: int| 0 <= i < lines@.len() ==> (#[trigger] lines@[i]).wf() && self.line_fits(lines@[i]), //@w @C02 @C11 #block_lines_fit
            r matches Ok(lines) ==> lines@.len() >= self.text@.len() && (forall|i: int| 0 <= i < self.text@.len() - 1 ==> lines@[i] == self.text@[i]) //@w @C03 #into_lines_keeps_emitted
                && (self.text@.len() > 0 ==> lines@[self.text@.len() - 1].len == self.text@.last().len), //@w @C03 #into_lines_keeps_emitted
            // the lines returned carry every character of the block (finished lines, current line, current word), in order, each once (C03, C09); //@w
            // what may be missing is at most fragment markers (`rest`) //@w
            r matches Ok(lines) ==> exists|rest: Seq<CItem<T>>| #[trigger] only_frags(rest) && ns(lines_flat(lines@)) + rest =~= all_ns(self.text@, self.line.v@, self.word.v@), //@w @C03 @C09 #block_text_reaches_lines
            // and not even markers once trailing markers have been taken out of the word (take_trailing_fragments) and there is a line to carry them (C14) //@w
            r matches Ok(lines) ==> lines@.len() > 0 && (no_str(self.word.v@) ==> self.word.v@.len() == 0) ==> //@w @C14 #block_markers_reach_lines
                ns(lines_flat(lines@)) =~= all_ns(self.text@, self.line.v@, self.word.v@), //@w @C14 #block_markers_reach_lines
    {
        let mut this = self;
        this.flush()?;
        let ghost f = this; //@w
        proof { //@w
            lemma_no_str_cwid(f.line.v@); lemma_no_str_flat(f.line.v@); lemma_no_str_flat(f.word.v@); //@w
            reveal(content); //@w
            lemma_ns_concat(lines_flat(f.text@), flat(f.line.v@)); //@w
        } //@w
        // Zero-width markers with no text after them stay with the last line.
        if let Some(last) = this.text.last_mut() {
            last.consume(&mut this.line);
        }
        proof { //@w
            let n = f.text@.len() as int; //@w
            let x = lines_flat(f.text@) + flat(f.line.v@); //@w
            let y = lines_flat(f.text@); //@w
            let got = lines_flat(this.text@); //@w
            if n > 0 { assert(this.text@.drop_last() =~= f.text@.drop_last()); } else { assert(this.text@ =~= f.text@); } //@w @C03 @C14 #finished_lines_kept
            // characters (C03): the finished lines are returned, with or without the markers left in the current line //@w
            assert(got =~= x || got =~= y); //@w @C03 @C14 #finished_lines_kept
            if got =~= x { //@w
                assert(ns(got) =~= content(f.text@, f.line.v@)); //@w
                assert(only_frags(ns(flat(f.word.v@)))); //@w
                assert(ns(got) + ns(flat(f.word.v@)) =~= all_ns(f.text@, f.line.v@, f.word.v@)); //@w
            } else { //@w
                let rest = ns(flat(f.line.v@)) + ns(flat(f.word.v@)); //@w
                assert(only_frags(rest)); //@w
                assert(ns(got) + rest =~= all_ns(f.text@, f.line.v@, f.word.v@)); //@w
            } //@w
            // markers (C14): those left in the current line after the last text join the last line //@w
            if n > 0 { //@w
                assert(got =~= x); //@w @C14 #markers_left_in_line_join_last_line
                if no_str(self.word.v@) ==> self.word.v@.len() == 0 { //@w
                    assert(f.word.v@.len() == 0); //@w
                    assert(ns(flat(f.word.v@)) =~= Seq::<CItem<T>>::empty()); //@w
                } //@w
            } //@w
        } //@w

        Ok(this.text)
    }
//@end

//@item src/render/text_renderer.rs :: impl WrappedBlock :: fn add_element
//@auto C01 C14
    fn add_element(&mut self, elt: TaggedLineElement<T>)
        requires old(self).inv(), tag_ok::<T>(), //@w
            ew(elt) == 0 && elt_some(elt), //@w #only_zero_width_elements
        ensures //@w
            final(self).inv(), //@w @C14 @C02 #marker_has_no_width
            flat(final(self).word.v@) =~= flat(old(self).word.v@) + flat_elt(elt), //@w @C14 #marker_recorded_in_word
            final(self).text == old(self).text && final(self).line == old(self).line && final(self).wslen == old(self).wslen && final(self).wordlen == old(self).wordlen && final(self).spacetag == old(self).spacetag && final(self).pre_wrapped == old(self).pre_wrapped, //@w @C14 #marker_changes_nothing_else
            final(self).frame(old(self)), //@w @C15
    {
        self.word.push(elt);
    }
//@end

//@item src/render/text_renderer.rs :: impl WrappedBlock :: fn text_len
//@sub /-> usize/ ==> -> (r: usize)
//@auto C01
    fn text_len(&self) -> (r: usize)
        requires self.inv_bound(), self.text@.len() <= 0x4000_0000_0000_0000, //@w
        ensures r == self.text@.len() + self.line.len + self.wordlen, //@w @C13 #text_len
    {
        self.text.len() + self.line.len + self.wordlen
    }
//@end

//@item src/render/text_renderer.rs :: impl WrappedBlock :: fn is_empty
//@sub /-> bool/ ==> -> (r: bool)
//@auto C01
    fn is_empty(&self) -> (r: bool)
        requires self.inv_bound(), self.text@.len() <= 0x4000_0000_0000_0000, //@w
        ensures r == (self.text@.len() == 0 && self.line.len == 0 && self.wordlen == 0), //@w @C13 #wb_is_empty
    {
        self.text_len() == 0
    }
//@end

//@item src/render/text_renderer.rs :: impl WrappedBlock :: fn take_trailing_fragments
//@sub /-> Vec<TaggedLineElement<T>>/ ==> -> (r: Vec<TaggedLineElement<T>>)
//@sub /std::mem::take\(&mut self\.word\)\.v/ ==> tl_take_items(&mut self.word)
//@sub /Default::default\(\)/ ==> Vec::new()
//@auto C01 C14
    fn take_trailing_fragments(&mut self) -> (r: Vec<TaggedLineElement<T>>)
        requires old(self).inv(), //@w
        ensures //@w
            // markers recorded after the last word are handed back (to become pending), never dropped (C14) //@w
            no_str(old(self).word.v@) ==> r@ == old(self).word.v@ && final(self).word.v@.len() == 0, //@w @C14 #trailing_markers_returned
            !no_str(old(self).word.v@) ==> r@.len() == 0 && final(self).word == old(self).word, //@w @C14 @C03 #word_with_text_untouched
            no_str(r@), //@w @C14
            final(self).inv(), //@w @C02
            final(self).text == old(self).text && final(self).line == old(self).line && final(self).wslen == old(self).wslen && final(self).wordlen == old(self).wordlen && final(self).spacetag == old(self).spacetag, //@w @C03
            final(self).frame(old(self)), //@w @C15
    {
        proof { if no_str(self.word.v@) { lemma_no_str_cwid(self.word.v@); } } //@w
        if self.word.is_empty() {
            tl_take_items(&mut self.word)
        } else {
            Vec::new()
        }
    }
//@end
}
//@export-end
} // verus!
fn main() {}
