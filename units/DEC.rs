//@unit DEC — built-in decorators (src/render/text_renderer.rs:1803-2103): TrivialDecorator returns nothing but document text
use vstd::prelude::*;
macro_rules! html_trace { ($($t:tt)*) => {} }
macro_rules! html_trace_quiet { ($($t:tt)*) => {} }
verus! {
struct TrivialDecorator { x: u8 }
// `"".to_string()` / `title.to_string()` (A3)
#[verifier::external_body]
fn str_to_string(s: &str) -> (r: String) ensures r@ == s@ { s.to_string() }

impl TrivialDecorator {
//@item src/render/text_renderer.rs :: impl TextDecorator for TrivialDecorator :: fn decorate_link_start
//@sub /-> \(String, Self::Annotation\)/ ==> -> (r: (String, ()))
//@sub /-> String/ ==> -> (r: String)
//@sub * /"([^"]*)"\.to_string\(\)/ ==> str_to_string("\1")
//@sub /title\.to_string\(\)/ ==> str_to_string(title)
//@auto C01 C16
    fn decorate_link_start(&mut self, _url: &str) -> (r: (String, ()))
        ensures r.0@.len() == 0, //@w @C16 #trivial_returns_nothing
    {
        proof { reveal_strlit(""); } //@w
        (str_to_string(""), ())
    }
//@end
//@item src/render/text_renderer.rs :: impl TextDecorator for TrivialDecorator :: fn decorate_link_end
//@sub /-> \(String, Self::Annotation\)/ ==> -> (r: (String, ()))
//@sub /-> String/ ==> -> (r: String)
//@sub * /"([^"]*)"\.to_string\(\)/ ==> str_to_string("\1")
//@sub /title\.to_string\(\)/ ==> str_to_string(title)
//@auto C01 C16
    fn decorate_link_end(&mut self) -> (r: String)
        ensures r@.len() == 0, //@w @C16 #trivial_returns_nothing
    {
        proof { reveal_strlit(""); } //@w
        str_to_string("")
    }
//@end
//@item src/render/text_renderer.rs :: impl TextDecorator for TrivialDecorator :: fn decorate_em_start
//@sub /-> \(String, Self::Annotation\)/ ==> -> (r: (String, ()))
//@sub /-> String/ ==> -> (r: String)
//@sub * /"([^"]*)"\.to_string\(\)/ ==> str_to_string("\1")
//@sub /title\.to_string\(\)/ ==> str_to_string(title)
//@auto C01 C16
    fn decorate_em_start(&self) -> (r: (String, ()))
        ensures r.0@.len() == 0, //@w @C16 #trivial_returns_nothing
    {
        proof { reveal_strlit(""); } //@w
        (str_to_string(""), ())
    }
//@end
//@item src/render/text_renderer.rs :: impl TextDecorator for TrivialDecorator :: fn decorate_em_end
//@sub /-> \(String, Self::Annotation\)/ ==> -> (r: (String, ()))
//@sub /-> String/ ==> -> (r: String)
//@sub * /"([^"]*)"\.to_string\(\)/ ==> str_to_string("\1")
//@sub /title\.to_string\(\)/ ==> str_to_string(title)
//@auto C01 C16
    fn decorate_em_end(&self) -> (r: String)
        ensures r@.len() == 0, //@w @C16 #trivial_returns_nothing
    {
        proof { reveal_strlit(""); } //@w
        str_to_string("")
    }
//@end
//@item src/render/text_renderer.rs :: impl TextDecorator for TrivialDecorator :: fn decorate_strong_start
//@sub /-> \(String, Self::Annotation\)/ ==> -> (r: (String, ()))
//@sub /-> String/ ==> -> (r: String)
//@sub * /"([^"]*)"\.to_string\(\)/ ==> str_to_string("\1")
//@sub /title\.to_string\(\)/ ==> str_to_string(title)
//@auto C01 C16
    fn decorate_strong_start(&self) -> (r: (String, ()))
        ensures r.0@.len() == 0, //@w @C16 #trivial_returns_nothing
    {
        proof { reveal_strlit(""); } //@w
        (str_to_string(""), ())
    }
//@end
//@item src/render/text_renderer.rs :: impl TextDecorator for TrivialDecorator :: fn decorate_strong_end
//@sub /-> \(String, Self::Annotation\)/ ==> -> (r: (String, ()))
//@sub /-> String/ ==> -> (r: String)
//@sub * /"([^"]*)"\.to_string\(\)/ ==> str_to_string("\1")
//@sub /title\.to_string\(\)/ ==> str_to_string(title)
//@auto C01 C16
    fn decorate_strong_end(&self) -> (r: String)
        ensures r@.len() == 0, //@w @C16 #trivial_returns_nothing
    {
        proof { reveal_strlit(""); } //@w
        str_to_string("")
    }
//@end
//@item src/render/text_renderer.rs :: impl TextDecorator for TrivialDecorator :: fn decorate_strikeout_start
//@sub /-> \(String, Self::Annotation\)/ ==> -> (r: (String, ()))
//@sub /-> String/ ==> -> (r: String)
//@sub * /"([^"]*)"\.to_string\(\)/ ==> str_to_string("\1")
//@sub /title\.to_string\(\)/ ==> str_to_string(title)
//@auto C01 C16
    fn decorate_strikeout_start(&self) -> (r: (String, ()))
        ensures r.0@.len() == 0, //@w @C16 #trivial_returns_nothing
    {
        proof { reveal_strlit(""); } //@w
        (str_to_string(""), ())
    }
//@end
//@item src/render/text_renderer.rs :: impl TextDecorator for TrivialDecorator :: fn decorate_strikeout_end
//@sub /-> \(String, Self::Annotation\)/ ==> -> (r: (String, ()))
//@sub /-> String/ ==> -> (r: String)
//@sub * /"([^"]*)"\.to_string\(\)/ ==> str_to_string("\1")
//@sub /title\.to_string\(\)/ ==> str_to_string(title)
//@auto C01 C16
    fn decorate_strikeout_end(&self) -> (r: String)
        ensures r@.len() == 0, //@w @C16 #trivial_returns_nothing
    {
        proof { reveal_strlit(""); } //@w
        str_to_string("")
    }
//@end
//@item src/render/text_renderer.rs :: impl TextDecorator for TrivialDecorator :: fn decorate_code_start
//@sub /-> \(String, Self::Annotation\)/ ==> -> (r: (String, ()))
//@sub /-> String/ ==> -> (r: String)
//@sub * /"([^"]*)"\.to_string\(\)/ ==> str_to_string("\1")
//@sub /title\.to_string\(\)/ ==> str_to_string(title)
//@auto C01 C16
    fn decorate_code_start(&self) -> (r: (String, ()))
        ensures r.0@.len() == 0, //@w @C16 #trivial_returns_nothing
    {
        proof { reveal_strlit(""); } //@w
        (str_to_string(""), ())
    }
//@end
//@item src/render/text_renderer.rs :: impl TextDecorator for TrivialDecorator :: fn decorate_code_end
//@sub /-> \(String, Self::Annotation\)/ ==> -> (r: (String, ()))
//@sub /-> String/ ==> -> (r: String)
//@sub * /"([^"]*)"\.to_string\(\)/ ==> str_to_string("\1")
//@sub /title\.to_string\(\)/ ==> str_to_string(title)
//@auto C01 C16
    fn decorate_code_end(&self) -> (r: String)
        ensures r@.len() == 0, //@w @C16 #trivial_returns_nothing
    {
        proof { reveal_strlit(""); } //@w
        str_to_string("")
    }
//@end
//@item src/render/text_renderer.rs :: impl TextDecorator for TrivialDecorator :: fn decorate_image
//@sub /-> \(String, Self::Annotation\)/ ==> -> (r: (String, ()))
//@sub /-> String/ ==> -> (r: String)
//@sub * /"([^"]*)"\.to_string\(\)/ ==> str_to_string("\1")
//@sub /title\.to_string\(\)/ ==> str_to_string(title)
//@auto C01 C16
    fn decorate_image(&mut self, _src: &str, title: &str) -> (r: (String, ()))
        ensures r.0@ == title@, //@w @C16 #trivial_image_is_document_text
    {
        // FIXME: this should surely be the alt text, not the title text
        (str_to_string(title), ())
    }
//@end
//@item src/render/text_renderer.rs :: impl TextDecorator for TrivialDecorator :: fn header_prefix
//@sub /-> \(String, Self::Annotation\)/ ==> -> (r: (String, ()))
//@sub /-> String/ ==> -> (r: String)
//@sub * /"([^"]*)"\.to_string\(\)/ ==> str_to_string("\1")
//@sub /title\.to_string\(\)/ ==> str_to_string(title)
//@auto C01 C16
    fn header_prefix(&self, _level: usize) -> (r: String)
        ensures r@.len() == 0, //@w @C16 #trivial_returns_nothing
    {
        proof { reveal_strlit(""); } //@w
        str_to_string("")
    }
//@end
//@item src/render/text_renderer.rs :: impl TextDecorator for TrivialDecorator :: fn quote_prefix
//@sub /-> \(String, Self::Annotation\)/ ==> -> (r: (String, ()))
//@sub /-> String/ ==> -> (r: String)
//@sub * /"([^"]*)"\.to_string\(\)/ ==> str_to_string("\1")
//@sub /title\.to_string\(\)/ ==> str_to_string(title)
//@auto C01 C16
    fn quote_prefix(&self) -> (r: String)
        ensures r@.len() == 0, //@w @C16 #trivial_returns_nothing
    {
        proof { reveal_strlit(""); } //@w
        str_to_string("")
    }
//@end
//@item src/render/text_renderer.rs :: impl TextDecorator for TrivialDecorator :: fn unordered_item_prefix
//@sub /-> \(String, Self::Annotation\)/ ==> -> (r: (String, ()))
//@sub /-> String/ ==> -> (r: String)
//@sub * /"([^"]*)"\.to_string\(\)/ ==> str_to_string("\1")
//@sub /title\.to_string\(\)/ ==> str_to_string(title)
//@auto C01 C16
    fn unordered_item_prefix(&self) -> (r: String)
        ensures r@.len() == 0, //@w @C16 #trivial_returns_nothing
    {
        proof { reveal_strlit(""); } //@w
        str_to_string("")
    }
//@end
//@item src/render/text_renderer.rs :: impl TextDecorator for TrivialDecorator :: fn ordered_item_prefix
//@sub /-> \(String, Self::Annotation\)/ ==> -> (r: (String, ()))
//@sub /-> String/ ==> -> (r: String)
//@sub * /"([^"]*)"\.to_string\(\)/ ==> str_to_string("\1")
//@sub /title\.to_string\(\)/ ==> str_to_string(title)
//@auto C01 C16
    fn ordered_item_prefix(&self, _i: i64) -> (r: String)
        ensures r@.len() == 0, //@w @C16 #trivial_returns_nothing
    {
        proof { reveal_strlit(""); } //@w
        str_to_string("")
    }
//@end
//@item src/render/text_renderer.rs :: impl TextDecorator for TrivialDecorator :: fn decorate_superscript_start
//@sub /-> \(String, Self::Annotation\)/ ==> -> (r: (String, ()))
//@sub /-> String/ ==> -> (r: String)
//@sub * /"([^"]*)"\.to_string\(\)/ ==> str_to_string("\1")
//@sub /title\.to_string\(\)/ ==> str_to_string(title)
//@auto C01 C16
    fn decorate_superscript_start(&self) -> (r: (String, ()))
        ensures r.0@.len() == 0, //@w @C16 #trivial_returns_nothing
    {
        proof { reveal_strlit(""); } //@w
        (str_to_string(""), ())
    }
//@end
//@item src/render/text_renderer.rs :: impl TextDecorator for TrivialDecorator :: fn decorate_superscript_end
//@sub /-> \(String, Self::Annotation\)/ ==> -> (r: (String, ()))
//@sub /-> String/ ==> -> (r: String)
//@sub * /"([^"]*)"\.to_string\(\)/ ==> str_to_string("\1")
//@sub /title\.to_string\(\)/ ==> str_to_string(title)
//@auto C01 C16
    fn decorate_superscript_end(&self) -> (r: String)
        ensures r@.len() == 0, //@w @C16 #trivial_returns_nothing
    {
        proof { reveal_strlit(""); } //@w
        str_to_string("")
    }
//@end
}
} // verus!
fn main() {}
