//@unit BH — BorderHoriz: horizontal table rules and their junctions (src/render/text_renderer.rs:808-936)
// Abstract view per position: up (a bar stands above), down (a bar stands below), vert (stacked-cell separator).
// Trusted (A3): `slice.iter().map(f).collect::<String>()` applies f pointwise (map_collect_string).
use vstd::prelude::*;
macro_rules! html_trace { ($($t:tt)*) => {} }
macro_rules! html_trace_quiet { ($($t:tt)*) => {} }
verus! {
//@export-begin
global size_of usize == 8;

//@item src/render/text_renderer.rs :: enum BorderSegHoriz
#[derive(Copy, Clone, Debug)] //@w
enum BorderSegHoriz {
    /// Pure horizontal line
    Straight,
    /// Joined with a line above
    JoinAbove,
    /// Joins with a line below
    JoinBelow,
    /// Joins both ways
    JoinCross,
    /// Horizontal line, but separating two table cells from a row
    /// which wouldn't fit next to each other.
    StraightVert,
}
//@end

//@item src/render/text_renderer.rs :: struct BorderHoriz
#[derive(Clone, Debug)] //@w
struct BorderHoriz<T> {
    /// The segments for the line.
    segments: Vec<BorderSegHoriz>,
    /// The tag associated with the lines
    tag: T,
}
//@end

spec fn up(s: BorderSegHoriz) -> bool { s is JoinAbove || s is JoinCross }
spec fn down(s: BorderSegHoriz) -> bool { s is JoinBelow || s is JoinCross }
spec fn vert(s: BorderSegHoriz) -> bool { s is StraightVert }
spec fn joined(s: BorderSegHoriz) -> bool { s is JoinAbove || s is JoinBelow || s is JoinCross }
// segment at i after stretching with Straight
spec fn at(v: Seq<BorderSegHoriz>, i: int) -> BorderSegHoriz { if 0 <= i < v.len() { v[i] } else { BorderSegHoriz::Straight } }
spec fn maxi(a: int, b: int) -> int { if a >= b { a } else { b } }
// The junction rule, quoted from the property (C05): the glyph at a position shows exactly whether a bar
// stands directly above and directly below it.
spec fn glyph(above: bool, below: bool) -> char {
    if above && below { '┼' } else if above { '┴' } else if below { '┬' } else { '─' }
}
spec fn glyph_of(s: BorderSegHoriz) -> char { if vert(s) { '/' } else { glyph(up(s), down(s)) } }
spec fn bar_above_of(s: BorderSegHoriz) -> char { if up(s) { '│' } else { ' ' } }

// R7: `v.iter().map(f).collect::<String>()` — std semantics: f applied to each element in order
#[verifier::external_body]
fn map_collect_string<F: Fn(&BorderSegHoriz) -> char>(v: &Vec<BorderSegHoriz>, f: F) -> (r: String)
    requires forall|i: int| 0 <= i < v@.len() ==> call_requires(f, (&#[trigger] v@[i],)),
    ensures r@.len() == v@.len(), forall|i: int| 0 <= i < v@.len() ==> call_ensures(f, (&v@[i],), #[trigger] r@[i]),
{ v.iter().map(f).collect::<String>() }

impl<T: Clone> BorderHoriz<T> {
//@item src/render/text_renderer.rs :: impl BorderHoriz :: fn new
//@auto C01 C05
//@sub /-> Self/ ==> -> (r: Self)
    fn new(width: usize, tag: T) -> (r: Self)
        ensures //@w
            r.segments@.len() == width, //@w @C05 #bh_new_len
            forall|i: int| 0 <= i < width ==> !up(#[trigger] r.segments@[i]) && !down(r.segments@[i]) && !vert(r.segments@[i]), //@w @C05 #bh_new_plain
    {
        BorderHoriz {
            segments: vec![BorderSegHoriz::Straight; width],
            tag,
        }
    }
//@end

//@item src/render/text_renderer.rs :: impl BorderHoriz :: fn new_type
//@auto C01 C05
//@sub /-> Self/ ==> -> (r: Self)
    fn new_type(width: usize, linetype: BorderSegHoriz, tag: T) -> (r: Self)
        ensures //@w
            r.segments@.len() == width, //@w @C05 #bh_new_type_len
            forall|i: int| 0 <= i < width ==> #[trigger] r.segments@[i] == linetype, //@w @C05 #bh_new_type_all
    {
        BorderHoriz {
            segments: vec![linetype; width],
            tag,
        }
    }
//@end

//@item src/render/text_renderer.rs :: impl BorderHoriz :: fn stretch_to
//@auto C01 C05
    fn stretch_to(&mut self, width: usize)
        ensures //@w
            final(self).segments@.len() == maxi(old(self).segments@.len() as int, width as int), //@w @C05 #stretch_len
            forall|i: int| 0 <= i < final(self).segments@.len() ==> #[trigger] final(self).segments@[i] == at(old(self).segments@, i), //@w @C05 #stretch_frame
    {
        use self::BorderSegHoriz::*;
        while width > self.segments.len()
            invariant //@w[ @C05 #stretch_to_loop_invariant
                self.segments@.len() >= old(self).segments@.len(),
                self.segments@.len() <= maxi(old(self).segments@.len() as int, width as int),
                forall|i: int| 0 <= i < self.segments@.len() ==> #[trigger] self.segments@[i] == at(old(self).segments@, i),
            decreases width - self.segments.len(),
            //@w]
        {
            self.segments.push(Straight);
        }
    }
//@end

//@item src/render/text_renderer.rs :: impl BorderHoriz :: fn join_above
//@auto C01 C05
    fn join_above(&mut self, x: usize)
        requires x < usize::MAX, //@w
        ensures //@w
            final(self).segments@.len() == maxi(old(self).segments@.len() as int, x + 1), //@w @C05 #ja_len
            forall|i: int| 0 <= i < final(self).segments@.len() && i != x ==> #[trigger] final(self).segments@[i] == at(old(self).segments@, i), //@w @C05 #ja_frame
            up(final(self).segments@[x as int]) == !vert(at(old(self).segments@, x as int)), //@w @C05 #ja_sets_up
            down(final(self).segments@[x as int]) == down(at(old(self).segments@, x as int)), //@w @C05 #ja_keeps_down
            vert(final(self).segments@[x as int]) == vert(at(old(self).segments@, x as int)), //@w @C05 #ja_keeps_vert
    {
        use self::BorderSegHoriz::*;
        self.stretch_to(x + 1);
        let prev = self.segments[x];
        self.segments[x] = match prev {
            Straight | JoinAbove => JoinAbove,
            JoinBelow | JoinCross => JoinCross,
            StraightVert => StraightVert,
        }
    }
//@end

//@item src/render/text_renderer.rs :: impl BorderHoriz :: fn join_below
//@auto C01 C05
    fn join_below(&mut self, x: usize)
        requires x < usize::MAX, //@w
        ensures //@w
            final(self).segments@.len() == maxi(old(self).segments@.len() as int, x + 1), //@w @C05 #jb_len
            forall|i: int| 0 <= i < final(self).segments@.len() && i != x ==> #[trigger] final(self).segments@[i] == at(old(self).segments@, i), //@w @C05 #jb_frame
            down(final(self).segments@[x as int]) == !vert(at(old(self).segments@, x as int)), //@w @C05 #jb_sets_down
            up(final(self).segments@[x as int]) == up(at(old(self).segments@, x as int)), //@w @C05 #jb_keeps_up
            vert(final(self).segments@[x as int]) == vert(at(old(self).segments@, x as int)), //@w @C05 #jb_keeps_vert
    {
        use self::BorderSegHoriz::*;
        self.stretch_to(x + 1);
        let prev = self.segments[x];
        self.segments[x] = match prev {
            Straight | JoinBelow => JoinBelow,
            JoinAbove | JoinCross => JoinCross,
            StraightVert => StraightVert,
        }
    }
//@end

//@item src/render/text_renderer.rs :: impl BorderHoriz :: fn merge_from_below
//@auto C01 C05
//@sub /for \(idx, seg\) in other\.segments\.iter\(\)\.enumerate\(\)/ ==> for idx in 0..other.segments.len()
    fn merge_from_below(&mut self, other: &BorderHoriz<T>, pos: usize)
        requires pos + other.segments@.len() < usize::MAX, //@w
        ensures //@w
            final(self).segments@.len() >= old(self).segments@.len(), //@w @C05 #mfb_len
            final(self).segments@.len() <= maxi(old(self).segments@.len() as int, pos + other.segments@.len()), //@w @C05 #mfb_len_max
            forall|i: int| 0 <= i < final(self).segments@.len() ==> //@w[ @C05 #mfb_down
                down(#[trigger] final(self).segments@[i]) == (down(at(old(self).segments@, i)) || (pos <= i < pos + other.segments@.len() && joined(other.segments@[i - pos]) && !vert(at(old(self).segments@, i)))), //@w]
            forall|i: int| 0 <= i < final(self).segments@.len() ==> //@w[ @C05 #mfb_keeps_up
                up(#[trigger] final(self).segments@[i]) == up(at(old(self).segments@, i)) && vert(final(self).segments@[i]) == vert(at(old(self).segments@, i)), //@w]
            forall|j: int| 0 <= j < other.segments@.len() && joined(#[trigger] other.segments@[j]) ==> j + pos < final(self).segments@.len(), //@w @C05 #mfb_covers
    {
        use self::BorderSegHoriz::*;
        for idx in 0..other.segments.len()
            invariant //@w[ @C05 #merge_from_below_loop_invariant
                pos + other.segments@.len() < usize::MAX,
                self.segments@.len() >= old(self).segments@.len(),
                self.segments@.len() <= maxi(old(self).segments@.len() as int, pos + idx),
                forall|i: int| 0 <= i < self.segments@.len() ==>
                    down(#[trigger] self.segments@[i]) == (down(at(old(self).segments@, i)) || (pos <= i < pos + idx && joined(other.segments@[i - pos]) && !vert(at(old(self).segments@, i)))),
                forall|i: int| 0 <= i < self.segments@.len() ==>
                    up(#[trigger] self.segments@[i]) == up(at(old(self).segments@, i)) && vert(self.segments@[i]) == vert(at(old(self).segments@, i)),
                forall|j: int| 0 <= j < idx && joined(#[trigger] other.segments@[j]) ==> j + pos < self.segments@.len(),
            //@w]
        {
            let seg = &other.segments[idx]; //@w
            match *seg {
                Straight | StraightVert => (),
                JoinAbove | JoinBelow | JoinCross => {
                    self.join_below(idx + pos);
                }
            }
        }
    }
//@end

//@item src/render/text_renderer.rs :: impl BorderHoriz :: fn merge_from_above
//@auto C01 C05
//@sub /for \(idx, seg\) in other\.segments\.iter\(\)\.enumerate\(\)/ ==> for idx in 0..other.segments.len()
    fn merge_from_above(&mut self, other: &BorderHoriz<T>, pos: usize)
        requires pos + other.segments@.len() < usize::MAX, //@w
        ensures //@w
            final(self).segments@.len() >= old(self).segments@.len(), //@w @C05 #mfa_len
            final(self).segments@.len() <= maxi(old(self).segments@.len() as int, pos + other.segments@.len()), //@w @C05 #mfa_len_max
            forall|i: int| 0 <= i < final(self).segments@.len() ==> //@w[ @C05 #mfa_up
                up(#[trigger] final(self).segments@[i]) == (up(at(old(self).segments@, i)) || (pos <= i < pos + other.segments@.len() && joined(other.segments@[i - pos]) && !vert(at(old(self).segments@, i)))), //@w]
            forall|i: int| 0 <= i < final(self).segments@.len() ==> //@w[ @C05 #mfa_keeps_down
                down(#[trigger] final(self).segments@[i]) == down(at(old(self).segments@, i)) && vert(final(self).segments@[i]) == vert(at(old(self).segments@, i)), //@w]
            forall|j: int| 0 <= j < other.segments@.len() && joined(#[trigger] other.segments@[j]) ==> j + pos < final(self).segments@.len(), //@w @C05 #mfa_covers
    {
        use self::BorderSegHoriz::*;
        for idx in 0..other.segments.len()
            invariant //@w[ @C05 #merge_from_above_loop_invariant
                pos + other.segments@.len() < usize::MAX,
                self.segments@.len() >= old(self).segments@.len(),
                self.segments@.len() <= maxi(old(self).segments@.len() as int, pos + idx),
                forall|i: int| 0 <= i < self.segments@.len() ==>
                    up(#[trigger] self.segments@[i]) == (up(at(old(self).segments@, i)) || (pos <= i < pos + idx && joined(other.segments@[i - pos]) && !vert(at(old(self).segments@, i)))),
                forall|i: int| 0 <= i < self.segments@.len() ==>
                    down(#[trigger] self.segments@[i]) == down(at(old(self).segments@, i)) && vert(self.segments@[i]) == vert(at(old(self).segments@, i)),
                forall|j: int| 0 <= j < idx && joined(#[trigger] other.segments@[j]) ==> j + pos < self.segments@.len(),
            //@w]
        {
            let seg = &other.segments[idx]; //@w
            match *seg {
                Straight | StraightVert => (),
                JoinAbove | JoinBelow | JoinCross => {
                    self.join_above(idx + pos);
                }
            }
        }
    }
//@end

//@item src/render/text_renderer.rs :: impl BorderHoriz :: fn to_vertical_lines_above
//@auto C01 C05
//@sub /-> String/ ==> -> (r: String)
//@sub /self\.segments\s*\.iter\(\)\s*\.map\(\|seg\| match \*seg \{/ ==> map_collect_string(&self.segments, |seg: &BorderSegHoriz| -> (c: char) ensures c == bar_above_of(*seg) { match *seg {
//@sub /\}\)\s*\.collect\(\)/ ==> }})
    fn to_vertical_lines_above(&self) -> (r: String)
        ensures //@w
            r@.len() == self.segments@.len(), //@w @C05 #tvla_len
            forall|i: int| 0 <= i < r@.len() ==> #[trigger] r@[i] == (if up(self.segments@[i]) { '│' } else { ' ' }), //@w @C05 #tvla_bar_iff_up
    {
        use self::BorderSegHoriz::*;
        map_collect_string(&self.segments, |seg: &BorderSegHoriz| -> (c: char) ensures c == bar_above_of(*seg) { match *seg {
                Straight | JoinBelow | StraightVert => ' ',
                JoinAbove | JoinCross => '│',
            }})
    }
//@end

//@item src/render/text_renderer.rs :: impl BorderHoriz :: fn to_string
//@auto C01 C05
//@sub /-> String/ ==> -> (r: String)
//@sub /self\.segments\s*\.iter\(\)\s*\.map\(\|seg\| match seg \{/ ==> map_collect_string(&self.segments, |seg: &BorderSegHoriz| -> (c: char) ensures c == glyph_of(*seg) { match seg {
//@sub /\}\)\s*\.collect::<String>\(\)/ ==> }})
    fn to_string(&self) -> (r: String)
        ensures //@w
            r@.len() == self.segments@.len(), //@w @C05 #ts_len
            forall|i: int| 0 <= i < r@.len() && !vert(self.segments@[i]) ==> #[trigger] r@[i] == glyph(up(self.segments@[i]), down(self.segments@[i])), //@w @C05 #ts_junction_rule
            forall|i: int| 0 <= i < r@.len() && vert(self.segments@[i]) ==> #[trigger] r@[i] == '/', //@w @C05 #ts_vert
    {
        map_collect_string(&self.segments, |seg: &BorderSegHoriz| -> (c: char) ensures c == glyph_of(*seg) { match seg {
                BorderSegHoriz::Straight => '─',
                BorderSegHoriz::StraightVert => '/',
                BorderSegHoriz::JoinAbove => '┴',
                BorderSegHoriz::JoinBelow => '┬',
                BorderSegHoriz::JoinCross => '┼',
            }})
    }
//@end
}
//@export-end
} // verus!
fn main() {}
