//@unit SR — SubRenderer: annotation stack discipline, inline text, wrap width, fragment markers, footnote switch
// Imports the text engine (unit TE) under its proved contracts.
// R3: `impl Renderer for SubRenderer<D>` methods are placed in an inherent impl; `trait TextDecorator` gets `: Sized`.
// R9: fn-pointer text filters -> opaque TextFilter.  R10: LinkedList, BorderHoriz, Colour opaque.
use vstd::prelude::*;
use std::fmt::Debug;
use std::mem;
macro_rules! html_trace { ($($t:tt)*) => {} }
macro_rules! html_trace_quiet { ($($t:tt)*) => {} }
verus! {
//@import TE

struct Colour { r: u8, g: u8, b: u8 }
#[verifier::external_body] struct TextFilter { x: u8 }
impl TextFilter {
    // A6: a text filter is a pure function of its argument (fn pointer without state)
    spec fn apply(&self, s: Seq<char>) -> Option<Seq<char>>;
    #[verifier::external_body] fn call(&self, s: &str) -> (r: Option<String>)
        ensures (r matches Some(x) ==> self.apply(s@) == Some(x@)), (r is None ==> self.apply(s@) is None),
    { unimplemented!() }
    spec fn is_strikeout(&self) -> bool;
    #[verifier::external_body] fn strikeout() -> (r: TextFilter) ensures r.is_strikeout() { unimplemented!() }
}
#[verifier::external_body] #[verifier::reject_recursive_types(T)] struct LinkedList<T> { x: std::marker::PhantomData<T> }
impl<T> LinkedList<T> {
    spec fn view(&self) -> Seq<T>;
    #[verifier::external_body] fn new() -> (r: Self) ensures r@ == Seq::<T>::empty() { unimplemented!() }
    #[verifier::external_body] fn push_back(&mut self, t: T) ensures final(self)@ == old(self)@.push(t) { unimplemented!() }
    #[verifier::external_body] fn is_empty(&self) -> (r: bool) ensures r == (self@.len() == 0) { unimplemented!() }
}
struct BorderHoriz<T> { tag: T, w: usize }
// BorderHoriz::new / new_type(.., StraightVert, ..) (contracts proved in unit BH: `width` segments)
impl<T> BorderHoriz<T> {
    #[verifier::external_body] fn new(width: usize, tag: T) -> (r: BorderHoriz<T>) ensures r.w == width { unimplemented!() }
    #[verifier::external_body] fn new_vert(width: usize, tag: T) -> (r: BorderHoriz<T>) ensures r.w == width { unimplemented!() }
}
// std: Option::get_or_insert_with / as_deref, str::chars().all(char::is_whitespace)
#[verifier::external_body]
fn opt_get_or_insert_with<V, F: FnOnce() -> V>(o: &mut Option<V>, f: F) -> (r: &mut V)
    requires old(o).is_none() ==> call_requires(f, ()),
    ensures
        (*old(o)) matches Some(v) ==> *r == v && *final(o) == Some(*final(r)),
        old(o).is_none() ==> call_ensures(f, (), *r) && *final(o) == Some(*final(r)),
{ o.get_or_insert_with(f) }
#[verifier::external_body]
fn opt_as_deref_or<'a>(o: &'a Option<String>, d: &'a str) -> (r: &'a str)
    ensures r@ == (match *o { Some(s) => s@, None => d@ }),
{ o.as_deref().unwrap_or(d) }
#[verifier::external_body]
fn vec_extend<E>(v: &mut Vec<E>, w: Vec<E>) ensures final(v)@ == old(v)@ + w@ { v.extend(w) }
// `self.lines.iter().any(|l| l.has_content())`
#[verifier::external_body]
fn ll_any_has_content<T>(l: &LinkedList<RenderLine<T>>) -> (r: bool)
    ensures r == exists|i: int| 0 <= i < l@.len() && #[trigger] rl_has_content(l@[i]),
{ unimplemented!() }
// R7: the `prefixes` iterator of append_subrender (`repeat(p)` or `once(p).chain(repeat(q))` at every call site): an infinite stream
#[verifier::external_body] struct Prefixes { x: u8 }
impl Prefixes {
    // `std::iter::repeat("")`
    #[verifier::external_body] fn repeat_empty() -> (r: Prefixes) ensures r.pos() == 0, forall|k: int| (#[trigger] r.at(k)) == Seq::<char>::empty() { unimplemented!() }
    spec fn at(&self, k: int) -> Seq<char>;
    spec fn pos(&self) -> int;
    #[verifier::external_body]
    fn next_prefix(&mut self) -> (r: &'static str)
        ensures r@ == old(self).at(old(self).pos()), final(self).pos() == old(self).pos() + 1, forall|k: int| final(self).at(k) == old(self).at(k),
    { unimplemented!() }
}
#[verifier::external_body]
fn ll_into_vec<T>(l: LinkedList<T>) -> (r: Vec<T>) ensures r@ == l@ { unimplemented!() }
// the characters a horizontal rule is drawn with (contracts proved in unit BH)
uninterp spec fn border_str<T>(b: BorderHoriz<T>) -> Seq<char>;
#[verifier::external_body]
fn border_to_string<T>(b: &BorderHoriz<T>) -> (r: String) ensures sw(r@) == b.w, str_some(r@), r@ == border_str(*b) { unimplemented!() }
// A5/A2: a short string is narrower than 2^33 columns (each character is at most 2 columns wide)
#[verifier::external_body]
proof fn axiom_short_width(s: Seq<char>) requires short(s) ensures sw(s) <= 0x2_0000_0000 {}
// fmt_links helpers (A3): TaggedLine::into_tagged_strings (strings only, in order), str::replace('\\n', " "), vec![x], to_owned
#[verifier::external_body]
fn line_tagged_strings<A>(l: TaggedLine<A>) -> (r: Vec<TaggedString<A>>)
    ensures r@.len() <= 0x10_0000, forall|i: int| 0 <= i < r@.len() ==> short(#[trigger] r@[i].s@),   // A5: few, short strings per footnote line
{ unimplemented!() }
#[verifier::external_body]
fn replace_newlines(s: &String) -> (r: String) ensures r@.len() == s@.len(), forall|i: int| 0 <= i < s@.len() ==> r@[i] == (if s@[i] == '\n' { ' ' } else { s@[i] }) { unimplemented!() }
#[verifier::external_body]
fn vec_one<A>(a: A) -> (r: Vec<A>) ensures r@ == seq![a] { unimplemented!() }
#[verifier::external_body]
fn string_to_owned(s: &String) -> (r: String) ensures r@ == s@ { unimplemented!() }
#[verifier::external_body]
fn str_all_whitespace(s: &str) -> (r: bool) ensures r == all_ws(s@) { s.chars().all(char::is_whitespace) }
// the text after the first k filters of the stack have been applied in order (a filter returning None leaves the text as it is)
spec fn filt(fs: Seq<TextFilter>, k: int, s: Seq<char>) -> Seq<char> decreases k {
    if k <= 0 || k > fs.len() { s } else { let p = filt(fs, k - 1, s); match fs[k - 1].apply(p) { Some(x) => x, None => p } }
}
// what one call of add_inline_text hands to the open block (C03, C09, C16): unless it is white space between blocks, the block
// gains exactly the kept characters of the filtered text, in order, tagged with the annotation stack (inside <pre>: the stack plus
// one preformat annotation)
spec fn emitted<A>(base: Seq<CItem<Vec<A>>>, ignorable: bool, fw: Option<WrappedBlock<Vec<A>>>, fs: Seq<TextFilter>, text: Seq<char>, stack: Seq<A>, pre: bool) -> bool {
    if ignorable && all_ws(text) { true } else if fw is None {
        // no block was opened: then there was nothing to hand over and nothing open before
        base.len() == 0 && kept(filt(fs, fs.len() as int, text)).len() == 0
    } else {
        fw matches Some(w1) && exists|mt: Vec<A>, ct: Vec<A>| #[trigger] appended_b(base, w1.text@, w1.line.v@, w1.word.v@, kept(filt(fs, fs.len() as int, text)), mt, ct)
            && (if pre { mt@.drop_last() == stack && ct@.drop_last() == stack && mt@.len() == stack.len() + 1 && ct@.len() == stack.len() + 1 } else { mt@ == stack && ct@ == stack })
    }
}
// ---- renderer-level content (C03, C09, C14): what the finished lines of a renderer carry ------------------------------------------
// the content items of the text lines, in order (border lines carry no document content)
spec fn rl_elt<T>(l: RenderLine<T>) -> Seq<CItem<T>> { match l { RenderLine::Text(t) => flat(t.v@), RenderLine::Line(_) => Seq::empty() } }
spec fn rl_flat<T>(s: Seq<RenderLine<T>>) -> Seq<CItem<T>> decreases s.len() { if s.len() == 0 { Seq::empty() } else { rl_flat(s.drop_last()) + rl_elt(s.last()) } }
proof fn lemma_rl_flat_concat<T>(a: Seq<RenderLine<T>>, b: Seq<RenderLine<T>>)
    ensures rl_flat(a + b) =~= rl_flat(a) + rl_flat(b),
    decreases b.len()
{
    if b.len() == 0 { assert(a + b =~= a); } else {
        assert((a + b).drop_last() =~= a + b.drop_last());
        lemma_rl_flat_concat(a, b.drop_last());
    }
}
proof fn lemma_rl_flat_push<T>(a: Seq<RenderLine<T>>, l: RenderLine<T>)
    ensures rl_flat(a.push(l)) =~= rl_flat(a) + rl_elt(l),
{ assert(a.push(l).drop_last() =~= a); }
proof fn lemma_lines_flat_push<T>(a: Seq<TaggedLine<T>>, l: TaggedLine<T>)
    ensures lines_flat(a.push(l)) =~= lines_flat(a) + flat(l.v@),
{ assert(a.push(l).drop_last() =~= a); }
// the same at renderer level (L3): the renderer's view (finished lines, pending markers, open block) gains exactly those characters at its end
spec fn emitted_view<A>(v0: Seq<CItem<Vec<A>>>, v1: Seq<CItem<Vec<A>>>, fs: Seq<TextFilter>, text: Seq<char>, stack: Seq<A>, pre: bool) -> bool {
    exists|mt: Vec<A>, ct: Vec<A>, acc: Seq<CItem<Vec<A>>>| #[trigger] tagged_by(acc, kept(filt(fs, fs.len() as int, text)), mt, ct) && v1 =~= v0 + acc
        && (if pre { mt@.drop_last() == stack && ct@.drop_last() == stack && mt@.len() == stack.len() + 1 && ct@.len() == stack.len() + 1 } else { mt@ == stack && ct@ == stack })
}
// what append_subrender adds for one line of the nested renderer: its prefix, then the line (a rule of the nested renderer as its characters)
spec fn pref_elt<A>(l: RenderLine<Vec<A>>, prefix: Seq<char>, tag: Vec<A>) -> Seq<CItem<Vec<A>>> {
    flat_str(prefix, tag) + (match l { RenderLine::Text(o) => flat(o.v@), RenderLine::Line(b) => flat_str(border_str(b), tag) })
}
// ... and for all of them: line i gets prefix number k0 + i
spec fn pref_view<A>(ls: Seq<RenderLine<Vec<A>>>, p: Prefixes, k0: int, tag: Vec<A>) -> Seq<CItem<Vec<A>>> decreases ls.len() {
    if ls.len() == 0 { Seq::empty() } else { pref_view(ls.drop_last(), p, k0, tag) + pref_elt(ls.last(), p.at(k0 + ls.len() - 1), tag) }
}
proof fn lemma_pref_step<A>(ls: Seq<RenderLine<Vec<A>>>, k: int, p: Prefixes, k0: int, tag: Vec<A>)
    requires 0 <= k < ls.len(),
    ensures ns(pref_view(ls.take(k + 1), p, k0, tag)) =~= ns(pref_view(ls.take(k), p, k0, tag)) + ns(pref_elt(ls[k], p.at(k0 + k), tag)),
{
    assert(ls.take(k + 1).drop_last() =~= ls.take(k));
    assert(ls.take(k + 1).last() == ls[k]);
    lemma_ns_concat(pref_view(ls.take(k), p, k0, tag), pref_elt(ls[k], p.at(k0 + k), tag));
}
// the nested renderer `ov` yields lines `ol` that carry all its characters (`rest`: markers no text line follows), and the parent's view gains them, prefixed
spec fn sub_appended<A>(v0: Seq<CItem<Vec<A>>>, v1: Seq<CItem<Vec<A>>>, ov: Seq<CItem<Vec<A>>>, ol: Seq<RenderLine<Vec<A>>>, rest: Seq<CItem<Vec<A>>>, p: Prefixes, tg: Vec<A>, stack: Seq<A>) -> bool {
    only_frags(rest) && ns(rl_flat(ol)) + rest =~= ov && tg@ == stack && v1 =~= v0 + ns(pref_view(ol, p, p.pos(), tg))
}
proof fn lemma_empty_prefix() ensures sw(Seq::<char>::empty()) == 0, str_some(Seq::<char>::empty()), short(Seq::<char>::empty()) {}
// A5: the result of a text filter (at most one combining mark per character) is still short
#[verifier::external_body]
proof fn assume_filtered_short(s: Seq<char>) ensures short(s) {}
// A5: decorator strings and text nodes are far shorter than 2^32 characters
spec fn short(s: Seq<char>) -> bool { s.len() <= 0xffff_ffff }

//@item src/render/text_renderer.rs :: trait TextDecorator
//@sub /trait TextDecorator \{/ ==> trait TextDecorator: Sized {
//@sub 6 /-> \(String, Self::Annotation\);/ ==> -> (r: (String, Self::Annotation))
//@sub 9 /-> String;/ ==> -> (r: String)
//@sub 2 /_: Colour/ ==> _c: Colour
//@sub /(?s)    fn decorate_superscript_start\(&self\) -> \(String, Self::Annotation\) \{.*?\n    \}/ ==>     fn decorate_superscript_start(&self) -> (r: (String, Self::Annotation))
//@sub /(?s)    fn decorate_superscript_end\(&self\) -> String \{.*?\n    \}/ ==>     fn decorate_superscript_end(&self) -> (r: String)
//@sub /(?s)    fn finalise\(&mut self, urls: Vec<String>\) -> Vec<TaggedLine<Self::Annotation>> \{.*?\n    \}/ ==>     fn finalise(&mut self, urls: Vec<String>) -> (r: Vec<TaggedLine<Self::Annotation>>)
//@sub /(?s)    fn push_colour\(&mut self, _c: Colour\) -> Option<Self::Annotation> \{\n        None\n    \}/ ==>     fn push_colour(&mut self, _c: Colour) -> (r: Option<Self::Annotation>)
//@sub /(?s)    fn pop_colour\(&mut self\) -> bool \{\n        false\n    \}/ ==>     fn pop_colour(&mut self) -> (r: bool)
//@sub /(?s)    fn push_bgcolour\(&mut self, _c: Colour\) -> Option<Self::Annotation> \{\n        None\n    \}/ ==>     fn push_bgcolour(&mut self, _c: Colour) -> (r: Option<Self::Annotation>)
//@sub /(?s)    fn pop_bgcolour\(&mut self\) -> bool \{\n        false\n    \}/ ==>     fn pop_bgcolour(&mut self) -> (r: bool)
trait TextDecorator: Sized {
    /// An annotation which can be added to text, and which will
    /// be attached to spans of text.
    type Annotation: Eq + PartialEq + Debug + Clone + Default;

    /// Return an annotation and rendering prefix for a link.
    fn decorate_link_start(&mut self, url: &str) -> (r: (String, Self::Annotation))
        ensures short(r.0@); //@w

    /// Return a suffix for after a link.
    fn decorate_link_end(&mut self) -> (r: String)
        ensures short(r@); //@w
    spec fn em_start_spec(&self) -> Seq<char>; //@w

    /// Return an annotation and rendering prefix for em
    fn decorate_em_start(&self) -> (r: (String, Self::Annotation))
        ensures short(r.0@), r.0@ == self.em_start_spec(); //@w
    spec fn em_end_spec(&self) -> Seq<char>; //@w

    /// Return a suffix for after an em.
    fn decorate_em_end(&self) -> (r: String)
        ensures short(r@), r@ == self.em_end_spec(); //@w
    spec fn strong_start_spec(&self) -> Seq<char>; //@w

    /// Return an annotation and rendering prefix for strong
    fn decorate_strong_start(&self) -> (r: (String, Self::Annotation))
        ensures short(r.0@), r.0@ == self.strong_start_spec(); //@w
    spec fn strong_end_spec(&self) -> Seq<char>; //@w

    /// Return a suffix for after a strong.
    fn decorate_strong_end(&self) -> (r: String)
        ensures short(r@), r@ == self.strong_end_spec(); //@w
    spec fn strikeout_start_spec(&self) -> Seq<char>; //@w

    /// Return an annotation and rendering prefix for strikeout
    fn decorate_strikeout_start(&self) -> (r: (String, Self::Annotation))
        ensures short(r.0@), r.0@ == self.strikeout_start_spec(); //@w
    spec fn strikeout_end_spec(&self) -> Seq<char>; //@w

    /// Return a suffix for after a strikeout.
    fn decorate_strikeout_end(&self) -> (r: String)
        ensures short(r@), r@ == self.strikeout_end_spec(); //@w
    spec fn code_start_spec(&self) -> Seq<char>; //@w

    /// Return an annotation and rendering prefix for code
    fn decorate_code_start(&self) -> (r: (String, Self::Annotation))
        ensures short(r.0@), r.0@ == self.code_start_spec(); //@w
    spec fn code_end_spec(&self) -> Seq<char>; //@w

    /// Return a suffix for after a code.
    fn decorate_code_end(&self) -> (r: String)
        ensures short(r@), r@ == self.code_end_spec(); //@w

    /// Return an annotation for the initial part of a preformatted line
    fn decorate_preformat_first(&self) -> Self::Annotation;

    /// Return an annotation for a continuation line when a preformatted
    /// line doesn't fit.
    fn decorate_preformat_cont(&self) -> Self::Annotation;

    /// Return an annotation and rendering prefix for a link.
    fn decorate_image(&mut self, src: &str, title: &str) -> (r: (String, Self::Annotation))
        ensures short(r.0@); //@w

    /// Return prefix string of header in specific level.
    fn header_prefix(&self, level: usize) -> (r: String)
        ; //@w

    /// Return prefix string of quoted block.
    fn quote_prefix(&self) -> (r: String)
        ; //@w

    /// Return prefix string of unordered list item.
    fn unordered_item_prefix(&self) -> (r: String)
        ; //@w

    /// Return prefix string of ith ordered list item.
    fn ordered_item_prefix(&self, i: i64) -> (r: String)
        ; //@w

    /// Return a new decorator of the same type which can be used
    /// for sub blocks.
    fn make_subblock_decorator(&self) -> Self;

    // whether this kind of decorator annotates colours: it then answers every push with an annotation and every pop with true (the rich //@w
    // decorator), otherwise never (the defaults of the trait); assumed of every implementation (A9) //@w
    spec fn colours_spec() -> bool; //@w

    /// Return an annotation corresponding to adding colour, or none.
    fn push_colour(&mut self, _c: Colour) -> (r: Option<Self::Annotation>)
        ensures r is Some == Self::colours_spec(); //@w

    /// Pop the last colour pushed if we pushed one.
    fn pop_colour(&mut self) -> (r: bool)
        ensures r == Self::colours_spec(); //@w

    /// Return an annotation corresponding to adding background colour, or none.
    fn push_bgcolour(&mut self, _c: Colour) -> (r: Option<Self::Annotation>)
        ensures r is Some == Self::colours_spec(); //@w

    /// Pop the last background colour pushed if we pushed one.
    fn pop_bgcolour(&mut self) -> (r: bool)
        ensures r == Self::colours_spec(); //@w
    spec fn superscript_start_spec(&self) -> Seq<char>; //@w

    /// Return an annotation and rendering prefix for superscript text
    fn decorate_superscript_start(&self) -> (r: (String, Self::Annotation))
        ensures short(r.0@), r.0@ == self.superscript_start_spec(); //@w
    spec fn superscript_end_spec(&self) -> Seq<char>; //@w

    /// Return a suffix for after a superscript.
    fn decorate_superscript_end(&self) -> (r: String)
        ensures short(r@), r@ == self.superscript_end_spec(); //@w

    /// Finish with a document, and return extra lines to add to the rendered text.
    /// The urls are in the correct order for footnotes; if footnote references were
    /// not included then this list will be empty.
    fn finalise(&mut self, urls: Vec<String>) -> (r: Vec<TaggedLine<Self::Annotation>>)
        ensures r@.len() == urls@.len(); //@w @C08 #one_footnote_per_link //@w
}
//@end
//@item src/render/text_renderer.rs :: struct RenderOptions
struct RenderOptions {
    /// The maximum text wrap width.  If set, paragraphs of text will only be wrapped
    /// to that width or less, though the overall width can be larger (e.g. for indented
    /// blocks or side-by-side table cells).
    wrap_width: Option<usize>,

    /// If true, then allow the output to be wider than specified instead of returning
    /// `Err(TooNarrow)`.
    allow_width_overflow: bool,

    /// Whether to always pad lines out to the full width.
    /// This may give a better output when the parent block
    /// has a background colour set.
    pad_block_width: bool,

    /// Raw extraction, ensures text in table cells ends up rendered together
    /// This traverses tables as if they had a single column and every cell is its own row.
    raw: bool,

    /// Whether to draw table borders
    draw_borders: bool,

    /// Whether to wrap links as normal text
    wrap_links: bool,

    /// Whether to include footnotes for hyperlinks
    include_link_footnotes: bool,

    /// Whether to use Unicode combining characters for crossing text out.
    use_unicode_strikeout: bool,
}
//@end
//@item src/render/text_renderer.rs :: enum RenderLine
enum RenderLine<T> {
    /// Some rendered text
    Text(TaggedLine<T>),
    /// A table border line
    Line(BorderHoriz<T>),
}
//@end
//@item src/render/text_renderer.rs :: struct SubRenderer
//@sub /text_filter_stack: Vec<fn\(&str\) -> Option<String>>/ ==> text_filter_stack: Vec<TextFilter>
struct SubRenderer<D: TextDecorator> {
    /// Text width
    width: usize,
    /// Rendering options
    options: RenderOptions,
    /// The currently generated lines
    lines: LinkedList<RenderLine<Vec<D::Annotation>>>,
    /// FragmentStart items which have not yet been output.
    pending_frags: Vec<TaggedLineElement<Vec<D::Annotation>>>,
    /// True at the end of a block, meaning we should add
    /// a blank line if any other text is added.
    at_block_end: bool,
    wrapping: Option<WrappedBlock<Vec<D::Annotation>>>,
    decorator: D,
    ann_stack: Vec<D::Annotation>,
    text_filter_stack: Vec<TextFilter>,
    /// The depth of `<pre>` block stacking.
    pre_depth: usize,
    /// The current stack of whitespace wrapping setting
    ws_stack: Vec<WhiteSpace>,
}
//@end

//@item src/render/text_renderer.rs :: fn get_wrapping_or_insert
//@sub /wrapping\.get_or_insert_with\(\|\| \{/ ==> opt_get_or_insert_with(wrapping, || -> (b: WrappedBlock<Vec<D::Annotation>>) ensures b.width == wrap_width_spec(options.wrap_width, width), b.pad_blocks == options.pad_block_width, b.allow_overflow == options.allow_width_overflow, b.inv(), b.text@.len() == 0, b.line.v@.len() == 0, b.word.v@.len() == 0, b.wslen == 0, b.wordlen == 0, b.word.len == 0 {
//@sub /\) -> &'w mut WrappedBlock<Vec<D::Annotation>>/ ==> ) -> (r: &'w mut WrappedBlock<Vec<D::Annotation>>)
//@auto C01 C02 C15
fn get_wrapping_or_insert<'w, D: TextDecorator>(
    wrapping: &'w mut Option<WrappedBlock<Vec<D::Annotation>>>,
    options: &RenderOptions,
    width: usize,
) -> (r: &'w mut WrappedBlock<Vec<D::Annotation>>)
    requires 1 <= width <= 0x1000_0000_0000_0000, tag_ok::<Vec<D::Annotation>>(), //@w
        (*old(wrapping)) matches Some(w) ==> w.inv(), //@w
    ensures //@w
        *final(wrapping) == Some(*final(r)), //@w
        // an existing block is returned untouched //@w
        (*old(wrapping)) matches Some(w) ==> *r == w, //@w @C15 @C03 #existing_block_untouched
        // a new block wraps at min(max_wrap_width, width) columns (C04/C15: no effect when max_wrap_width >= width) and copies the options //@w
        (*old(wrapping)) is None ==> r.width == wrap_width_spec(options.wrap_width, width), //@w @C02 @C04 @C15 #wrap_width_is_min
        (*old(wrapping)) is None ==> r.pad_blocks == options.pad_block_width && r.allow_overflow == options.allow_width_overflow, //@w @C15 @C11 #block_copies_options
        (*old(wrapping)) is None ==> r.inv() && r.text@.len() == 0 && r.line.v@.len() == 0 && r.word.v@.len() == 0 && r.wslen == 0 && r.wordlen == 0 && r.word.len == 0, //@w @C03 #new_block_empty
{
    opt_get_or_insert_with(wrapping, || -> (b: WrappedBlock<Vec<D::Annotation>>) ensures b.width == wrap_width_spec(options.wrap_width, width), b.pad_blocks == options.pad_block_width, b.allow_overflow == options.allow_width_overflow, b.inv(), b.text@.len() == 0, b.line.v@.len() == 0, b.word.v@.len() == 0, b.wslen == 0, b.wordlen == 0, b.word.len == 0 {
        let wwidth = match options.wrap_width {
            // A wrap width of zero can't hold any text (and wrapping would never
            // make progress), so use at least one column.
            Some(ww) => ww.max(1).min(width),
            None => width,
        };
        WrappedBlock::new(
            wwidth,
            options.pad_block_width,
            options.allow_width_overflow,
        )
    })
}
//@end

// trusted (A3): #[derive(Clone)] on RenderOptions is a field-wise copy
impl Clone for RenderOptions { #[verifier::external_body] fn clone(&self) -> (r: Self) ensures r == *self { unimplemented!() } }
spec fn rl_has_content<T>(l: RenderLine<T>) -> bool { match l { RenderLine::Text(t) => !no_str(t.v@), RenderLine::Line(_) => false } }

// ---- specs (ours) ----
proof fn lemma_flat_empty<T>() ensures flat(Seq::<TaggedLineElement<T>>::empty()) =~= Seq::<CItem<T>>::empty() {}
spec fn wrap_width_spec(ww: Option<usize>, width: usize) -> usize {
    match ww { Some(m) => { let m1 = if m >= 1 { m } else { 1usize }; if m1 <= width { m1 } else { width } }, None => width }
}
// a finished line of a renderer: at most `width` columns (C02) unless width overflow has been allowed (C11)
spec fn rl_ok<T>(l: RenderLine<T>, width: usize, allow: bool) -> bool {
    match l {
        RenderLine::Text(t) => t.wf() && (t.len <= width || allow),
        // a table rule is no wider than the renderer it was drawn in (A6: column allocation, unit TB)
        RenderLine::Line(b) => (b.w <= width || allow),
    }
}
// a line produced by a block of this renderer: at most the renderer's width, or one over-wide character
spec fn short_line<T>(l: RenderLine<T>, w: usize) -> bool { match l { RenderLine::Text(t) => t.len <= w || t.len <= 2, RenderLine::Line(_) => false } }
// C02 bounds the line width only "when width overflow has not been allowed (and link footnotes are left wrappable)"
spec fn loose(o: RenderOptions) -> bool { o.allow_width_overflow || !o.wrap_links }
spec fn lines_ok<T>(ls: Seq<RenderLine<T>>, width: usize, allow: bool) -> bool { forall|i: int| 0 <= i < ls.len() ==> rl_ok(#[trigger] ls[i], width, allow) }
impl<D: TextDecorator> SubRenderer<D> {
    // representation invariant of a sub-renderer (C02 lives here: every finished line fits the renderer's width)
    spec fn wrap_ok(&self) -> bool {
        self.wrapping matches Some(w) ==> w.inv() && w.width >= 1 && w.width <= self.width && w.allow_overflow == self.options.allow_width_overflow
            && w.pad_blocks == self.options.pad_block_width
    }
    spec fn sr_inv(&self) -> bool {
        &&& 1 <= self.width <= 0x1000_0000_0000_0000
        &&& self.wrap_ok()
        &&& no_str(self.pending_frags@) && all_some(self.pending_frags@)
        &&& lines_ok(self.lines@, self.width, loose(self.options))
    }
    // everything the renderer holds, in output order and without the engine's spaces: finished lines, pending fragment markers, open block
    spec fn rview(&self) -> Seq<CItem<Vec<D::Annotation>>> {
        ns(rl_flat(self.lines@)) + flat(self.pending_frags@) + self.wpart()
    }
    spec fn wpart(&self) -> Seq<CItem<Vec<D::Annotation>>> { match self.wrapping { Some(w) => all_ns(w.text@, w.line.v@, w.word.v@), None => Seq::empty() } }
    // the open block (if any) holds at least one character, so closing it yields a line
    spec fn flushable(&self) -> bool { self.wrapping is Some ==> !only_frags(self.wpart()) }
    // A5 (boundary): accumulated widths are far from overflowing when a public operation starts
    spec fn wtotal(&self) -> int { match self.wrapping { Some(w) => w.total(), None => self.width as int } }
    // public operations start with `headroom`; each inline text of a short string uses at most 2^34 of it
    spec fn headroom(&self) -> bool { self.wtotal() <= 0x1000_0000_0000_0000 }
    spec fn room(&self) -> bool { self.wtotal() <= 0x2000_0000_0000_0000 }
    // what inline operations must leave alone
    spec fn same_stacks(&self, o: &Self) -> bool {
        self.ann_stack@ == o.ann_stack@ && self.ws_stack@ == o.ws_stack@ && self.pre_depth == o.pre_depth && self.text_filter_stack@ == o.text_filter_stack@
    }
    spec fn same_config(&self, o: &Self) -> bool { self.width == o.width && self.options == o.options }
    // content of the block that inline text is appended to: the open block, or a fresh one after a block boundary
    spec fn block_base(&self) -> Seq<CItem<Vec<D::Annotation>>> {
        if self.at_block_end || self.wrapping is None { Seq::empty() } else { all_ns((self.wrapping->Some_0).text@, (self.wrapping->Some_0).line.v@, (self.wrapping->Some_0).word.v@) }
    }
    // white space is ignored between blocks in collapsing modes
    spec fn ign(&self) -> bool { !self.ws_mode_spec().preserve_spec() && self.at_block_end }
    spec fn ws_mode_spec(&self) -> WhiteSpace { if self.ws_stack@.len() > 0 { self.ws_stack@.last() } else { WhiteSpace::Normal } }
}

impl<D: TextDecorator> SubRenderer<D> {
//@item src/render/text_renderer.rs :: impl SubRenderer :: fn new
//@sub /-> SubRenderer<D>/ ==> -> (r: SubRenderer<D>)
//@sub /pending_frags: Default::default\(\)/ ==> pending_frags: Vec::new()
//@auto C01 C09
    fn new(width: usize, options: RenderOptions, decorator: D) -> (r: SubRenderer<D>)
        requires 1 <= width <= 0x1000_0000_0000_0000, //@w
        ensures //@w
            r.sr_inv(), //@w @C02 #new_sr_inv
            r.width == width && r.options == options, //@w @C15 @C02 #new_copies_config
            r.ann_stack@.len() == 0 && r.ws_stack@.len() == 0 && r.pre_depth == 0 && r.text_filter_stack@.len() == 0, //@w @C09 #new_empty_stacks
            r.lines@.len() == 0 && r.wrapping.is_none() && r.pending_frags@.len() == 0 && !r.at_block_end, //@w @C03 #new_empty_output
            r.decorator == decorator, //@w
    {
        html_trace!("new({})", width);
        proof { assert(lines_ok(Seq::<RenderLine<Vec<D::Annotation>>>::empty(), width, loose(options))); } //@w
        SubRenderer {
            width,
            options,
            lines: LinkedList::new(),
            at_block_end: false,
            wrapping: None,
            decorator,
            ann_stack: Vec::new(),
            ws_stack: Vec::new(),
            pre_depth: 0,
            text_filter_stack: Vec::new(),
            pending_frags: Vec::new(),
        }
    }
//@end
//@item src/render/text_renderer.rs :: impl SubRenderer :: fn add_line
//@sub /for frag in std::mem::take\(&mut self\.pending_frags\)/ ==> let frags = vec_take(&mut self.pending_frags);\n                    for frag in it: frags
//@sub /for part in tagged_line\.into_iter\(\)/ ==> let parts = tagged_line.v;\n                    for part in it2: parts
//@auto C01 C14
    #[verifier::spinoff_prover] //@w
    fn add_line(&mut self, line: RenderLine<Vec<D::Annotation>>)
        requires old(self).sr_inv(), tag_ok::<Vec<D::Annotation>>(), //@w
            // C02 at this level: a line handed to a renderer fits the renderer's width //@w
            rl_ok(line, old(self).width, loose(old(self).options)), //@w @C02 @C11 #added_line_fits
            line matches RenderLine::Text(t) ==> t.len <= 0x4000_0000_0000_0000, //@w
        ensures //@w
            final(self).sr_inv(), //@w @C02 #add_line_inv
            final(self).same_stacks(old(self)) && final(self).same_config(old(self)) && final(self).wrapping == old(self).wrapping && final(self).at_block_end == old(self).at_block_end && final(self).decorator == old(self).decorator, //@w @C09 #add_line_frame
            final(self).lines@.len() == old(self).lines@.len() + 1 && final(self).lines@.drop_last() == old(self).lines@, //@w @C03 #add_line_appends_one
            // pending fragment markers are prepended to the next TEXT line, exactly once (C14) … //@w
            old(self).pending_frags@.len() > 0 && line is Text ==> final(self).pending_frags@.len() == 0 //@w @C14 #pending_markers_go_to_next_text_line
                && (final(self).lines@.last() matches RenderLine::Text(t2) && flat(t2.v@) =~= flat(old(self).pending_frags@) + flat(line->Text_0.v@) && t2.len == line->Text_0.len), //@w @C14 #pending_markers_go_to_next_text_line
            // … and stay pending across border lines //@w
            line is Line ==> final(self).pending_frags@ == old(self).pending_frags@ && final(self).lines@.last() == line, //@w @C14 #border_keeps_markers_pending
            old(self).pending_frags@.len() == 0 ==> final(self).pending_frags@.len() == 0 && final(self).lines@.last() == line, //@w @C03 #line_added_verbatim
            // renderer-level view: a text line is added after everything finished or pending so far, a border line adds no content //@w
            final(self).rview() =~= ns(rl_flat(old(self).lines@)) + flat(old(self).pending_frags@) + ns(rl_elt(line)) + old(self).wpart(), //@w @C03 @C14 #line_content_added_once
    {
        if !self.pending_frags.is_empty() {
            match line {
                RenderLine::Text(tagged_line) => {
                    let mut tl = TaggedLine::new();
                    let frags = vec_take(&mut self.pending_frags);
                    proof { lemma_no_str_cwid(frags@); } //@w
                    let ghost pf = frags@; //@w
                    for frag in it: frags
                        invariant //@w
                            it.seq() == frags@, frags@ == pf, no_str(pf), all_some(pf), tag_ok::<Vec<D::Annotation>>(), //@w @C02 @C03 @C09 @C11 @C14 #add_line_loop_invariant
                            tl.wf(), tl.len == 0, flat(tl.v@) =~= flat(pf.take(it.index@)), //@w @C02 @C03 @C09 @C11 @C14 #add_line_loop_invariant
                    {
                        proof { //@w
                            let k = it.index@; //@w
                            assert(pf.take(k + 1) =~= pf.take(k).push(pf[k])); //@w
                            lemma_flat_push(pf.take(k), pf[k]); //@w
                            assert(!(pf[k] is Str)); //@w
                        } //@w
                        tl.push(frag);
                    }
                    let parts = tagged_line.v;
                    proof { assert(pf.take(pf.len() as int) =~= pf); } //@w
                    let ghost tv = parts@; //@w
                    for part in it2: parts
                        invariant //@w
                            it2.seq() == parts@, parts@ == tv, tag_ok::<Vec<D::Annotation>>(), cwid(tv) == tagged_line.len, tagged_line.len <= 0x4000_0000_0000_0000, //@w @C02 @C03 @C09 @C11 @C14 #add_line_loop_invariant
                            tl.wf(), tl.len == cwid(tv.take(it2.index@)), flat(tl.v@) =~= flat(pf) + flat(tv.take(it2.index@)), //@w @C02 @C03 @C09 @C11 @C14 #add_line_loop_invariant
                    {
                        proof { //@w
                            let k = it2.index@; //@w
                            assert(tv.take(k + 1) =~= tv.take(k).push(tv[k])); //@w
                            lemma_flat_push(tv.take(k), tv[k]); //@w
                            lemma_flat_concat(tv.take(k + 1), tv.skip(k + 1)); //@w
                            assert(tv.take(k + 1) + tv.skip(k + 1) =~= tv); //@w
                        } //@w
                        tl.push(part);
                    }
                    proof { assert(tv.take(tv.len() as int) =~= tv); } //@w
                    proof { //@w
                        lemma_rl_flat_push(self.lines@, RenderLine::Text(tl)); //@w
                        lemma_ns_concat(rl_flat(self.lines@), flat(tl.v@)); //@w
                        lemma_ns_concat(flat(pf), flat(tv)); //@w
                        lemma_no_str_flat(pf); //@w
                        lemma_flat_empty_te::<Vec<D::Annotation>>(); //@w
                        assert(self.pending_frags@ =~= Seq::<TaggedLineElement<Vec<D::Annotation>>>::empty()); //@w
                    } //@w
                    self.lines.push_back(RenderLine::Text(tl));
                    return;
                }
                RenderLine::Line(..) => (),
            }
        }
        proof { //@w
            lemma_rl_flat_push(self.lines@, line); //@w
            lemma_ns_concat(rl_flat(self.lines@), rl_elt(line)); //@w
            lemma_flat_empty_te::<Vec<D::Annotation>>(); //@w
            if self.pending_frags@.len() == 0 { assert(self.pending_frags@ =~= Seq::<TaggedLineElement<Vec<D::Annotation>>>::empty()); } //@w
        } //@w
        self.lines.push_back(line);
    }
//@end
//@item src/render/text_renderer.rs :: impl SubRenderer :: fn flush_wrapping
//@sub /-> Result<\(\)>/ ==> -> (r: Result<()>)
//@sub /self\.extend_lines\(w\.into_lines\(\)\?\.into_iter\(\)\.map\(RenderLine::Text\)\);/ ==> let ls = w.into_lines()?;\n            for l in it: ls\n            {\n                self.add_line(RenderLine::Text(l));\n            }
//@sub /self\.pending_frags\.extend\(frags\);/ ==> vec_extend(&mut self.pending_frags, frags);
//@auto C01 C14 C03
    #[verifier::spinoff_prover] //@w
    fn flush_wrapping(&mut self) -> (r: Result<()>)
        requires old(self).sr_inv(), tag_ok::<Vec<D::Annotation>>(), //@w
        ensures //@w
            final(self).sr_inv(), //@w @C02 #flush_wrapping_inv
            final(self).same_stacks(old(self)) && final(self).same_config(old(self)) && final(self).decorator == old(self).decorator && final(self).at_block_end == old(self).at_block_end, //@w @C09 #flush_wrapping_frame
            r.is_ok() ==> final(self).wrapping.is_none(), //@w @C03 #block_closed
            old(self).wrapping.is_none() ==> r.is_ok() && final(self).lines@ == old(self).lines@ && final(self).pending_frags@ == old(self).pending_frags@, //@w @C03 #no_block_noop
            old(self).options.allow_width_overflow ==> r.is_ok(), //@w @C11 #flush_wrapping_overflow_ok
            final(self).lines@.len() >= old(self).lines@.len() && final(self).lines@.take(old(self).lines@.len() as int) =~= old(self).lines@, //@w @C03 #flush_wrapping_keeps_lines
            forall|i: int| old(self).lines@.len() <= i < final(self).lines@.len() ==> short_line(#[trigger] final(self).lines@[i], old(self).width), //@w @C02 @C11 #flushed_lines_fit_block
            // closing the block moves its content to the finished lines: every character and every marker, in order, once (C03, C09, C14) //@w
            r.is_ok() && (final(self).lines@.len() > old(self).lines@.len() || old(self).wrapping is None) ==> final(self).rview() =~= old(self).rview(), //@w @C03 @C09 @C14 #block_content_reaches_lines
            r.is_ok() && old(self).flushable() ==> final(self).rview() =~= old(self).rview(), //@w @C03 @C09 @C14 #closing_block_keeps_view
            // a block that yields no line held no character //@w
            r.is_ok() && final(self).lines@.len() == old(self).lines@.len() && old(self).wrapping is Some ==> //@w @C03 #no_line_no_text
                only_frags(all_ns((old(self).wrapping->Some_0).text@, (old(self).wrapping->Some_0).line.v@, (old(self).wrapping->Some_0).word.v@)), //@w @C03 #no_line_no_text
            // markers recorded after the last word of the block are not lost: they become pending for the next text line (C14) //@w
            r.is_ok() && (old(self).wrapping matches Some(w) && no_str(w.word.v@)) ==> //@w @C14 #trailing_markers_become_pending
                final(self).pending_frags@.len() >= (old(self).wrapping->Some_0).word.v@.len() //@w
                && final(self).pending_frags@.skip(final(self).pending_frags@.len() - (old(self).wrapping->Some_0).word.v@.len()) =~= (old(self).wrapping->Some_0).word.v@, //@w @C14 #trailing_markers_become_pending
    {
        if let Some(mut w) = self.wrapping.take() {
            let frags = w.take_trailing_fragments();
            proof { //@w
                assert forall|i: int| 0 <= i < frags@.len() implies elt_some(#[trigger] frags@[i]) by { assert(!(frags@[i] is Str)); } //@w
            } //@w
            let ghost w1 = w; //@w
            let ghost w0 = old(self).wrapping->Some_0; //@w
            let ghost p0 = old(self).pending_frags@; //@w
            let ghost n0 = old(self).lines@.len() as int; //@w
            proof { //@w
                // the block's content is what stays in it plus the trailing markers taken out //@w
                lemma_no_str_flat(frags@); //@w
                lemma_flat_empty_te::<Vec<D::Annotation>>(); //@w
                if no_str(w0.word.v@) { assert(w1.word.v@ =~= Seq::<TaggedLineElement<Vec<D::Annotation>>>::empty()); } //@w
                assert(all_ns(w0.text@, w0.line.v@, w0.word.v@) =~= all_ns(w1.text@, w1.line.v@, w1.word.v@) + flat(frags@)); //@w
                assert(self.lines@.skip(n0) =~= Seq::<RenderLine<Vec<D::Annotation>>>::empty()); //@w
            } //@w
            let ls = w.into_lines()?;
            for l in it: ls
                invariant //@w
                    rl_flat(self.lines@.skip(n0)) =~= (if it.index@ > 0 { flat(p0) + lines_flat(ls@.take(it.index@)) } else { Seq::empty() }), //@w @C02 @C03 @C09 @C11 @C14 #flush_wrapping_loop_invariant
                    it.index@ > 0 ==> self.pending_frags@.len() == 0, it.index@ == 0 ==> self.pending_frags@ == p0, //@w @C02 @C03 @C09 @C11 @C14 #flush_wrapping_loop_invariant
                    n0 == old(self).lines@.len(), self.lines@.len() == n0 + it.index@, //@w @C02 @C03 @C09 @C11 @C14 #flush_wrapping_loop_invariant
                    it.seq() == ls@, tag_ok::<Vec<D::Annotation>>(), self.sr_inv(), self.wrapping.is_none(), //@w @C02 @C03 @C09 @C11 @C14 #flush_wrapping_loop_invariant
                    self.same_stacks(old(self)) && self.same_config(old(self)) && self.decorator == old(self).decorator && self.at_block_end == old(self).at_block_end, //@w @C02 @C03 @C09 @C11 @C14 #flush_wrapping_loop_invariant
                    forall|i: int| 0 <= i < ls@.len() ==> (#[trigger] ls@[i]).wf() && fits(ls@[i], w1.width, w1.allow_overflow), //@w @C02 @C03 @C09 @C11 @C14 #flush_wrapping_loop_invariant
                    w1.width <= self.width && w1.allow_overflow == self.options.allow_width_overflow && self.width <= 0x1000_0000_0000_0000, //@w @C02 @C03 @C09 @C11 @C14 #flush_wrapping_loop_invariant
                    self.lines@.len() >= old(self).lines@.len() && self.lines@.take(old(self).lines@.len() as int) =~= old(self).lines@, //@w @C02 @C03 @C09 @C11 @C14 #flush_wrapping_loop_invariant
                    forall|i: int| old(self).lines@.len() <= i < self.lines@.len() ==> short_line(#[trigger] self.lines@[i], self.width), //@w @C02 @C03 @C09 @C11 @C14 #flush_wrapping_loop_invariant
            {
                proof { assert(fits(ls@[it.index@], w1.width, w1.allow_overflow)); } //@w
                let ghost before = self.lines@; //@w
                let ghost lc = l; //@w
                proof { assert(lc == ls@[it.index@]); assert(lc.len <= self.width || lc.len <= 2); } //@w
                self.add_line(RenderLine::Text(l));
                proof { //@w
                    let k = it.index@; //@w
                    assert(self.lines@ =~= before.push(self.lines@.last())); //@w
                    assert(self.lines@.skip(n0) =~= before.skip(n0).push(self.lines@.last())); //@w
                    lemma_rl_flat_push(before.skip(n0), self.lines@.last()); //@w
                    assert(ls@.take(k + 1) =~= ls@.take(k).push(ls@[k])); //@w
                    lemma_lines_flat_push(ls@.take(k), ls@[k]); //@w
                    if k == 0 { assert(ls@.take(0) =~= Seq::<TaggedLine<Vec<D::Annotation>>>::empty()); lemma_flat_empty_te::<Vec<D::Annotation>>(); } //@w
                    assert(self.lines@.drop_last() == before); //@w
                    assert forall|i: int| 0 <= i < before.len() implies self.lines@[i] == before[i] by { assert(self.lines@.drop_last()[i] == self.lines@[i]); } //@w
                    assert(self.lines@.last() matches RenderLine::Text(t) && t.len == lc.len); //@w
                    assert(self.lines@.last() is Text); //@w
                    assert(self.lines@.last() == self.lines@[before.len() as int]); //@w
                    assert(short_line(self.lines@[before.len() as int], self.width)); //@w
                    assert forall|i: int| old(self).lines@.len() <= i < self.lines@.len() implies short_line(#[trigger] self.lines@[i], self.width) by { //@w
                        if i < before.len() { assert(self.lines@[i] == before[i]); assert(short_line(before[i], self.width)); } //@w
                    } //@w
                } //@w
            }

            vec_extend(&mut self.pending_frags, frags);
            proof { //@w
                assert(ls@.take(ls@.len() as int) =~= ls@); //@w
                if ls@.len() > 0 { //@w
                    let fl = self.lines@; //@w
                    assert(fl =~= fl.take(n0) + fl.skip(n0)); //@w
                    lemma_rl_flat_concat(fl.take(n0), fl.skip(n0)); //@w
                    lemma_ns_concat(rl_flat(old(self).lines@), rl_flat(fl.skip(n0))); //@w
                    lemma_ns_concat(flat(p0), lines_flat(ls@)); //@w
                    lemma_no_str_flat(p0); //@w
                    assert(self.pending_frags@ =~= frags@); //@w @C14 #trailing_markers_become_pending
                } //@w
            } //@w
            proof { //@w
                let p = self.pending_frags@; //@w
                assert(p.skip(p.len() - frags@.len()) =~= frags@); //@w @C14 #trailing_markers_become_pending
                assert(lines_ok(self.lines@, self.width, loose(self.options))); //@w
            } //@w
        }
        Ok(())
    }
//@end
//@item src/render/text_renderer.rs :: impl SubRenderer :: fn flush_all
//@sub /-> Result<\(\)>/ ==> -> (r: Result<()>)
//@auto C01
    fn flush_all(&mut self) -> (r: Result<()>)
        requires old(self).sr_inv(), tag_ok::<Vec<D::Annotation>>(), //@w
        ensures //@w
            final(self).sr_inv(), //@w @C02
            final(self).same_stacks(old(self)) && final(self).same_config(old(self)) && final(self).decorator == old(self).decorator, //@w @C09
            r.is_ok() ==> final(self).wrapping.is_none(), //@w @C03
            old(self).options.allow_width_overflow ==> r.is_ok(), //@w @C11
            r.is_ok() ==> final(self).wtotal() <= old(self).wtotal() + 0x4_0000_0000 || final(self).wtotal() <= old(self).width + 0x4_0000_0000, //@w @C01 #growth_bound
            final(self).lines@.len() >= old(self).lines@.len() && final(self).lines@.take(old(self).lines@.len() as int) =~= old(self).lines@, //@w @C03
            final(self).at_block_end == old(self).at_block_end, //@w
            r.is_ok() && old(self).flushable() ==> final(self).rview() =~= old(self).rview(), //@w @C03 @C09 @C14 #closing_block_keeps_view
    {
        self.flush_wrapping()?;
        Ok(())
    }
//@end
//@item src/render/text_renderer.rs :: impl Renderer for SubRenderer :: fn add_empty_line
//@sub /-> Result<\(\)>/ ==> -> (r: Result<()>)
//@auto C01
    fn add_empty_line(&mut self) -> (r: Result<()>)
        requires old(self).sr_inv(), tag_ok::<Vec<D::Annotation>>(), //@w
        ensures //@w
            final(self).sr_inv(), //@w @C02
            final(self).same_stacks(old(self)) && final(self).same_config(old(self)) && final(self).decorator == old(self).decorator, //@w @C09
            r.is_ok() ==> final(self).wrapping.is_none(), //@w @C03
            old(self).options.allow_width_overflow ==> r.is_ok(), //@w @C11
            r.is_ok() ==> final(self).wtotal() <= old(self).wtotal() + 0x4_0000_0000 || final(self).wtotal() <= old(self).width + 0x4_0000_0000, //@w @C01 #growth_bound
            final(self).lines@.len() >= old(self).lines@.len() && final(self).lines@.take(old(self).lines@.len() as int) =~= old(self).lines@, //@w @C03
            r.is_ok() ==> !final(self).at_block_end && final(self).lines@.len() >= old(self).lines@.len() + 1, //@w @C12 #empty_line_added
            r.is_ok() ==> (final(self).lines@.last() matches RenderLine::Text(t) && t.len == 0), //@w @C12 @C15 #empty_line_is_blank
            r.is_ok() && old(self).flushable() ==> final(self).rview() =~= old(self).rview(), //@w @C03 @C09 @C14 #blank_line_keeps_view
    {
        proof { lemma_flat_empty_te::<Vec<D::Annotation>>(); } //@w
        html_trace!("add_empty_line()");
        self.flush_all()?;
        self.add_line(RenderLine::Text(TaggedLine::new()));
        html_trace_quiet!("add_empty_line: at_block_end <- false");
        self.at_block_end = false;
        html_trace_quiet!("add_empty_line: new lines: {:?}", self.lines);
        Ok(())
    }
//@end
//@item src/render/text_renderer.rs :: impl Renderer for SubRenderer :: fn new_line_hard
//@sub /-> Result<\(\)>/ ==> -> (r: Result<()>)
//@auto C01 C12
    fn new_line_hard(&mut self) -> (r: Result<()>)
        requires old(self).sr_inv(), tag_ok::<Vec<D::Annotation>>(), //@w
        ensures //@w
            final(self).sr_inv(), //@w @C02
            final(self).same_stacks(old(self)) && final(self).same_config(old(self)) && final(self).decorator == old(self).decorator, //@w @C09
            r.is_ok() ==> final(self).wrapping.is_none(), //@w @C03
            old(self).options.allow_width_overflow ==> r.is_ok(), //@w @C11
            final(self).lines@.len() >= old(self).lines@.len() && final(self).lines@.take(old(self).lines@.len() as int) =~= old(self).lines@, //@w @C03
            // a hard line break on a line that has no text yet gives a blank line (C12: blank lines are kept); otherwise it only ends the line //@w
            r.is_ok() && (old(self).wrapping matches Some(w) ==> w.wordlen == 0 && w.line.len == 0) ==> //@w @C12 #br_on_empty_line_gives_blank_line
                final(self).lines@.len() >= old(self).lines@.len() + 1 && (final(self).lines@.last() matches RenderLine::Text(t) && t.len == 0), //@w @C12 #br_on_empty_line_gives_blank_line
            r.is_ok() && old(self).flushable() ==> final(self).rview() =~= old(self).rview(), //@w @C03 @C09 @C14 #line_break_keeps_view
    {
        match &self.wrapping {
            None => self.add_empty_line(),
            Some(wrapping) => {
                if wrapping.wordlen == 0 && wrapping.line.len == 0 {
                    self.add_empty_line()
                } else {
                    self.flush_all()
                }
            }
        }
    }
//@end
//@item src/render/text_renderer.rs :: impl Renderer for SubRenderer :: fn start_block
//@sub /-> Result<\(\)>/ ==> -> (r: Result<()>)
//@sub /self\.lines\.iter\(\)\.any\(\|l\| l\.has_content\(\)\)/ ==> ll_any_has_content(&self.lines)
//@auto C01
    fn start_block(&mut self) -> (r: Result<()>)
        requires old(self).sr_inv(), tag_ok::<Vec<D::Annotation>>(), //@w
        ensures //@w
            final(self).sr_inv(), //@w @C02
            final(self).same_stacks(old(self)) && final(self).same_config(old(self)) && final(self).decorator == old(self).decorator, //@w @C09
            r.is_ok() ==> final(self).wrapping.is_none(), //@w @C03
            old(self).options.allow_width_overflow ==> r.is_ok(), //@w @C11
            r.is_ok() ==> final(self).wtotal() <= old(self).wtotal() + 0x4_0000_0000 || final(self).wtotal() <= old(self).width + 0x4_0000_0000, //@w @C01 #growth_bound
            final(self).lines@.len() >= old(self).lines@.len() && final(self).lines@.take(old(self).lines@.len() as int) =~= old(self).lines@, //@w @C03
            r.is_ok() ==> !final(self).at_block_end, //@w
            r.is_ok() && old(self).flushable() ==> final(self).rview() =~= old(self).rview(), //@w @C03 @C09 @C14 #block_start_keeps_view
    {
        html_trace!("start_block({})", self.width);
        self.flush_all()?;
        if ll_any_has_content(&self.lines) {
            self.add_empty_line()?;
        }
        html_trace_quiet!("start_block; at_block_end <- false");
        self.at_block_end = false;
        Ok(())
    }
//@end
//@item src/render/text_renderer.rs :: impl Renderer for SubRenderer :: fn new_sub_renderer
//@sub /-> Result<Self>/ ==> -> (r: Result<Self>)
//@auto C01 C09
    fn new_sub_renderer(&self, width: usize) -> (r: Result<Self>)
        requires 1 <= width <= 0x1000_0000_0000_0000, tag_ok::<Vec<D::Annotation>>(), //@w
        ensures //@w
            r.is_ok(), //@w @C11
            // a sub-renderer starts with a COPY of the annotation stack (C09: annotations reach into nested blocks) //@w
            r matches Ok(s) ==> s.ann_stack@ == self.ann_stack@, //@w @C09 #sub_renderer_inherits_annotations
            r matches Ok(s) ==> s.options == self.options && s.width == width, //@w @C15 @C02 #sub_renderer_inherits_options
            r matches Ok(s) ==> s.sr_inv() && s.lines@.len() == 0 && s.wrapping.is_none() && s.pending_frags@.len() == 0, //@w @C03 #sub_renderer_starts_empty
    {
        let mut result = SubRenderer::new(
            width,
            self.options.clone(),
            self.decorator.make_subblock_decorator(),
        );
        // Copy the annotation stack
        result.ann_stack = self.ann_stack.clone();
        Ok(result)
    }
//@end
//@item src/render/text_renderer.rs :: impl Renderer for SubRenderer :: fn record_frag_start
//@auto C01 C14 C15
    fn record_frag_start(&mut self, fragname: &str)
        requires old(self).sr_inv(), tag_ok::<Vec<D::Annotation>>(), //@w
        ensures //@w
            final(self).sr_inv(), //@w @C02 #marker_keeps_inv
            final(self).same_stacks(old(self)) && final(self).same_config(old(self)) && final(self).lines@ == old(self).lines@ && final(self).pending_frags@ == old(self).pending_frags@, //@w @C14 #marker_frame
            // the marker is appended to the current word of the (possibly new) block: zero width, before any later text (C14) //@w
            final(self).wrapping matches Some(w2) && flat(w2.word.v@) =~= flat((match old(self).wrapping { Some(w) => w.word.v@, None => Seq::empty() })).push(CItem::Frag(fragname@)), //@w @C14 #marker_recorded_once
            old(self).wrapping.is_none() ==> (final(self).wrapping->Some_0).width == wrap_width_spec(old(self).options.wrap_width, old(self).width), //@w @C15 #marker_block_wrap_width
            // renderer-level view: exactly one marker with that name is added, after everything recorded so far //@w
            final(self).rview() =~= old(self).rview().push(CItem::Frag(fragname@)), //@w @C14 #marker_appended_to_view
    {
        use self::TaggedLineElement::FragmentStart;
        proof { lemma_flat_empty::<Vec<D::Annotation>>(); } //@w

        get_wrapping_or_insert::<D>(&mut self.wrapping, &self.options, self.width)
            .add_element(FragmentStart(fragname.to_string()));
        proof { //@w
            let w2 = self.wrapping->Some_0; //@w
            let e = seq![CItem::<Vec<D::Annotation>>::Frag(fragname@)]; //@w
            let ow = match old(self).wrapping { Some(w) => w.word.v@, None => Seq::empty() }; //@w
            assert(flat(w2.word.v@) =~= flat(ow) + e); //@w
            lemma_ns_concat(flat(ow), e); //@w
            assert(e.drop_last() =~= Seq::<CItem<Vec<D::Annotation>>>::empty()); //@w
            assert(ns(e.drop_last()) =~= Seq::<CItem<Vec<D::Annotation>>>::empty()); //@w
            assert(!is_sp(e.last())); //@w
            assert(ns(e) =~= e); //@w
            if old(self).wrapping is None { //@w
                lemma_all_ns_empty(w2.text@, w2.line.v@, ow); //@w
                lemma_flat_empty_te::<Vec<D::Annotation>>(); //@w
            } //@w
            assert(self.wpart() =~= old(self).wpart() + e); //@w
        } //@w
    }
//@end
//@item src/render/text_renderer.rs :: impl SubRenderer :: fn finalise
//@sub /-> Vec<TaggedLine<D::Annotation>>/ ==> -> (r: Vec<TaggedLine<D::Annotation>>)
//@auto C01 C08 C15
    fn finalise(&mut self, links: Vec<String>) -> (r: Vec<TaggedLine<D::Annotation>>)
        ensures //@w
            // footnote list only when enabled (C08, C15) //@w
            !old(self).options.include_link_footnotes ==> r@.len() == 0, //@w @C08 @C15 #no_footnotes_when_disabled
            old(self).options.include_link_footnotes ==> r@.len() == links@.len(), //@w @C08 #one_footnote_line_per_link
    {
        if self.options.include_link_footnotes {
            self.decorator.finalise(links)
        } else {
            self.decorator.finalise(Vec::new())
        }
    }
//@end
//@item src/render/text_renderer.rs :: impl Renderer for SubRenderer :: fn push_colour
//@auto C01 C09
    fn push_colour(&mut self, colour: Colour)
        ensures //@w
            // C09 / C19: an element with a winning colour puts exactly one annotation on the stack when the decorator annotates colours, and none otherwise //@w
            final(self).ann_stack@.len() == old(self).ann_stack@.len() + (if D::colours_spec() { 1int } else { 0int }) && final(self).ann_stack@.take(old(self).ann_stack@.len() as int) =~= old(self).ann_stack@, //@w @C09 @C19 #colour_pushes_exactly_one
            final(self).ws_stack@ == old(self).ws_stack@ && final(self).pre_depth == old(self).pre_depth && final(self).text_filter_stack@ == old(self).text_filter_stack@ && final(self).same_config(old(self)) && final(self).wrapping == old(self).wrapping && final(self).lines@ == old(self).lines@ && final(self).pending_frags@ == old(self).pending_frags@, //@w @C09
    {
        if let Some(ann) = self.decorator.push_colour(colour) {
            self.ann_stack.push(ann);
        }
    }
//@end
//@item src/render/text_renderer.rs :: impl Renderer for SubRenderer :: fn pop_colour
//@auto C01 C09
    fn pop_colour(&mut self)
        ensures //@w
            final(self).ann_stack@ =~= (if D::colours_spec() && old(self).ann_stack@.len() > 0 { old(self).ann_stack@.drop_last() } else { old(self).ann_stack@ }), //@w @C09 @C19 #colour_pops_exactly_one
            final(self).ws_stack@ == old(self).ws_stack@ && final(self).pre_depth == old(self).pre_depth && final(self).text_filter_stack@ == old(self).text_filter_stack@ && final(self).same_config(old(self)) && final(self).wrapping == old(self).wrapping && final(self).lines@ == old(self).lines@ && final(self).pending_frags@ == old(self).pending_frags@, //@w @C09
    {
        if self.decorator.pop_colour() {
            self.ann_stack.pop();
        }
    }
//@end
//@item src/render/text_renderer.rs :: impl Renderer for SubRenderer :: fn push_bgcolour
//@auto C01 C09
    fn push_bgcolour(&mut self, colour: Colour)
        ensures //@w
            // C09 / C19: an element with a winning colour puts exactly one annotation on the stack when the decorator annotates colours, and none otherwise //@w
            final(self).ann_stack@.len() == old(self).ann_stack@.len() + (if D::colours_spec() { 1int } else { 0int }) && final(self).ann_stack@.take(old(self).ann_stack@.len() as int) =~= old(self).ann_stack@, //@w @C09 @C19 #colour_pushes_exactly_one
            final(self).ws_stack@ == old(self).ws_stack@ && final(self).pre_depth == old(self).pre_depth && final(self).text_filter_stack@ == old(self).text_filter_stack@ && final(self).same_config(old(self)) && final(self).wrapping == old(self).wrapping && final(self).lines@ == old(self).lines@ && final(self).pending_frags@ == old(self).pending_frags@, //@w @C09
    {
        if let Some(ann) = self.decorator.push_bgcolour(colour) {
            self.ann_stack.push(ann);
        }
    }
//@end
//@item src/render/text_renderer.rs :: impl Renderer for SubRenderer :: fn pop_bgcolour
//@auto C01 C09
    fn pop_bgcolour(&mut self)
        ensures //@w
            final(self).ann_stack@ =~= (if D::colours_spec() && old(self).ann_stack@.len() > 0 { old(self).ann_stack@.drop_last() } else { old(self).ann_stack@ }), //@w @C09 @C19 #colour_pops_exactly_one
            final(self).ws_stack@ == old(self).ws_stack@ && final(self).pre_depth == old(self).pre_depth && final(self).text_filter_stack@ == old(self).text_filter_stack@ && final(self).same_config(old(self)) && final(self).wrapping == old(self).wrapping && final(self).lines@ == old(self).lines@ && final(self).pending_frags@ == old(self).pending_frags@, //@w @C09
    {
        if self.decorator.pop_bgcolour() {
            self.ann_stack.pop();
        }
    }
//@end
//@item src/render/text_renderer.rs :: impl Renderer for SubRenderer :: fn push_ws
//@auto C01 C12
    fn push_ws(&mut self, ws: WhiteSpace)
        ensures final(self).ws_stack@ == old(self).ws_stack@.push(ws) && final(self).pre_depth == old(self).pre_depth && final(self).ann_stack@ == old(self).ann_stack@ && final(self).text_filter_stack@ == old(self).text_filter_stack@ && final(self).same_config(old(self)) && final(self).wrapping == old(self).wrapping && final(self).lines@ == old(self).lines@ && final(self).pending_frags@ == old(self).pending_frags@ && final(self).at_block_end == old(self).at_block_end, //@w @C12 #push_ws
    {
        self.ws_stack.push(ws);
    }
//@end
//@item src/render/text_renderer.rs :: impl Renderer for SubRenderer :: fn pop_ws
//@auto C01 C12
    fn pop_ws(&mut self)
        ensures (old(self).ws_stack@.len() > 0 ==> final(self).ws_stack@ == old(self).ws_stack@.drop_last()) && (old(self).ws_stack@.len() == 0 ==> final(self).ws_stack@.len() == 0) && final(self).pre_depth == old(self).pre_depth && final(self).ann_stack@ == old(self).ann_stack@ && final(self).text_filter_stack@ == old(self).text_filter_stack@ && final(self).same_config(old(self)) && final(self).wrapping == old(self).wrapping && final(self).lines@ == old(self).lines@ && final(self).pending_frags@ == old(self).pending_frags@ && final(self).at_block_end == old(self).at_block_end, //@w @C12 #pop_ws
    {
        self.ws_stack.pop();
    }
//@end
//@item src/render/text_renderer.rs :: impl Renderer for SubRenderer :: fn push_preformat
//@auto C01 C12
    fn push_preformat(&mut self)
        requires old(self).pre_depth < usize::MAX, //@w
        ensures final(self).pre_depth == old(self).pre_depth + 1 && final(self).ws_stack@ == old(self).ws_stack@ && final(self).ann_stack@ == old(self).ann_stack@ && final(self).text_filter_stack@ == old(self).text_filter_stack@ && final(self).same_config(old(self)) && final(self).wrapping == old(self).wrapping && final(self).lines@ == old(self).lines@ && final(self).pending_frags@ == old(self).pending_frags@ && final(self).at_block_end == old(self).at_block_end, //@w @C12 #push_preformat
    {
        self.pre_depth += 1;
    }
//@end
//@item src/render/text_renderer.rs :: impl Renderer for SubRenderer :: fn pop_preformat
//@auto C01 C12
    fn pop_preformat(&mut self)
        requires old(self).pre_depth > 0, //@w @C01 #pop_preformat_paired
        ensures final(self).pre_depth == old(self).pre_depth - 1 && final(self).ws_stack@ == old(self).ws_stack@ && final(self).ann_stack@ == old(self).ann_stack@ && final(self).text_filter_stack@ == old(self).text_filter_stack@ && final(self).same_config(old(self)) && final(self).wrapping == old(self).wrapping && final(self).lines@ == old(self).lines@ && final(self).pending_frags@ == old(self).pending_frags@ && final(self).at_block_end == old(self).at_block_end, //@w @C12 #pop_preformat
    {
        debug_assert!(self.pre_depth > 0);
        self.pre_depth -= 1;
    }
//@end
//@item src/render/text_renderer.rs :: impl Renderer for SubRenderer :: fn end_block
//@auto C01 C12
    fn end_block(&mut self)
        ensures final(self).at_block_end && final(self).ws_stack@ == old(self).ws_stack@ && final(self).pre_depth == old(self).pre_depth && final(self).ann_stack@ == old(self).ann_stack@ && final(self).text_filter_stack@ == old(self).text_filter_stack@ && final(self).same_config(old(self)) && final(self).wrapping == old(self).wrapping && final(self).lines@ == old(self).lines@ && final(self).pending_frags@ == old(self).pending_frags@, //@w @C13 #end_block
    {
        self.at_block_end = true;
    }
//@end
//@item src/render/text_renderer.rs :: impl SubRenderer :: fn into_lines
//@sub /-> Result<LinkedList<RenderLine<Vec<D::Annotation>>>>/ ==> -> (r: Result<LinkedList<RenderLine<Vec<D::Annotation>>>>)
//@rule R19
//@auto C01 C02 C03
    fn into_lines(self) -> (r: Result<LinkedList<RenderLine<Vec<D::Annotation>>>>)
        requires self.sr_inv(), tag_ok::<Vec<D::Annotation>>(), //@w
        ensures //@w
            self.options.allow_width_overflow ==> r.is_ok(), //@w @C11 #into_lines_overflow_ok
            // every line a renderer hands over fits its width (C02) //@w
            r matches Ok(ls) ==> lines_ok(ls@, self.width, loose(self.options)), //@w @C02 #renderer_lines_fit
            r matches Ok(ls) ==> ls@.len() >= self.lines@.len() && ls@.take(self.lines@.len() as int) =~= self.lines@, //@w @C03 #into_lines_keeps_lines
            r matches Ok(ls) ==> forall|i: int| self.lines@.len() <= i < ls@.len() ==> short_line(#[trigger] ls@[i], self.width), //@w @C02 @C11 #block_lines_fit_block
            // the lines handed over carry every character the renderer holds, in order, once; only markers that no text line follows stay behind //@w
            r matches Ok(ls) ==> self.flushable() ==> exists|rest: Seq<CItem<Vec<D::Annotation>>>| #[trigger] only_frags(rest) && ns(rl_flat(ls@)) + rest =~= self.rview(), //@w @C03 @C09 #renderer_text_reaches_its_lines
    { let mut this = self;
        this.flush_wrapping()?;
        proof { //@w
            if self.flushable() { //@w
                let rest = flat(this.pending_frags@); //@w
                lemma_no_str_flat(this.pending_frags@); //@w
                assert(only_frags(rest) && ns(rl_flat(this.lines@)) + rest =~= self.rview()); //@w
            } //@w
        } //@w
        Ok(this.lines)
    }
//@end
//@item src/render/text_renderer.rs :: impl Renderer for SubRenderer :: fn append_subrender
//@sub /-> Result<\(\)>/ ==> -> (r: Result<()>)
//@sub /fn append_subrender<'a, I>\(&mut self, other: Self, prefixes: I\)/ ==> fn append_subrender(&mut self, other: Self, prefixes0: Prefixes)
//@sub /(?s)\n    where\n        I: Iterator<Item = &'a str>,/ ==> 
//@sub /(?s)self\.extend_lines\(\s*other\s*\.into_lines\(\)\?\s*\.into_iter\(\)\s*\.zip\(prefixes\)\s*\.map\(\|\(line, prefix\)\| match line \{/ ==> let mut prefixes = prefixes0;\n        let olines = ll_into_vec(other.into_lines()?);\n        for line in it: olines\n        {\n            let prefix = prefixes.next_prefix();\n            let newline = match line {
//@sub /(?s)\n                \}\),\n        \);/ ==> \n                };\n            self.add_line(newline);\n        }
//@sub 3 /prefix\.to_string\(\)/ ==> str_to_string(prefix)
//@sub /l\.to_string\(\)/ ==> border_to_string(&l)
//@sub /RenderLine::Text\(mut tline\) => \{/ ==> RenderLine::Text(tline0) => {\n                        let mut tline = tline0;
//@auto C01 C07 C02
    #[verifier::rlimit(100)] //@w
    #[verifier::spinoff_prover] //@w
    fn append_subrender(&mut self, other: Self, prefixes0: Prefixes) -> (r: Result<()>)
        requires old(self).sr_inv(), other.sr_inv(), tag_ok::<Vec<D::Annotation>>(), //@w
            other.options == old(self).options, //@w
            // A5 (boundary): finished lines of the nested renderer are far from overflowing usize //@w
            forall|i: int| 0 <= i < other.lines@.len() ==> (match #[trigger] other.lines@[i] { RenderLine::Text(t) => t.len <= 0x2000_0000_0000_0000, RenderLine::Line(b) => b.w <= 0x2000_0000_0000_0000 }), //@w
            // boundary (A6, established by the width_minus contracts of unit RN): prefix + sub-renderer width fit the parent, //@w
            // unless overflow is allowed; A5: prefixes are short //@w
            forall|k: int| k >= prefixes0.pos() ==> short(#[trigger] prefixes0.at(k)) && str_some(prefixes0.at(k)) && (sw(prefixes0.at(k)) + other.width <= old(self).width || loose(old(self).options)), //@w
        ensures //@w
            r.is_ok() ==> final(self).sr_inv(), //@w @C02 #append_keeps_lines_within_width
            final(self).same_stacks(old(self)) && final(self).same_config(old(self)), //@w @C09 #append_frame
            old(self).options.allow_width_overflow ==> r.is_ok(), //@w @C11
            final(self).lines@.len() >= old(self).lines@.len() && final(self).lines@.take(old(self).lines@.len() as int) =~= old(self).lines@, //@w @C03 #append_keeps_lines
            // every line of the nested renderer is appended once, in order, behind its prefix; nothing the parent held is lost (C03, C07, C16) //@w
            r.is_ok() && old(self).flushable() && other.flushable() ==> exists|ol: Seq<RenderLine<Vec<D::Annotation>>>, rest: Seq<CItem<Vec<D::Annotation>>>, tg: Vec<D::Annotation>| //@w @C03 @C07 @C16 #nested_lines_appended_with_prefixes
                #[trigger] sub_appended(old(self).rview(), final(self).rview(), other.rview(), ol, rest, prefixes0, tg, old(self).ann_stack@), //@w @C03 @C07 @C16 #nested_lines_appended_with_prefixes
    {
        use self::TaggedLineElement::Str;

        self.flush_wrapping()?;
        let tag = self.ann_stack.clone();
        let ghost v0 = self.rview(); //@w
        let ghost pos0 = prefixes0.pos(); //@w

        let mut prefixes = prefixes0;
        let olines = ll_into_vec(other.into_lines()?);
        proof { //@w
            assert forall|i: int| 0 <= i < olines@.len() implies (match #[trigger] olines@[i] { RenderLine::Text(t) => t.len <= 0x2000_0000_0000_0000, RenderLine::Line(b) => b.w <= 0x2000_0000_0000_0000 }) by { //@w
                if i < other.lines@.len() { assert(olines@.take(other.lines@.len() as int)[i] == olines@[i]); assert(olines@[i] == other.lines@[i]); } else { assert(short_line(olines@[i], other.width)); } //@w
            } //@w
        } //@w
        proof { assert(olines@.take(0) =~= Seq::<RenderLine<Vec<D::Annotation>>>::empty()); lemma_flat_empty_te::<Vec<D::Annotation>>(); } //@w
        for line in it: olines
            invariant //@w
                self.wrapping is None, prefixes.pos() == pos0 + it.index@, pos0 == prefixes0.pos(), //@w
                self.rview() =~= v0 + ns(pref_view(olines@.take(it.index@), prefixes0, pos0, tag)), //@w @C03 @C07 @C16 #nested_lines_appended_with_prefixes
                it.seq() == olines@, tag_ok::<Vec<D::Annotation>>(), self.sr_inv(), //@w
                self.same_stacks(old(self)) && self.same_config(old(self)), tag@ == old(self).ann_stack@, //@w
                lines_ok(olines@, other.width, loose(other.options)), //@w
                forall|i: int| 0 <= i < olines@.len() ==> (match #[trigger] olines@[i] { RenderLine::Text(t) => t.len <= 0x2000_0000_0000_0000, RenderLine::Line(b) => b.w <= 0x2000_0000_0000_0000 }), //@w
                other.options == self.options, other.width <= 0x1000_0000_0000_0000, //@w
                prefixes.pos() >= prefixes0.pos(), forall|k: int| prefixes.at(k) == prefixes0.at(k), //@w
                forall|k: int| k >= prefixes0.pos() ==> short(#[trigger] prefixes0.at(k)) && str_some(prefixes0.at(k)) && (sw(prefixes0.at(k)) + other.width <= self.width || loose(self.options)), //@w
                self.lines@.len() >= old(self).lines@.len() && self.lines@.take(old(self).lines@.len() as int) =~= old(self).lines@, //@w
        {
            let ghost pk = prefixes.pos(); //@w
            proof { //@w
                assert(rl_ok(olines@[it.index@], other.width, loose(other.options))); //@w
                assert(prefixes.at(pk) == prefixes0.at(pk)); //@w
                assert(short(prefixes0.at(pk)) && str_some(prefixes0.at(pk)) && (sw(prefixes0.at(pk)) + other.width <= self.width || loose(self.options))); //@w
                axiom_short_width(prefixes0.at(pk)); //@w
            } //@w
            let prefix = prefixes.next_prefix();
            let newline = match line {
                    RenderLine::Text(tline0) => {
                        let mut tline = tline0;
                        if !prefix.is_empty() {
                            tline.insert_front(TaggedString {
                                s: str_to_string(prefix),
                                tag: tag.clone(),
                            });
                        }
                        RenderLine::Text(tline)
                    }
                    RenderLine::Line(l) => {
                        let mut tline = TaggedLine::new();
                        tline.push(Str(TaggedString {
                            s: str_to_string(prefix),
                            tag: tag.clone(),
                        }));
                        tline.push(Str(TaggedString {
                            s: border_to_string(&l),
                            tag: tag.clone(),
                        }));
                        RenderLine::Text(tline)
                    }
                };
            // every line of the nested block gets its prefix in front (the quote mark / heading marker on every line, the //@w
            // bullet or number then blank indentation), tagged with the enclosing annotations (C07, C09) //@w
            assert(newline matches RenderLine::Text(t) && t.wf() && t.len == sw(prefix@) + (match olines@[it.index@] { RenderLine::Text(o) => o.len as int, RenderLine::Line(b) => b.w as int })); //@w @C02 @C07 @C16 #prefixed_line_width
            assert(olines@[it.index@] matches RenderLine::Text(o) ==> (newline matches RenderLine::Text(t) && flat(t.v@) =~= flat_str(prefix@, tag) + flat(o.v@))); //@w @C03 @C07 @C09 @C16 #every_line_gets_its_prefix
            assert(newline matches RenderLine::Text(t) && flat(t.v@) =~= pref_elt(olines@[it.index@], prefix@, tag)); //@w @C03 @C07 @C16 #every_line_gets_its_prefix
            let ghost vk = self.rview(); //@w
            self.add_line(newline);
            proof { //@w
                let k = it.index@; //@w
                lemma_pref_step(olines@, k, prefixes0, pos0, tag); //@w
                assert(self.rview() =~= vk + ns(rl_elt(newline))); //@w
                assert(rl_elt(newline) =~= pref_elt(olines@[k], prefixes0.at(pos0 + k), tag)); //@w
            } //@w
        }
        proof { //@w
            assert(olines@.take(olines@.len() as int) =~= olines@); //@w
            if old(self).flushable() && other.flushable() { //@w
                let rest = choose|rest: Seq<CItem<Vec<D::Annotation>>>| #[trigger] only_frags(rest) && ns(rl_flat(olines@)) + rest =~= other.rview(); //@w
                assert(sub_appended(old(self).rview(), self.rview(), other.rview(), olines@, rest, prefixes0, tag, old(self).ann_stack@)); //@w
            } //@w
        } //@w

        Ok(())
    }
//@end
//@item src/render/text_renderer.rs :: impl SubRenderer :: fn add_horizontal_line
//@sub /-> Result<\(\)>/ ==> -> (r: Result<()>)
//@auto C01 C05
    fn add_horizontal_line(&mut self, line: BorderHoriz<Vec<D::Annotation>>) -> (r: Result<()>)
        requires old(self).sr_inv(), tag_ok::<Vec<D::Annotation>>(), //@w
            line.w <= old(self).width || loose(old(self).options), //@w
        ensures //@w
            r.is_ok() ==> final(self).sr_inv(), //@w @C02
            final(self).same_stacks(old(self)) && final(self).same_config(old(self)) && final(self).decorator == old(self).decorator, //@w @C09
            old(self).options.allow_width_overflow ==> r.is_ok(), //@w @C11
            final(self).lines@.len() >= old(self).lines@.len() && final(self).lines@.take(old(self).lines@.len() as int) =~= old(self).lines@, //@w @C03
            r.is_ok() ==> final(self).wrapping.is_none() && final(self).lines@.last() == RenderLine::Line(line), //@w @C05 #rule_added_last
            // a rule adds no document content and loses none: the open block is closed first, pending markers stay pending //@w
            r.is_ok() && old(self).flushable() ==> final(self).rview() =~= old(self).rview(), //@w @C03 @C14 #rule_keeps_view
    {
        self.flush_wrapping()?;
        self.add_line(RenderLine::Line(line));
        Ok(())
    }
//@end
//@item src/render/text_renderer.rs :: impl Renderer for SubRenderer :: fn add_horizontal_border
//@sub /-> Result<\(\)>/ ==> -> (r: Result<()>)
//@auto C01 C05
    fn add_horizontal_border(&mut self) -> (r: Result<()>)
        requires old(self).sr_inv(), tag_ok::<Vec<D::Annotation>>(), //@w
        ensures //@w
            r.is_ok() ==> final(self).sr_inv(), //@w @C02
            final(self).same_stacks(old(self)) && final(self).same_config(old(self)) && final(self).decorator == old(self).decorator, //@w @C09
            old(self).options.allow_width_overflow ==> r.is_ok(), //@w @C11
            final(self).lines@.len() >= old(self).lines@.len() && final(self).lines@.take(old(self).lines@.len() as int) =~= old(self).lines@, //@w @C03
            r.is_ok() ==> final(self).wrapping.is_none() && (final(self).lines@.last() matches RenderLine::Line(b) && b.w == old(self).width), //@w @C05 #full_width_rule_added
            // a rule adds no document content and loses none: the open block is closed first, pending markers stay pending //@w
            r.is_ok() && old(self).flushable() ==> final(self).rview() =~= old(self).rview(), //@w @C03 @C14 #rule_keeps_view
    {
        self.flush_wrapping()?;
        self.add_line(RenderLine::Line(BorderHoriz::new(
            self.width,
            self.ann_stack.clone(),
        )));
        Ok(())
    }
//@end
//@item src/render/text_renderer.rs :: impl Renderer for SubRenderer :: fn add_horizontal_border_width
//@sub /-> Result<\(\)>/ ==> -> (r: Result<()>)
//@auto C01 C05
    fn add_horizontal_border_width(&mut self, width: usize) -> (r: Result<()>)
        requires old(self).sr_inv(), tag_ok::<Vec<D::Annotation>>(), //@w
            width <= old(self).width || loose(old(self).options), //@w
        ensures //@w
            r.is_ok() ==> final(self).sr_inv(), //@w @C02
            final(self).same_stacks(old(self)) && final(self).same_config(old(self)) && final(self).decorator == old(self).decorator, //@w @C09
            old(self).options.allow_width_overflow ==> r.is_ok(), //@w @C11
            final(self).lines@.len() >= old(self).lines@.len() && final(self).lines@.take(old(self).lines@.len() as int) =~= old(self).lines@, //@w @C03
            r.is_ok() ==> final(self).wrapping.is_none() && (final(self).lines@.last() matches RenderLine::Line(b) && b.w == width), //@w @C05 #rule_of_given_width_added
            // a rule adds no document content and loses none: the open block is closed first, pending markers stay pending //@w
            r.is_ok() && old(self).flushable() ==> final(self).rview() =~= old(self).rview(), //@w @C03 @C14 #rule_keeps_view
    {
        self.flush_wrapping()?;
        self.add_line(RenderLine::Line(BorderHoriz::new(
            width,
            self.ann_stack.clone(),
        )));
        Ok(())
    }
//@end
//@item src/render/text_renderer.rs :: impl Renderer for SubRenderer :: fn append_vert_row
//@sub /fn append_vert_row<I>\(&mut self, cols: I\) -> Result<\(\)>/ ==> fn append_vert_row(&mut self, cols: Vec<Self>) -> (r: Result<()>)
//@sub /(?s)\n    where\n        I: IntoIterator<Item = Self>,\n        Self: Sized,/ ==> 
//@sub /for col in cols/ ==> for col in it: cols
//@sub /BorderHoriz::new_type\(\s*width,\s*BorderSegHoriz::StraightVert,\s*self\.ann_stack\.clone\(\),\s*\)/ ==> BorderHoriz::new_vert(width, self.ann_stack.clone())
//@sub /std::iter::repeat\(""\)/ ==> Prefixes::repeat_empty()
//@sub /let width = self\.width\(\);/ ==> let width = self.width;
//@auto C01 C05 C02
    fn append_vert_row(&mut self, cols: Vec<Self>) -> (r: Result<()>)
        requires old(self).sr_inv(), tag_ok::<Vec<D::Annotation>>(), //@w[
            // boundary (A6): the cells of a stacked row are rendered at the full width (TB `stacked_full_width`) with the parent's options; A5
            forall|k: int| 0 <= k < cols@.len() ==> (#[trigger] cols@[k]).sr_inv() && cols@[k].options == old(self).options && (cols@[k].width <= old(self).width || loose(old(self).options))
                && forall|i: int| 0 <= i < cols@[k].lines@.len() ==> (match #[trigger] cols@[k].lines@[i] { RenderLine::Text(t) => t.len <= 0x2000_0000_0000_0000, RenderLine::Line(b) => b.w <= 0x2000_0000_0000_0000 }),
        ensures
            r.is_ok() ==> final(self).sr_inv(), //@w @C02 #stacked_row_lines_fit
            final(self).same_stacks(old(self)) && final(self).same_config(old(self)), //@w @C09
            old(self).options.allow_width_overflow ==> r.is_ok(), //@w @C11
            final(self).lines@.len() >= old(self).lines@.len() && final(self).lines@.take(old(self).lines@.len() as int) =~= old(self).lines@, //@w @C03
            // a stacked row ends with a full-width rule when borders are drawn (C05)
            r.is_ok() && old(self).options.draw_borders ==> (final(self).lines@.last() matches RenderLine::Line(b) && b.w == old(self).width), //@w @C05 @C15 #stacked_row_ends_with_full_width_rule
        //@w]
    {
        html_trace!("append_vert_row()");
        html_trace!("self=\n{}", self.to_string());

        self.flush_wrapping()?;

        let width = self.width;

        let mut first = true;
        for col in it: cols
            invariant //@w[ @C02 @C03 @C05 @C09 @C11 @C15 #append_vert_row_loop_invariant
                it.seq() == cols@, self.sr_inv(), tag_ok::<Vec<D::Annotation>>(), width == self.width, self.width == old(self).width,
                self.same_stacks(old(self)) && self.same_config(old(self)),
                forall|k: int| 0 <= k < cols@.len() ==> (#[trigger] cols@[k]).sr_inv() && cols@[k].options == old(self).options && (cols@[k].width <= old(self).width || loose(old(self).options))
                    && forall|i: int| 0 <= i < cols@[k].lines@.len() ==> (match #[trigger] cols@[k].lines@[i] { RenderLine::Text(t) => t.len <= 0x2000_0000_0000_0000, RenderLine::Line(b) => b.w <= 0x2000_0000_0000_0000 }),
                self.lines@.len() >= old(self).lines@.len() && self.lines@.take(old(self).lines@.len() as int) =~= old(self).lines@,
            //@w]
        {
            proof { assert(col == cols@[it.index@]); lemma_empty_prefix(); } //@w
            let ghost before = self.lines@; //@w
            if first {
                first = false;
            } else if self.options.draw_borders {
                let border = BorderHoriz::new_vert(width, self.ann_stack.clone());
                self.add_horizontal_line(border)?;
            }
            self.append_subrender(col, Prefixes::repeat_empty())?;
        }
        if self.options.draw_borders {
            self.add_horizontal_border()?;
        }
        Ok(())
    }
//@end
//@item src/render/text_renderer.rs :: impl SubRenderer :: fn fmt_links
//@sub /fn fmt_links\(&mut self, mut links: Vec<TaggedLine<D::Annotation>>\)/ ==> fn fmt_links(&mut self, links: Vec<TaggedLine<D::Annotation>>)
//@sub /for line in links\.drain\(\.\.\)/ ==> for line in itl: links
//@sub /let mut pos = 0;/ ==> let mut pos: usize = 0;
//@sub /for ts in line\.into_tagged_strings\(\)/ ==> let tss = line_tagged_strings(line);\n            for ts in its: tss
//@sub /ts\.s\.replace\('\\n', " "\)/ ==> replace_newlines(&ts.s)
//@sub /let tag = vec!\[ts\.tag\];/ ==> let tag = vec_one(ts.tag);
//@sub /for c in s\.chars\(\)/ ==> for c in itc: s.chars()
//@sub /s: s\.to_owned\(\),/ ==> s: string_to_owned(&s),
//@sub /let mut wrapped_line = TaggedLine::new\(\);/ ==> let mut wrapped_line: TaggedLine<Vec<D::Annotation>> = TaggedLine::new();
//@auto C01 C02 C08 C15
    #[verifier::spinoff_prover] //@w
    fn fmt_links(&mut self, links: Vec<TaggedLine<D::Annotation>>)
        requires old(self).sr_inv(), tag_ok::<Vec<D::Annotation>>(), //@w
            // KNOWN FINDING D13: at width 1 a double-width character of a link target is emitted on a line of its own, two columns wide, //@w
            // without width overflow having been allowed; verified for widths >= 2 //@w
            old(self).width >= 2, //@w kf=D13 #footnote_width_at_least_2
        ensures //@w
            // the footnote list is hard-wrapped to the width (C02; when links are left wrappable): every added line keeps the renderer invariant //@w
            final(self).sr_inv(), //@w @C02 #footnote_lines_fit
            final(self).same_stacks(old(self)) && final(self).same_config(old(self)), //@w @C09
            final(self).lines@.len() >= old(self).lines@.len() + links@.len() && final(self).lines@.take(old(self).lines@.len() as int) =~= old(self).lines@, //@w @C08 @C03 #one_or_more_lines_per_footnote
    {
        for line in itl: links
            invariant //@w
                self.sr_inv(), tag_ok::<Vec<D::Annotation>>(), self.same_stacks(old(self)) && self.same_config(old(self)), //@w @C02 @C03 @C08 @C09 #fmt_links_loop_invariant
                self.width >= 2, //@w kf=D13
                self.lines@.len() >= old(self).lines@.len() + itl.index@ && itl.index@ >= 0 && self.lines@.take(old(self).lines@.len() as int) =~= old(self).lines@, //@w @C02 @C03 @C08 @C09 #fmt_links_loop_invariant
        {
            /* Hard wrap */
            let mut pos: usize = 0;
            let mut wrapped_line: TaggedLine<Vec<D::Annotation>> = TaggedLine::new();
            let tss = line_tagged_strings(line);
            for ts in its: tss
                invariant //@w
                    self.sr_inv(), tag_ok::<Vec<D::Annotation>>(), self.same_stacks(old(self)) && self.same_config(old(self)), //@w @C02 @C03 @C08 @C09 #fmt_links_loop_invariant
                    its.seq() == tss@, tss@.len() <= 0x10_0000, forall|i: int| 0 <= i < tss@.len() ==> short(#[trigger] tss@[i].s@), //@w @C02 @C03 @C08 @C09 #fmt_links_loop_invariant
                    self.width >= 2, //@w kf=D13
                    wrapped_line.wf(), wrapped_line.len == pos, pos <= its.index@ * 0x2_0000_0000 + self.width, //@w @C02 @C03 @C08 @C09 #fmt_links_loop_invariant
                    self.options.wrap_links ==> pos <= self.width, //@w @C02 @C03 @C08 @C09 #fmt_links_loop_invariant
                    self.lines@.len() >= old(self).lines@.len() + itl.index@ && itl.index@ >= 0 && self.lines@.take(old(self).lines@.len() as int) =~= old(self).lines@, //@w @C02 @C03 @C08 @C09 #fmt_links_loop_invariant
            {
                proof { assert(short(tss@[its.index@].s@)); } //@w
                // FIXME: should we percent-escape?  This is probably
                // an invalid URL to start with.
                let s = replace_newlines(&ts.s);
                let tag = vec_one(ts.tag);

                let width = s.width();
                proof { axiom_short_width(s@); } //@w
                if self.options.wrap_links && pos + width > self.width {
                    // split the string and start a new line
                    let mut buf = String::new();
                    let ghost pos_in = pos; //@w
                    for c in itc: s.chars()
                        invariant //@w
                            self.sr_inv(), tag_ok::<Vec<D::Annotation>>(), self.same_stacks(old(self)) && self.same_config(old(self)), //@w @C02 @C03 @C08 @C09 #fmt_links_loop_invariant
                            wrapped_line.wf(), wrapped_line.len + sw(buf@) == pos, pos <= self.width, self.options.wrap_links, //@w @C02 @C03 @C08 @C09 #fmt_links_loop_invariant
                            self.width >= 2, //@w kf=D13
                            self.lines@.len() >= old(self).lines@.len() + itl.index@ && itl.index@ >= 0 && self.lines@.take(old(self).lines@.len() as int) =~= old(self).lines@, //@w @C02 @C03 @C08 @C09 #fmt_links_loop_invariant
                    {
                        let c_width = UnicodeWidthChar::width(c).unwrap_or(0);
                        if pos + c_width > self.width {
                            if !buf.is_empty() {
                                wrapped_line.push_str(TaggedString {
                                    s: buf,
                                    tag: tag.clone(),
                                });
                                buf = String::new();
                            }
                            let ghost before = self.lines@; //@w

                            self.add_line(RenderLine::Text(wrapped_line));
                            proof { assert(self.lines@.drop_last() == before); assert(self.lines@ =~= before.push(self.lines@.last())); assert(before.push(self.lines@.last()).take(old(self).lines@.len() as int) =~= before.take(old(self).lines@.len() as int)); } //@w
                            wrapped_line = TaggedLine::new();
                            pos = 0;
                        }
                        pos += c_width;
                        let ghost b0 = buf@; //@w
                        buf.push(c);
                        proof { lemma_sw_concat(b0, seq![c]); lemma_sw_one(c); assert(buf@ =~= b0 + seq![c]); lemma_sw_empty(); } //@w
                    }
                    wrapped_line.push_str(TaggedString { s: buf, tag });
                } else {
                    wrapped_line.push_str(TaggedString {
                        s: string_to_owned(&s),
                        tag,
                    });
                    pos += width;
                }
            }
            self.add_line(RenderLine::Text(wrapped_line));
        }
    }
//@end
//@item src/render/text_renderer.rs :: impl SubRenderer :: fn ws_mode
//@sub /-> WhiteSpace/ ==> -> (r: WhiteSpace)
//@sub /self\.ws_stack\.last\(\)\.cloned\(\)\.unwrap_or\(WhiteSpace::Normal\)/ ==> match self.ws_stack.last() { Some(w) => *w, None => WhiteSpace::Normal }
//@auto C01 C13
    fn ws_mode(&self) -> (r: WhiteSpace)
        ensures r == self.ws_mode_spec(), //@w @C13 @C12 #ws_mode_is_top_of_stack
    {
        match self.ws_stack.last() { Some(w) => *w, None => WhiteSpace::Normal }
    }
//@end
//@item src/render/text_renderer.rs :: impl Renderer for SubRenderer :: fn add_inline_text
//@sub /-> Result<\(\)>/ ==> -> (r: Result<()>)
//@sub /text\.chars\(\)\.all\(char::is_whitespace\)/ ==> str_all_whitespace(text)
//@sub /let mut s = None;/ ==> let mut s: Option<String> = None;
//@sub /for filter in &self\.text_filter_stack/ ==> for filter in it: &self.text_filter_stack
//@sub 2 /s\.as_deref\(\)\.unwrap_or\(text\)/ ==> opt_as_deref_or(&s, text)
//@sub /filter\(srctext\)/ ==> filter.call(srctext)
//@auto C01 C09
    #[verifier::rlimit(100)] //@w
    #[verifier::spinoff_prover] //@w
    fn add_inline_text(&mut self, text: &str) -> (r: Result<()>)
        requires old(self).sr_inv(), old(self).room(), short(text@), tag_ok::<Vec<D::Annotation>>(), //@w
        ensures //@w
            r.is_ok() ==> final(self).sr_inv(), //@w @C02 #inline_text_inv
            r.is_ok() ==> final(self).wtotal() <= old(self).wtotal() + 0x4_0000_0000 || final(self).wtotal() <= old(self).width + 0x4_0000_0000, //@w @C01 #inline_text_growth
            // inline text never touches the annotation / white-space / filter stacks or the configuration (C09) //@w
            final(self).same_stacks(old(self)) && final(self).same_config(old(self)) && final(self).decorator == old(self).decorator, //@w @C09 #inline_text_keeps_stacks
            old(self).options.allow_width_overflow ==> r.is_ok(), //@w @C11 #inline_text_overflow_ok
            // white space between blocks is ignored in collapsing modes (C13) //@w
            !old(self).ws_mode_spec().preserve_spec() && old(self).at_block_end && all_ws(text@) ==> r.is_ok() && *final(self) == *old(self), //@w @C13 #interblock_whitespace_ignored
            final(self).lines@.len() >= old(self).lines@.len() && final(self).lines@.take(old(self).lines@.len() as int) =~= old(self).lines@, //@w @C03 #inline_text_keeps_lines
            // L2 (C03, C09, C16): the open block gains exactly the kept characters of the text as it comes out of the filter stack, //@w
            // in order and tagged with the annotation stack; nothing else reaches it //@w
            r.is_ok() ==> emitted(old(self).block_base(), old(self).ign(), final(self).wrapping, old(self).text_filter_stack@, text@, old(self).ann_stack@, old(self).pre_depth > 0), //@w @C03 @C04 @C09 @C16 #inline_text_reaches_block_verbatim
            // in white-space preserving modes no text is skipped, white space included: it always reaches the (possibly new) block (C12) //@w
            r.is_ok() && old(self).ws_mode_spec().preserve_spec() ==> final(self).wrapping is Some, //@w @C12 #preformatted_text_always_reaches_block
            // inline text inside an open block touches neither the finished lines nor the pending markers //@w
            !old(self).at_block_end ==> final(self).lines@ == old(self).lines@ && final(self).pending_frags@ == old(self).pending_frags@, //@w @C03 @C14 #inline_text_only_touches_block
            // L3: what the renderer holds afterwards is what it held before followed by those characters; nothing before them is lost, duplicated or reordered //@w
            r.is_ok() && !(old(self).ign() && all_ws(text@)) && (old(self).at_block_end ==> old(self).flushable()) ==> //@w @C03 @C04 @C09 #inline_text_appended_to_view
                emitted_view(old(self).rview(), final(self).rview(), old(self).text_filter_stack@, text@, old(self).ann_stack@, old(self).pre_depth > 0), //@w @C03 @C04 @C09 #inline_text_appended_to_view
    {
        html_trace!("add_inline_text({}, {})", self.width, text);
        if !self.ws_mode().preserve_whitespace()
            && self.at_block_end
            && str_all_whitespace(text)
        {
            // Ignore whitespace between blocks.
            return Ok(());
        }
        if self.at_block_end {
            self.start_block()?;
        }
        let ghost mid_lines = self.lines@; //@w
        let ghost mid_pf = self.pending_frags@; //@w
        let mut s: Option<String> = None;
        // Do any filtering of the text
        for filter in it: &self.text_filter_stack
            invariant //@w
                (match s { Some(x) => x@, None => text@ }) == filt(self.text_filter_stack@, it.index@, text@), //@w @C16 #filters_applied_in_order
                !old(self).at_block_end ==> self.wrapping == old(self).wrapping, old(self).at_block_end ==> self.wrapping is None, //@w
                self.lines@ == mid_lines && self.pending_frags@ == mid_pf, //@w
                self.sr_inv(), self.same_stacks(old(self)) && self.same_config(old(self)) && self.decorator == old(self).decorator, //@w
                self.wtotal() <= old(self).wtotal() || self.wtotal() <= self.width, //@w
                self.lines@.len() >= old(self).lines@.len() && self.lines@.take(old(self).lines@.len() as int) =~= old(self).lines@, //@w
        {
            let srctext = opt_as_deref_or(&s, text);
            if let Some(filtered) = filter.call(srctext) {
                s = Some(filtered);
            }
        }
        let filtered_text = opt_as_deref_or(&s, text);
        proof { assume_filtered_short(filtered_text@); } //@w
        let ws_mode = self.ws_mode();
        assert(filtered_text@ == filt(old(self).text_filter_stack@, old(self).text_filter_stack@.len() as int, text@)); //@w @C16 #filters_applied_in_order
        let ghost wr0 = self.wrapping; //@w
        let wrapping = get_wrapping_or_insert::<D>(&mut self.wrapping, &self.options, self.width);
        let ghost base = all_ns(wrapping.text@, wrapping.line.v@, wrapping.word.v@); //@w
        proof { if wr0 is None { lemma_all_ns_empty(wrapping.text@, wrapping.line.v@, wrapping.word.v@); } assert(base =~= old(self).block_base()); } //@w
        // tagging rule (C09, C12): text is tagged with the current annotation stack; inside <pre> the first piece of a line gets //@w
        // the stack + preformat-first, continuation pieces the stack + preformat-continuation //@w
        let ghost stack0 = self.ann_stack@; //@w
        let mut pre_tag_start;
        let mut pre_tag_cont;

        let main_tag;
        let cont_tag;
        if self.pre_depth > 0 {
            pre_tag_start = self.ann_stack.clone();
            pre_tag_cont = self.ann_stack.clone();
            pre_tag_start.push(self.decorator.decorate_preformat_first());
            pre_tag_cont.push(self.decorator.decorate_preformat_cont());
            main_tag = &pre_tag_start;
            cont_tag = &pre_tag_cont;
        } else {
            main_tag = &self.ann_stack;
            cont_tag = &self.ann_stack;
        }
        assert(self.pre_depth == 0 ==> main_tag@ == stack0 && cont_tag@ == stack0); //@w @C09 #text_tagged_with_stack
        assert(self.pre_depth > 0 ==> main_tag@.drop_last() == stack0 && cont_tag@.drop_last() == stack0 && main_tag@.len() == stack0.len() + 1 && cont_tag@.len() == stack0.len() + 1); //@w @C09 @C12 #pre_text_tagged_with_stack_plus_preformat
        assert(ws_mode == old(self).ws_mode_spec()); //@w @C12 @C13 #text_added_in_current_ws_mode
        wrapping.add_text(filtered_text, ws_mode, main_tag, cont_tag)?;
        proof { //@w
            assert(appended_b(base, wrapping.text@, wrapping.line.v@, wrapping.word.v@, kept(filtered_text@), *main_tag, *cont_tag)); //@w
            let acc = choose|acc: Seq<CItem<Vec<D::Annotation>>>| #[trigger] tagged_by(acc, kept(filtered_text@), *main_tag, *cont_tag) && all_ns(wrapping.text@, wrapping.line.v@, wrapping.word.v@) =~= base + acc; //@w
            if old(self).at_block_end ==> old(self).flushable() { //@w
                let v_mid = ns(rl_flat(mid_lines)) + flat(mid_pf) + base; //@w
                assert(v_mid =~= old(self).rview()); //@w @C03 @C04 @C09 #inline_text_appended_to_view
                assert(self.rview() =~= old(self).rview() + acc); //@w @C03 @C04 @C09 #inline_text_appended_to_view
                assert(tagged_by(acc, kept(filtered_text@), *main_tag, *cont_tag) && self.rview() =~= old(self).rview() + acc); //@w
            } //@w
        } //@w
        Ok(())
    }
//@end
//@item src/render/text_renderer.rs :: impl Renderer for SubRenderer :: fn start_link
//@sub /-> Result<\(\)>/ ==> -> (r: Result<()>)
//@auto C01 C09
    fn start_link(&mut self, target: &str) -> (r: Result<()>)
        requires old(self).sr_inv(), old(self).headroom(), tag_ok::<Vec<D::Annotation>>(), //@w
        ensures //@w
            r.is_ok() ==> final(self).sr_inv(), //@w @C02
            // exactly one annotation is pushed on an otherwise unchanged stack (C09) //@w
            final(self).ann_stack@.len() == old(self).ann_stack@.len() + 1 && final(self).ann_stack@.drop_last() == old(self).ann_stack@, //@w @C09 #start_pushes_one_annotation
            final(self).ws_stack@ == old(self).ws_stack@ && final(self).pre_depth == old(self).pre_depth && final(self).same_config(old(self)), //@w @C04 @C09 @C13 #start_keeps_other_stacks
            final(self).text_filter_stack@ == old(self).text_filter_stack@, //@w @C15 #filters_unchanged
            old(self).options.allow_width_overflow ==> r.is_ok(), //@w @C11
            r.is_ok() ==> final(self).wtotal() <= old(self).wtotal() + 0x4_0000_0000 || final(self).wtotal() <= old(self).width + 0x4_0000_0000, //@w @C01 #growth_bound
    {
        let (s, annotation) = self.decorator.decorate_link_start(target);
        self.ann_stack.push(annotation);
        self.add_inline_text(&s)
    }
//@end
//@item src/render/text_renderer.rs :: impl Renderer for SubRenderer :: fn end_link
//@sub /-> Result<\(\)>/ ==> -> (r: Result<()>)
//@auto C01 C09
    fn end_link(&mut self) -> (r: Result<()>)
        requires old(self).sr_inv(), old(self).headroom(), tag_ok::<Vec<D::Annotation>>(), //@w
            old(self).ann_stack@.len() > 0, //@w #paired_with_start
 //@w
        ensures //@w
            r.is_ok() ==> final(self).sr_inv(), //@w @C02
            // the annotation pushed by the matching start is popped, nothing else (C09: no annotation leaks past its element) //@w
            r.is_ok() ==> final(self).ann_stack@ == old(self).ann_stack@.drop_last(), //@w @C09 #end_pops_one_annotation
            final(self).ws_stack@ == old(self).ws_stack@ && final(self).pre_depth == old(self).pre_depth && final(self).same_config(old(self)), //@w @C04 @C09 @C13 #end_keeps_other_stacks
            final(self).text_filter_stack@ == old(self).text_filter_stack@, //@w @C15 #filters_unchanged
            old(self).options.allow_width_overflow ==> r.is_ok(), //@w @C11
            r.is_ok() ==> final(self).wtotal() <= old(self).wtotal() + 0x4_0000_0000 || final(self).wtotal() <= old(self).width + 0x4_0000_0000, //@w @C01 #growth_bound
    {
        let s = self.decorator.decorate_link_end();
        self.add_inline_text(&s)?;
        self.ann_stack.pop();
        Ok(())
    }
//@end
//@item src/render/text_renderer.rs :: impl Renderer for SubRenderer :: fn start_emphasis
//@sub /-> Result<\(\)>/ ==> -> (r: Result<()>)
//@auto C01 C09
    fn start_emphasis(&mut self) -> (r: Result<()>)
        requires old(self).sr_inv(), old(self).headroom(), tag_ok::<Vec<D::Annotation>>(), //@w
        ensures //@w
            r.is_ok() ==> final(self).sr_inv(), //@w @C02
            // exactly one annotation is pushed on an otherwise unchanged stack (C09) //@w
            final(self).ann_stack@.len() == old(self).ann_stack@.len() + 1 && final(self).ann_stack@.drop_last() == old(self).ann_stack@, //@w @C09 #start_pushes_one_annotation
            final(self).ws_stack@ == old(self).ws_stack@ && final(self).pre_depth == old(self).pre_depth && final(self).same_config(old(self)), //@w @C04 @C09 @C13 #start_keeps_other_stacks
            final(self).text_filter_stack@ == old(self).text_filter_stack@, //@w @C15 #filters_unchanged
            old(self).options.allow_width_overflow ==> r.is_ok(), //@w @C11
            r.is_ok() ==> final(self).wtotal() <= old(self).wtotal() + 0x4_0000_0000 || final(self).wtotal() <= old(self).width + 0x4_0000_0000, //@w @C01 #growth_bound
            // the decorator's prefix goes to the open block verbatim, before the element's own text filter applies, already tagged with the new annotation (C16, C09) //@w
            r.is_ok() ==> emitted(old(self).block_base(), old(self).ign(), final(self).wrapping, old(self).text_filter_stack@, old(self).decorator.em_start_spec(), final(self).ann_stack@, old(self).pre_depth > 0), //@w @C16 @C09 #prefix_emitted_verbatim
    {
        let (s, annotation) = self.decorator.decorate_em_start();
        self.ann_stack.push(annotation);
        self.add_inline_text(&s)
    }
//@end
//@item src/render/text_renderer.rs :: impl Renderer for SubRenderer :: fn end_emphasis
//@sub /-> Result<\(\)>/ ==> -> (r: Result<()>)
//@auto C01 C09
    fn end_emphasis(&mut self) -> (r: Result<()>)
        requires old(self).sr_inv(), old(self).headroom(), tag_ok::<Vec<D::Annotation>>(), //@w
            old(self).ann_stack@.len() > 0, //@w #paired_with_start
 //@w
        ensures //@w
            r.is_ok() ==> final(self).sr_inv(), //@w @C02
            // the annotation pushed by the matching start is popped, nothing else (C09: no annotation leaks past its element) //@w
            r.is_ok() ==> final(self).ann_stack@ == old(self).ann_stack@.drop_last(), //@w @C09 #end_pops_one_annotation
            final(self).ws_stack@ == old(self).ws_stack@ && final(self).pre_depth == old(self).pre_depth && final(self).same_config(old(self)), //@w @C04 @C09 @C13 #end_keeps_other_stacks
            final(self).text_filter_stack@ == old(self).text_filter_stack@, //@w @C15 #filters_unchanged
            old(self).options.allow_width_overflow ==> r.is_ok(), //@w @C11
            r.is_ok() ==> final(self).wtotal() <= old(self).wtotal() + 0x4_0000_0000 || final(self).wtotal() <= old(self).width + 0x4_0000_0000, //@w @C01 #growth_bound
            // the decorator's suffix goes to the open block verbatim, outside the element's own text filter, tagged like the element's text (C16, C09) //@w
            r.is_ok() ==> emitted(old(self).block_base(), old(self).ign(), final(self).wrapping, old(self).text_filter_stack@, old(self).decorator.em_end_spec(), old(self).ann_stack@, old(self).pre_depth > 0), //@w @C16 @C09 #suffix_emitted_verbatim
    {
        let s = self.decorator.decorate_em_end();
        self.add_inline_text(&s)?;
        self.ann_stack.pop();
        Ok(())
    }
//@end
//@item src/render/text_renderer.rs :: impl Renderer for SubRenderer :: fn start_strong
//@sub /-> Result<\(\)>/ ==> -> (r: Result<()>)
//@auto C01 C09
    fn start_strong(&mut self) -> (r: Result<()>)
        requires old(self).sr_inv(), old(self).headroom(), tag_ok::<Vec<D::Annotation>>(), //@w
        ensures //@w
            r.is_ok() ==> final(self).sr_inv(), //@w @C02
            // exactly one annotation is pushed on an otherwise unchanged stack (C09) //@w
            final(self).ann_stack@.len() == old(self).ann_stack@.len() + 1 && final(self).ann_stack@.drop_last() == old(self).ann_stack@, //@w @C09 #start_pushes_one_annotation
            final(self).ws_stack@ == old(self).ws_stack@ && final(self).pre_depth == old(self).pre_depth && final(self).same_config(old(self)), //@w @C04 @C09 @C13 #start_keeps_other_stacks
            final(self).text_filter_stack@ == old(self).text_filter_stack@, //@w @C15 #filters_unchanged
            old(self).options.allow_width_overflow ==> r.is_ok(), //@w @C11
            r.is_ok() ==> final(self).wtotal() <= old(self).wtotal() + 0x4_0000_0000 || final(self).wtotal() <= old(self).width + 0x4_0000_0000, //@w @C01 #growth_bound
            // the decorator's prefix goes to the open block verbatim, before the element's own text filter applies, already tagged with the new annotation (C16, C09) //@w
            r.is_ok() ==> emitted(old(self).block_base(), old(self).ign(), final(self).wrapping, old(self).text_filter_stack@, old(self).decorator.strong_start_spec(), final(self).ann_stack@, old(self).pre_depth > 0), //@w @C16 @C09 #prefix_emitted_verbatim
    {
        let (s, annotation) = self.decorator.decorate_strong_start();
        self.ann_stack.push(annotation);
        self.add_inline_text(&s)
    }
//@end
//@item src/render/text_renderer.rs :: impl Renderer for SubRenderer :: fn end_strong
//@sub /-> Result<\(\)>/ ==> -> (r: Result<()>)
//@auto C01 C09
    fn end_strong(&mut self) -> (r: Result<()>)
        requires old(self).sr_inv(), old(self).headroom(), tag_ok::<Vec<D::Annotation>>(), //@w
            old(self).ann_stack@.len() > 0, //@w #paired_with_start
 //@w
        ensures //@w
            r.is_ok() ==> final(self).sr_inv(), //@w @C02
            // the annotation pushed by the matching start is popped, nothing else (C09: no annotation leaks past its element) //@w
            r.is_ok() ==> final(self).ann_stack@ == old(self).ann_stack@.drop_last(), //@w @C09 #end_pops_one_annotation
            final(self).ws_stack@ == old(self).ws_stack@ && final(self).pre_depth == old(self).pre_depth && final(self).same_config(old(self)), //@w @C04 @C09 @C13 #end_keeps_other_stacks
            final(self).text_filter_stack@ == old(self).text_filter_stack@, //@w @C15 #filters_unchanged
            old(self).options.allow_width_overflow ==> r.is_ok(), //@w @C11
            r.is_ok() ==> final(self).wtotal() <= old(self).wtotal() + 0x4_0000_0000 || final(self).wtotal() <= old(self).width + 0x4_0000_0000, //@w @C01 #growth_bound
            // the decorator's suffix goes to the open block verbatim, outside the element's own text filter, tagged like the element's text (C16, C09) //@w
            r.is_ok() ==> emitted(old(self).block_base(), old(self).ign(), final(self).wrapping, old(self).text_filter_stack@, old(self).decorator.strong_end_spec(), old(self).ann_stack@, old(self).pre_depth > 0), //@w @C16 @C09 #suffix_emitted_verbatim
    {
        let s = self.decorator.decorate_strong_end();
        self.add_inline_text(&s)?;
        self.ann_stack.pop();
        Ok(())
    }
//@end
//@item src/render/text_renderer.rs :: impl Renderer for SubRenderer :: fn start_code
//@sub /-> Result<\(\)>/ ==> -> (r: Result<()>)
//@auto C01 C09
    fn start_code(&mut self) -> (r: Result<()>)
        requires old(self).sr_inv(), old(self).headroom(), tag_ok::<Vec<D::Annotation>>(), //@w
        ensures //@w
            r.is_ok() ==> final(self).sr_inv(), //@w @C02
            // exactly one annotation is pushed on an otherwise unchanged stack (C09) //@w
            final(self).ann_stack@.len() == old(self).ann_stack@.len() + 1 && final(self).ann_stack@.drop_last() == old(self).ann_stack@, //@w @C09 #start_pushes_one_annotation
            final(self).ws_stack@ == old(self).ws_stack@ && final(self).pre_depth == old(self).pre_depth && final(self).same_config(old(self)), //@w @C04 @C09 @C13 #start_keeps_other_stacks
            final(self).text_filter_stack@ == old(self).text_filter_stack@, //@w @C15 #filters_unchanged
            old(self).options.allow_width_overflow ==> r.is_ok(), //@w @C11
            r.is_ok() ==> final(self).wtotal() <= old(self).wtotal() + 0x4_0000_0000 || final(self).wtotal() <= old(self).width + 0x4_0000_0000, //@w @C01 #growth_bound
            // the decorator's prefix goes to the open block verbatim, before the element's own text filter applies, already tagged with the new annotation (C16, C09) //@w
            r.is_ok() ==> emitted(old(self).block_base(), old(self).ign(), final(self).wrapping, old(self).text_filter_stack@, old(self).decorator.code_start_spec(), final(self).ann_stack@, old(self).pre_depth > 0), //@w @C16 @C09 #prefix_emitted_verbatim
    {
        let (s, annotation) = self.decorator.decorate_code_start();
        self.ann_stack.push(annotation);
        self.add_inline_text(&s)?;
        Ok(())
    }
//@end
//@item src/render/text_renderer.rs :: impl Renderer for SubRenderer :: fn end_code
//@sub /-> Result<\(\)>/ ==> -> (r: Result<()>)
//@auto C01 C09
    fn end_code(&mut self) -> (r: Result<()>)
        requires old(self).sr_inv(), old(self).headroom(), tag_ok::<Vec<D::Annotation>>(), //@w
            old(self).ann_stack@.len() > 0, //@w #paired_with_start
 //@w
        ensures //@w
            r.is_ok() ==> final(self).sr_inv(), //@w @C02
            // the annotation pushed by the matching start is popped, nothing else (C09: no annotation leaks past its element) //@w
            r.is_ok() ==> final(self).ann_stack@ == old(self).ann_stack@.drop_last(), //@w @C09 #end_pops_one_annotation
            final(self).ws_stack@ == old(self).ws_stack@ && final(self).pre_depth == old(self).pre_depth && final(self).same_config(old(self)), //@w @C04 @C09 @C13 #end_keeps_other_stacks
            final(self).text_filter_stack@ == old(self).text_filter_stack@, //@w @C15 #filters_unchanged
            old(self).options.allow_width_overflow ==> r.is_ok(), //@w @C11
            r.is_ok() ==> final(self).wtotal() <= old(self).wtotal() + 0x4_0000_0000 || final(self).wtotal() <= old(self).width + 0x4_0000_0000, //@w @C01 #growth_bound
            // the decorator's suffix goes to the open block verbatim, outside the element's own text filter, tagged like the element's text (C16, C09) //@w
            r.is_ok() ==> emitted(old(self).block_base(), old(self).ign(), final(self).wrapping, old(self).text_filter_stack@, old(self).decorator.code_end_spec(), old(self).ann_stack@, old(self).pre_depth > 0), //@w @C16 @C09 #suffix_emitted_verbatim
    {
        let s = self.decorator.decorate_code_end();
        self.add_inline_text(&s)?;
        self.ann_stack.pop();
        Ok(())
    }
//@end
//@item src/render/text_renderer.rs :: impl Renderer for SubRenderer :: fn add_image
//@sub /-> Result<\(\)>/ ==> -> (r: Result<()>)
//@auto C01 C09
    fn add_image(&mut self, src: &str, title: &str) -> (r: Result<()>)
        requires old(self).sr_inv(), old(self).headroom(), tag_ok::<Vec<D::Annotation>>(), //@w
        ensures //@w
            r.is_ok() ==> final(self).sr_inv(), //@w @C02
            // the image annotation covers exactly the image text: the stack is back to what it was (C09) //@w
            r.is_ok() ==> final(self).same_stacks(old(self)), //@w @C09 #image_annotation_scoped
            final(self).same_config(old(self)), //@w @C15
            old(self).options.allow_width_overflow ==> r.is_ok(), //@w @C11
            r.is_ok() ==> final(self).wtotal() <= old(self).wtotal() + 0x4_0000_0000 || final(self).wtotal() <= old(self).width + 0x4_0000_0000, //@w @C01 #growth_bound
    {
        let (s, tag) = self.decorator.decorate_image(src, title);
        self.ann_stack.push(tag);
        self.add_inline_text(&s)?;
        self.ann_stack.pop();
        proof { assert(self.ann_stack@ =~= old(self).ann_stack@); } //@w
        Ok(())
    }
//@end
//@item src/render/text_renderer.rs :: impl Renderer for SubRenderer :: fn start_superscript
//@sub /-> Result<\(\)>/ ==> -> (r: Result<()>)
//@auto C01 C09
    fn start_superscript(&mut self) -> (r: Result<()>)
        requires old(self).sr_inv(), old(self).headroom(), tag_ok::<Vec<D::Annotation>>(), //@w
        ensures //@w
            r.is_ok() ==> final(self).sr_inv(), //@w @C02
            // exactly one annotation is pushed on an otherwise unchanged stack (C09) //@w
            final(self).ann_stack@.len() == old(self).ann_stack@.len() + 1 && final(self).ann_stack@.drop_last() == old(self).ann_stack@, //@w @C09 #start_pushes_one_annotation
            final(self).ws_stack@ == old(self).ws_stack@ && final(self).pre_depth == old(self).pre_depth && final(self).same_config(old(self)), //@w @C04 @C09 @C13 #start_keeps_other_stacks
            final(self).text_filter_stack@ == old(self).text_filter_stack@, //@w @C15 #filters_unchanged
            old(self).options.allow_width_overflow ==> r.is_ok(), //@w @C11
            r.is_ok() ==> final(self).wtotal() <= old(self).wtotal() + 0x4_0000_0000 || final(self).wtotal() <= old(self).width + 0x4_0000_0000, //@w @C01 #growth_bound
            // the decorator's prefix goes to the open block verbatim, before the element's own text filter applies, already tagged with the new annotation (C16, C09) //@w
            r.is_ok() ==> emitted(old(self).block_base(), old(self).ign(), final(self).wrapping, old(self).text_filter_stack@, old(self).decorator.superscript_start_spec(), final(self).ann_stack@, old(self).pre_depth > 0), //@w @C16 @C09 #prefix_emitted_verbatim
    {
        let (s, annotation) = self.decorator.decorate_superscript_start();
        self.ann_stack.push(annotation);
        self.add_inline_text(&s)?;
        Ok(())
    }
//@end
//@item src/render/text_renderer.rs :: impl Renderer for SubRenderer :: fn end_superscript
//@sub /-> Result<\(\)>/ ==> -> (r: Result<()>)
//@auto C01 C09
    fn end_superscript(&mut self) -> (r: Result<()>)
        requires old(self).sr_inv(), old(self).headroom(), tag_ok::<Vec<D::Annotation>>(), //@w
            old(self).ann_stack@.len() > 0, //@w #paired_with_start
 //@w
        ensures //@w
            r.is_ok() ==> final(self).sr_inv(), //@w @C02
            // the annotation pushed by the matching start is popped, nothing else (C09: no annotation leaks past its element) //@w
            r.is_ok() ==> final(self).ann_stack@ == old(self).ann_stack@.drop_last(), //@w @C09 #end_pops_one_annotation
            final(self).ws_stack@ == old(self).ws_stack@ && final(self).pre_depth == old(self).pre_depth && final(self).same_config(old(self)), //@w @C04 @C09 @C13 #end_keeps_other_stacks
            final(self).text_filter_stack@ == old(self).text_filter_stack@, //@w @C15 #filters_unchanged
            old(self).options.allow_width_overflow ==> r.is_ok(), //@w @C11
            r.is_ok() ==> final(self).wtotal() <= old(self).wtotal() + 0x4_0000_0000 || final(self).wtotal() <= old(self).width + 0x4_0000_0000, //@w @C01 #growth_bound
            // the decorator's suffix goes to the open block verbatim, outside the element's own text filter, tagged like the element's text (C16, C09) //@w
            r.is_ok() ==> emitted(old(self).block_base(), old(self).ign(), final(self).wrapping, old(self).text_filter_stack@, old(self).decorator.superscript_end_spec(), old(self).ann_stack@, old(self).pre_depth > 0), //@w @C16 @C09 #suffix_emitted_verbatim
    {
        let s = self.decorator.decorate_superscript_end();
        self.add_inline_text(&s)?;
        self.ann_stack.pop();
        Ok(())
    }
//@end
//@item src/render/text_renderer.rs :: impl Renderer for SubRenderer :: fn start_strikeout
//@sub /-> Result<\(\)>/ ==> -> (r: Result<()>)
//@sub /self\.text_filter_stack\.push\(filter_text_strikeout\)/ ==> self.text_filter_stack.push(TextFilter::strikeout())
//@auto C01 C09 C15
    fn start_strikeout(&mut self) -> (r: Result<()>)
        requires old(self).sr_inv(), old(self).headroom(), tag_ok::<Vec<D::Annotation>>(), //@w
        ensures //@w
            r.is_ok() ==> final(self).sr_inv(), //@w @C02
            // exactly one annotation is pushed on an otherwise unchanged stack (C09) //@w
            final(self).ann_stack@.len() == old(self).ann_stack@.len() + 1 && final(self).ann_stack@.drop_last() == old(self).ann_stack@, //@w @C09 #start_pushes_one_annotation
            final(self).ws_stack@ == old(self).ws_stack@ && final(self).pre_depth == old(self).pre_depth && final(self).same_config(old(self)), //@w @C04 @C09 @C13 #start_keeps_other_stacks
            // the strike-through filter is active exactly when the option is on (C15) //@w
            r.is_ok() && old(self).options.use_unicode_strikeout ==> final(self).text_filter_stack@.len() == old(self).text_filter_stack@.len() + 1 && final(self).text_filter_stack@.drop_last() == old(self).text_filter_stack@ && final(self).text_filter_stack@.last().is_strikeout(), //@w @C15 #strikeout_filter_pushed
            !old(self).options.use_unicode_strikeout ==> final(self).text_filter_stack@ == old(self).text_filter_stack@, //@w @C15 #no_filter_without_option
            old(self).options.allow_width_overflow ==> r.is_ok(), //@w @C11
            r.is_ok() ==> final(self).wtotal() <= old(self).wtotal() + 0x4_0000_0000 || final(self).wtotal() <= old(self).width + 0x4_0000_0000, //@w @C01 #growth_bound
            // the decorator's prefix goes to the open block verbatim, before the element's own text filter applies, already tagged with the new annotation (C16, C09) //@w
            r.is_ok() ==> emitted(old(self).block_base(), old(self).ign(), final(self).wrapping, old(self).text_filter_stack@, old(self).decorator.strikeout_start_spec(), final(self).ann_stack@, old(self).pre_depth > 0), //@w @C16 @C09 #prefix_emitted_verbatim
    {
        let (s, annotation) = self.decorator.decorate_strikeout_start();
        self.ann_stack.push(annotation);
        self.add_inline_text(&s)?;
        if self.options.use_unicode_strikeout {
            self.text_filter_stack.push(TextFilter::strikeout());
        }
        Ok(())
    }
//@end
//@item src/render/text_renderer.rs :: impl Renderer for SubRenderer :: fn end_strikeout
//@sub /-> Result<\(\)>/ ==> -> (r: Result<()>)
//@auto C01 C09 C15
    fn end_strikeout(&mut self) -> (r: Result<()>)
        requires old(self).sr_inv(), old(self).headroom(), tag_ok::<Vec<D::Annotation>>(), //@w
            old(self).ann_stack@.len() > 0, //@w #paired_with_start
            old(self).options.use_unicode_strikeout ==> old(self).text_filter_stack@.len() > 0, //@w #paired_with_start_strikeout
        ensures //@w
            r.is_ok() ==> final(self).sr_inv(), //@w @C02
            // the annotation pushed by the matching start is popped, nothing else (C09: no annotation leaks past its element) //@w
            r.is_ok() ==> final(self).ann_stack@ == old(self).ann_stack@.drop_last(), //@w @C09 #end_pops_one_annotation
            final(self).ws_stack@ == old(self).ws_stack@ && final(self).pre_depth == old(self).pre_depth && final(self).same_config(old(self)), //@w @C04 @C09 @C13 #end_keeps_other_stacks
            r.is_ok() && old(self).options.use_unicode_strikeout ==> final(self).text_filter_stack@ == old(self).text_filter_stack@.drop_last(), //@w @C15 #strikeout_filter_popped
            !old(self).options.use_unicode_strikeout ==> final(self).text_filter_stack@ == old(self).text_filter_stack@, //@w @C15
            old(self).options.allow_width_overflow ==> r.is_ok(), //@w @C11
            r.is_ok() ==> final(self).wtotal() <= old(self).wtotal() + 0x4_0000_0000 || final(self).wtotal() <= old(self).width + 0x4_0000_0000, //@w @C01 #growth_bound
            // the decorator's suffix goes to the open block verbatim, outside the element's own text filter, tagged like the element's text (C16, C09) //@w
            r.is_ok() ==> emitted(old(self).block_base(), old(self).ign(), final(self).wrapping, final(self).text_filter_stack@, old(self).decorator.strikeout_end_spec(), old(self).ann_stack@, old(self).pre_depth > 0), //@w @C16 @C09 #suffix_emitted_verbatim
    {
        if self.options.use_unicode_strikeout {
            self.text_filter_stack
                .pop()
                .expect("end_strikeout() called without a corresponding start_strokeout()");
        }
        let s = self.decorator.decorate_strikeout_end();
        self.add_inline_text(&s)?;
        self.ann_stack.pop();
        Ok(())
    }
//@end
}

// ---------------------------------------------------------------------------------------------
// PushedStyleInfo (src/lib.rs:1885-1935): what do_render_node pushes for a node's computed style and pops after its children.
// R12: `render: &mut TextRenderer<D>` is its Deref target, the SubRenderer on top of the stack.
// R10: the fields of ComputedStyle that are read here (WithSpec::val returns the stored value by reference)
struct WithSpec<T> { v: Option<T> }
impl<T> WithSpec<T> { #[verifier::external_body] fn val(&self) -> (r: Option<&T>) ensures (self.v matches Some(x) ==> r == Some(&x)), self.v is None ==> r is None { unimplemented!() } }
struct ComputedStyle { colour: WithSpec<Colour>, bg_colour: WithSpec<Colour>, white_space: WithSpec<WhiteSpace>, internal_pre: bool }
impl Clone for Colour { #[verifier::external_body] fn clone(&self) -> (r: Self) ensures r == *self { unimplemented!() } }
impl Copy for Colour {}
//@item src/lib.rs :: struct PushedStyleInfo
struct PushedStyleInfo {
    colour: bool,
    bgcolour: bool,
    white_space: bool,
    preformat: bool,
}
//@end
// R13: #[derive(Default)] of four bools
fn psi_default() -> (r: PushedStyleInfo) ensures !r.colour && !r.bgcolour && !r.white_space && !r.preformat { PushedStyleInfo { colour: false, bgcolour: false, white_space: false, preformat: false } }
// the number of annotations the colour flags of a PushedStyleInfo stand for
spec fn npushed<D: TextDecorator>(p: PushedStyleInfo) -> int { if D::colours_spec() { (if p.colour { 1int } else { 0int }) + (if p.bgcolour { 1int } else { 0int }) } else { 0int } }
impl PushedStyleInfo {
//@item src/lib.rs :: impl PushedStyleInfo :: fn apply
//@auto C01 C09 C12
//@sub /render: &mut TextRenderer<D>/ ==> render: &mut SubRenderer<D>
//@sub /-> Self/ ==> -> (r: Self)
//@sub /Default::default\(\)/ ==> psi_default()
//@sub * /#\[cfg\(feature = "css"\)\]\n\s*/ ==> 
//@sub /#\[allow\(unused_mut\)\]\n\s*/ ==> 
    fn apply<D: TextDecorator>(render: &mut SubRenderer<D>, style: &ComputedStyle) -> (r: Self)
        requires old(render).pre_depth < usize::MAX, //@w
        ensures //@w
            // white-space: pre / pre-wrap is pushed, nothing else; the preformat depth grows iff the node is an internal <pre>; the flags say so (C12, C09) //@w
            r.white_space == (style.white_space.v matches Some(ws) && (ws is Pre || ws is PreWrap)), //@w @C12 @C09 #apply_flags_white_space
            final(render).ws_stack@ == (if r.white_space { old(render).ws_stack@.push(style.white_space.v->Some_0) } else { old(render).ws_stack@ }), //@w @C12 @C09 #apply_pushes_white_space
            r.preformat == style.internal_pre && final(render).pre_depth == old(render).pre_depth + (if r.preformat { 1int } else { 0int }), //@w @C12 @C09 #apply_pushes_preformat
            r.colour == style.colour.v.is_some() && r.bgcolour == style.bg_colour.v.is_some(), //@w @C19 @C09 #apply_flags_colours
            // each winning colour puts exactly one annotation on top of the unchanged stack when the decorator annotates colours (C19, C09) //@w
            final(render).ann_stack@.len() == old(render).ann_stack@.len() + npushed::<D>(r) && final(render).ann_stack@.take(old(render).ann_stack@.len() as int) =~= old(render).ann_stack@, //@w @C19 @C09 #apply_keeps_annotations_below
            !r.colour && !r.bgcolour ==> final(render).ann_stack@ == old(render).ann_stack@, //@w @C09 #apply_without_colours_keeps_stack
            final(render).text_filter_stack@ == old(render).text_filter_stack@ && final(render).same_config(old(render)) && final(render).wrapping == old(render).wrapping && final(render).lines@ == old(render).lines@ && final(render).pending_frags@ == old(render).pending_frags@, //@w @C09 #apply_frame
    {
        let mut result: PushedStyleInfo = psi_default();
        if let Some(col) = style.colour.val() {
            render.push_colour(*col);
            result.colour = true;
        }
        if let Some(col) = style.bg_colour.val() {
            render.push_bgcolour(*col);
            result.bgcolour = true;
        }
        if let Some(ws) = style.white_space.val() {
            if let WhiteSpace::Pre | WhiteSpace::PreWrap = ws {
                render.push_ws(*ws);
                result.white_space = true;
            }
        }
        if style.internal_pre {
            render.push_preformat();
            result.preformat = true;
        }
        result
    }
//@end
//@item src/lib.rs :: impl PushedStyleInfo :: fn unwind
//@auto C01 C09 C12
//@sub /renderer: &mut TextRenderer<D>/ ==> renderer: &mut SubRenderer<D>
    fn unwind<D: TextDecorator>(self, renderer: &mut SubRenderer<D>)
        requires self.preformat ==> old(renderer).pre_depth > 0, //@w #paired_with_apply
        ensures //@w
            // exactly what apply pushed is popped: white space and preformat depth return to where they were (C09, C12: nothing leaks past the element) //@w
            final(renderer).ws_stack@ == (if self.white_space && old(renderer).ws_stack@.len() > 0 { old(renderer).ws_stack@.drop_last() } else { old(renderer).ws_stack@ }), //@w @C12 @C09 #unwind_pops_white_space
            final(renderer).pre_depth == old(renderer).pre_depth - (if self.preformat { 1int } else { 0int }), //@w @C12 @C09 #unwind_pops_preformat
            // exactly the colour annotations apply pushed are popped: the stack below them is what it was (C09: no annotation leaks past the end of its element, none is lost) //@w
            old(renderer).ann_stack@.len() >= npushed::<D>(self) ==> final(renderer).ann_stack@ =~= old(renderer).ann_stack@.take(old(renderer).ann_stack@.len() - npushed::<D>(self)), //@w @C19 @C09 #unwind_pops_exactly_the_colours
            !self.colour && !self.bgcolour ==> final(renderer).ann_stack@ == old(renderer).ann_stack@, //@w @C09 #unwind_without_colours_keeps_stack
            final(renderer).text_filter_stack@ == old(renderer).text_filter_stack@ && final(renderer).same_config(old(renderer)) && final(renderer).wrapping == old(renderer).wrapping && final(renderer).lines@ == old(renderer).lines@ && final(renderer).pending_frags@ == old(renderer).pending_frags@, //@w @C09 #unwind_frame
    {
        if self.bgcolour {
            renderer.pop_bgcolour();
        }
        if self.colour {
            renderer.pop_colour();
        }
        if self.white_space {
            renderer.pop_ws();
        }
        if self.preformat {
            renderer.pop_preformat();
        }
    }
//@end
}
// composition (our code): after the children of a node, white-space mode and preformat depth are back where they were (C09, C12)
fn apply_then_unwind<D: TextDecorator>(render: &mut SubRenderer<D>, style: &ComputedStyle)
    requires old(render).pre_depth < usize::MAX,
    ensures final(render).ws_stack@ == old(render).ws_stack@, final(render).pre_depth == old(render).pre_depth,
        final(render).ann_stack@ =~= old(render).ann_stack@,
{
    let p = PushedStyleInfo::apply(render, style);
    p.unwind(render);
}

// ---------------------------------------------------------------------------------------------
// TextRenderer: the stack of sub-renderers plus the one global list of link targets (C08).
// R12: `Deref`/`DerefMut` to the top of the stack is written out (`self.options` -> top.options, `self.add_inline_text` -> top.add_inline_text).
// R6: `format!("[{}]", n)` -> fmt_footnote_ref(n).
spec fn ref_text(n: usize) -> Seq<char>;
#[verifier::external_body]
fn fmt_footnote_ref(n: usize) -> (r: String) ensures r@ == ref_text(n), short(r@) { format!("[{}]", n) }
// `target.to_string()`
#[verifier::external_body]
fn str_to_string(s: &str) -> (r: String) ensures r@ == s@ { s.to_string() }

//@item src/render/text_renderer.rs :: struct TextRenderer
struct TextRenderer<D: TextDecorator> {
    subrender: Vec<SubRenderer<D>>,
    links: Vec<String>,
}
//@end

impl<D: TextDecorator> TextRenderer<D> {
    spec fn top(&self) -> SubRenderer<D> { self.subrender@.last() }
    // boundary (A6): the stack is never empty while rendering; the top renderer is well-formed and has headroom (A5)
    spec fn tr_ok(&self) -> bool { self.subrender@.len() >= 1 && self.top().sr_inv() && self.top().headroom() }
}
impl<D: TextDecorator> TextRenderer<D> {
//@item src/render/text_renderer.rs :: impl TextRenderer :: fn new
//@sub /-> TextRenderer<D>/ ==> -> (r: TextRenderer<D>)
//@auto C01 C08
    fn new(subrenderer: SubRenderer<D>) -> (r: TextRenderer<D>)
        ensures r.subrender@ == seq![subrenderer], //@w @C08 #one_renderer
            r.links@.len() == 0, //@w @C08 #links_start_empty
    {
        TextRenderer {
            subrender: vec![subrenderer],
            links: Vec::new(),
        }
    }
//@end
//@item src/render/text_renderer.rs :: impl TextRenderer :: fn start_link
//@sub /-> Result<\(\)>/ ==> -> (r: Result<()>)
//@sub /target\.to_string\(\)/ ==> str_to_string(target)
//@auto C01 C08
    fn start_link(&mut self, target: &str) -> (r: Result<()>)
        requires old(self).tr_ok(), tag_ok::<Vec<D::Annotation>>(), //@w
        ensures //@w
            // the target of every link is recorded exactly once, in document order, in the ONE list shared by all sub-renderers (C08) //@w
            final(self).links@.len() == old(self).links@.len() + 1 && final(self).links@.drop_last() == old(self).links@ && final(self).links@.last()@ == target@, //@w @C08 #link_target_recorded
            final(self).subrender@.len() == old(self).subrender@.len() && final(self).subrender@.drop_last() == old(self).subrender@.drop_last(), //@w @C08 #start_link_touches_only_top
            final(self).top().ann_stack@.len() == old(self).top().ann_stack@.len() + 1 && final(self).top().ann_stack@.drop_last() == old(self).top().ann_stack@, //@w @C09 #link_annotation_pushed
            old(self).top().options.allow_width_overflow ==> r.is_ok(), //@w @C11
    {
        self.links.push(str_to_string(target));
        self.subrender.last_mut().unwrap().start_link(target)?;
        Ok(())
    }
//@end
//@item src/render/text_renderer.rs :: impl TextRenderer :: fn end_link
//@sub /-> Result<\(\)>/ ==> -> (r: Result<()>)
//@sub /if self\.options\.include_link_footnotes/ ==> if self.subrender[self.subrender.len() - 1].options.include_link_footnotes
//@sub /self\.add_inline_text\(&format!\("\[\{\}\]", footnote_num\)\)\?;/ ==> self.subrender.last_mut().unwrap().add_inline_text(&fmt_footnote_ref(footnote_num))?;
//@auto C01 C08
    fn end_link(&mut self) -> (r: Result<()>)
        requires old(self).tr_ok(), tag_ok::<Vec<D::Annotation>>(), old(self).top().ann_stack@.len() > 0, //@w
        ensures //@w
            final(self).links@ == old(self).links@, //@w @C08 #end_link_keeps_links
            final(self).subrender@.len() == old(self).subrender@.len() && final(self).subrender@.drop_last() == old(self).subrender@.drop_last(), //@w @C08 #end_link_touches_only_top
            r.is_ok() ==> final(self).top().ann_stack@ == old(self).top().ann_stack@.drop_last(), //@w @C09 #link_annotation_popped
            old(self).top().options.allow_width_overflow ==> r.is_ok(), //@w @C11
    {
        self.subrender.last_mut().unwrap().end_link()?;
        let ghost opt0 = old(self).top().options.include_link_footnotes; //@w
        assert(self.top().options.include_link_footnotes == opt0); //@w @C15 #footnote_switch_read_from_options

        if self.subrender[self.subrender.len() - 1].options.include_link_footnotes {
            let footnote_num = self.links.len();
            // the reference printed after the k-th link is [k]: the number of targets recorded so far (C08) //@w
            assert(footnote_num == old(self).links@.len()); //@w @C08 #reference_number_is_link_position
            self.subrender.last_mut().unwrap().add_inline_text(&fmt_footnote_ref(footnote_num))?;
        }
        Ok(())
    }
//@end
//@item src/render/text_renderer.rs :: impl TextRenderer :: fn push
//@auto C01 C08
    fn push(&mut self, builder: SubRenderer<D>)
        ensures final(self).subrender@ == old(self).subrender@.push(builder) && final(self).links@ == old(self).links@, //@w @C08 #push_keeps_links
    {
        self.subrender.push(builder);
    }
//@end
//@item src/render/text_renderer.rs :: impl TextRenderer :: fn pop
//@sub /-> SubRenderer<D>/ ==> -> (r: SubRenderer<D>)
//@auto C01 C08
    fn pop(&mut self) -> (r: SubRenderer<D>)
        requires old(self).subrender@.len() >= 1, //@w @C01 #pop_nonempty
        ensures r == old(self).subrender@.last() && final(self).subrender@ == old(self).subrender@.drop_last() && final(self).links@ == old(self).links@, //@w @C08 #pop_keeps_links
    {
        self.subrender
            .pop()
            .expect("Attempt to pop a subrender from empty stack")
    }
//@end
//@item src/render/text_renderer.rs :: impl TextRenderer :: fn into_inner
//@sub /-> \(SubRenderer<D>, Vec<String>\)/ ==> -> (r: (SubRenderer<D>, Vec<String>))
//@sub /fn into_inner\(mut self\)/ ==> fn into_inner(self)
//@sub /assert_eq!\(self\.subrender\.len\(\), 1\);/ ==> let mut this = self;\n        assert!(this.subrender.len() == 1);
//@sub /self\.subrender\s*\.pop\(\)/ ==> this.subrender.pop()
//@sub /self\.links,/ ==> this.links,
//@auto C01 C08
    fn into_inner(self) -> (r: (SubRenderer<D>, Vec<String>))
        requires self.subrender@.len() == 1, //@w @C01 #into_inner_single
        ensures r.0 == self.subrender@[0] && r.1@ == self.links@, //@w @C08 #all_links_handed_to_finalise
    {
        let mut this = self;
        assert!(this.subrender.len() == 1);
        (
            this.subrender.pop()
                .expect("Attempt to pop a subrenderer from an empty stack"),
            this.links,
        )
    }
//@end
}

// ---------------------------------------------------------------------------------------------
// The Unicode strike-through text filter (C15): only adds U+0336 after characters that have a width
// what the option is documented to do (C15): a combining strike mark after every character that occupies columns, nothing else
spec fn strike(s: Seq<char>) -> Seq<char> decreases s.len() {
    if s.len() == 0 { Seq::empty() } else {
        strike(s.drop_last()) + (if cwn(s.last()) > 0 { seq![s.last(), '\u{336}'] } else { seq![s.last()] })
    }
}
spec fn unstrike(s: Seq<char>) -> Seq<char> decreases s.len() {
    if s.len() == 0 { Seq::empty() } else if s.last() == '\u{336}' { unstrike(s.drop_last()) } else { unstrike(s.drop_last()).push(s.last()) }
}
proof fn lemma_unstrike_concat(a: Seq<char>, b: Seq<char>)
    ensures unstrike(a + b) =~= unstrike(a) + unstrike(b),
    decreases b.len()
{
    if b.len() == 0 { assert(a + b =~= a); } else {
        assert((a + b).drop_last() =~= a + b.drop_last());
        lemma_unstrike_concat(a, b.drop_last());
    }
}
// the text is unchanged apart from the added marks (C15: "only adds combining strike marks")
proof fn lemma_strike_only_adds_marks(s: Seq<char>) //@w @C15 #strikeout_only_adds_marks
    requires forall|i: int| 0 <= i < s.len() ==> s[i] != '\u{336}',
    ensures unstrike(strike(s)) =~= s,
    decreases s.len()
{
    if s.len() > 0 {
        lemma_strike_only_adds_marks(s.drop_last());
        let t = if cwn(s.last()) > 0 { seq![s.last(), '\u{336}'] } else { seq![s.last()] };
        lemma_unstrike_concat(strike(s.drop_last()), t);
        let c = s.last();
        assert(c == s[s.len() - 1] && c != '\u{336}');
        assert(unstrike(seq![c]) =~= seq![c]) by {
            assert(seq![c].drop_last() =~= Seq::<char>::empty());
            assert(seq![c].last() == c);
            assert(unstrike(seq![c]) =~= unstrike(seq![c].drop_last()).push(c));
        }
        assert(unstrike(t) =~= seq![c]) by {
            if cwn(c) > 0 {
                assert(t.drop_last() =~= seq![c]);
                assert(t.last() == '\u{336}');
                assert(unstrike(t) =~= unstrike(t.drop_last()));
            }
        }
        assert(s =~= s.drop_last() + seq![s.last()]);
    }
}
// … and the layout does not change: the marks have no width (A2: U+0336 is a combining character)
#[verifier::external_body]
proof fn axiom_cw_strike_mark() ensures cw('\u{336}') == Some(0usize) {}
proof fn lemma_strike_keeps_width(s: Seq<char>) //@w @C15 #strikeout_keeps_width
    ensures sw(strike(s)) == sw(s),
    decreases s.len()
{
    axiom_cw_strike_mark();
    if s.len() > 0 {
        lemma_strike_keeps_width(s.drop_last());
        let t = if cwn(s.last()) > 0 { seq![s.last(), '\u{336}'] } else { seq![s.last()] };
        lemma_sw_concat(strike(s.drop_last()), t);
        lemma_sw_one(s.last());
        if cwn(s.last()) > 0 {
            assert(t =~= seq![s.last()] + seq!['\u{336}']);
            lemma_sw_concat(seq![s.last()], seq!['\u{336}']);
            lemma_sw_one('\u{336}');
        }
    }
}

//@item src/render/text_renderer.rs :: fn filter_text_strikeout
//@sub /-> Option<String>/ ==> -> (r: Option<String>)
//@sub /for c in s\.chars\(\)/ ==> for c in it: s.chars()
//@auto C01 C15
fn filter_text_strikeout(s: &str) -> (r: Option<String>)
    ensures r matches Some(x) && x@ =~= strike(s@), //@w @C15 #strikeout_filter_spec
{
    let mut result = String::new();
    for c in it: s.chars()
        invariant result@ =~= strike(s@.take(it.index@)), //@w @C15 #filter_text_strikeout_loop_invariant
    {
        proof { //@w
            let k = it.index@; //@w
            assert(s@.take(k + 1).drop_last() =~= s@.take(k)); //@w
            assert(s@.take(k + 1).last() == c); //@w
        } //@w
        result.push(c);
        if UnicodeWidthChar::width(c).unwrap_or(0) > 0 {
            // This is a character with width (not a combining or other character)
            // so add a strikethrough combiner.
            result.push('\u{336}');
        }
    }
    proof { assert(s@.take(s@.len() as int) =~= s@); } //@w
    Some(result)
}
//@end

// ---------------------------------------------------------------------------------------------
// The default TextDecorator::finalise (src/render/text_renderer.rs:797-805): the footnote list, entry k is "[k]: target" (C08)
// R7: `urls.into_iter().enumerate().map(f).collect()` -> enum_map_collect(urls, f) (trusted: f applied to (index, element) in order)
// R6: format!("[{}]: {}", n, s) -> fmt_footnote(n, s)
spec fn note_text(n: usize, target: Seq<char>) -> Seq<char>;
#[verifier::external_body]
fn fmt_footnote(n: usize, s: String) -> (r: String) ensures r@ == note_text(n, s@) { format!("[{}]: {}", n, s) }
#[verifier::external_body]
fn enum_map_collect<A, F: Fn(usize, String) -> TaggedLine<A>>(v: Vec<String>, f: F) -> (r: Vec<TaggedLine<A>>)
    requires forall|i: int| 0 <= i < v@.len() ==> call_requires(f, (i as usize, #[trigger] v@[i])),
    ensures r@.len() == v@.len(), forall|i: int| 0 <= i < v@.len() ==> call_ensures(f, (i as usize, v@[i]), #[trigger] r@[i]),
{ unimplemented!() }

//@slice src/render/text_renderer.rs :: trait TextDecorator :: fn finalise :: /urls\.into_iter\(\)/ .. /\Z/
//@name default_finalise_slice
//@auto C01 C08
//@sub /(?s)urls\.into_iter\(\)\s*\.enumerate\(\)\s*\.map\(\|\(idx, s\)\| \{/ ==> enum_map_collect(urls, |idx: usize, s: String| -> (l: TaggedLine<A>) requires idx < usize::MAX, tag_ok::<A>() ensures flat(l.v@) =~= flat_str(note_text((idx + 1) as usize, s@), dflt) {
//@sub /format!\("\[\{\}\]: \{\}", idx \+ 1, s\)/ ==> fmt_footnote(idx + 1, s)
//@sub /&Default::default\(\)/ ==> &dflt
//@sub /(?s)\}\)\s*\.collect\(\)/ ==> })
fn default_finalise_slice<A: Debug + Eq + PartialEq + Clone + Default>(urls: Vec<String>, dflt: A) -> (r: Vec<TaggedLine<A>>) //@w
    requires tag_ok::<A>(), urls@.len() < usize::MAX, //@w
    ensures //@w
        // one entry per link, in order; entry k (1-based) is "[k]: " followed by that link's target (C08) //@w
        r@.len() == urls@.len(), //@w @C08 #one_footnote_per_link_default
        forall|k: int| 0 <= k < urls@.len() ==> flat((#[trigger] r@[k]).v@) =~= flat_str(note_text((k + 1) as usize, urls@[k]@), dflt), //@w @C08 #footnote_k_is_numbered_k
{ //@w
        enum_map_collect(urls, |idx: usize, s: String| -> (l: TaggedLine<A>) requires idx < usize::MAX, tag_ok::<A>() ensures flat(l.v@) =~= flat_str(note_text((idx + 1) as usize, s@), dflt) {
                TaggedLine::from_string(fmt_footnote(idx + 1, s), &dflt)
            })
} //@w
//@end
} // verus!
fn main() {}
