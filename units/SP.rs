//@unit SP — hidden elements: styles_from_properties (src/css.rs:298-398): which declarations become `display: none`
//@vis pub
//@verus-arg --cfg
//@verus-arg feature="css"
// R20: the f32 comparison `*l == 0.0` -> f32_is_zero(*l) (trusted, uninterpreted predicate `is_zero`).
use vstd::prelude::*;
macro_rules! html_trace_quiet { ($($t:tt)*) => {} }
macro_rules! html_trace { ($($t:tt)*) => {} }
verus! {

//@item src/lib.rs :: struct Colour
pub struct Colour {
    /// Red value
    pub r: u8,
    /// Green value
    pub g: u8,
    /// Blue value
    pub b: u8,
}
//@end
//@item src/lib.rs :: enum WhiteSpace
#[derive(Debug, Copy, Clone, Default, PartialEq, Eq)] //@w
pub enum WhiteSpace {
    #[default]
    Normal,
    // NoWrap,
    Pre,
    #[allow(unused)]
    PreWrap,
    // PreLine,
    // BreakSpaces,
}
//@end

pub spec fn is_zero(l: f32) -> bool;
#[verifier::external_body]
pub fn f32_is_zero(l: f32) -> (r: bool) ensures r == is_zero(l) { l == 0.0 }
#[verifier::external_body]
pub fn string_clone(s: &String) -> (r: String) ensures r@ == s@ { s.clone() }

pub mod parser {
use super::*;
//@item src/css/types.rs :: enum Importance
#[derive(Copy, Clone, PartialEq, Eq, Debug)] //@w
pub enum Importance {
    Default,
    Important,
}
//@end
//@item src/css/parser.rs :: enum Colour
pub enum Colour {
    Rgb(u8, u8, u8),
}
//@end
//@item src/css/parser.rs :: enum LengthUnit
pub enum LengthUnit {
    // Absolute units
    In,
    Cm,
    Mm,
    Pt,
    Pc,
    Px,
    // Relative units
    Em,
    Ex,
}
//@end
//@item src/css/parser.rs :: enum Height
pub enum Height {
    #[allow(unused)]
    Auto,
    // If the length is 0, the unit will be Px
    Length(f32, LengthUnit),
}
//@end
//@item src/css/parser.rs :: enum Overflow
pub enum Overflow {
    Visible,
    Hidden,
    Scroll,
    Auto,
}
//@end
//@item src/css/parser.rs :: enum Display
pub enum Display {
    None,
    Other,
    #[cfg(feature = "css_ext")]
    RawDom,
}
//@end
//@item src/css/parser.rs :: struct PropertyName
pub struct PropertyName(String);
//@end
//@item src/css/parser.rs :: enum Decl
pub enum Decl {
    Color {
        value: Colour,
    },
    BackgroundColor {
        value: Colour,
    },
    Height {
        value: Height,
    },
    MaxHeight {
        value: Height,
    },
    Overflow {
        value: Overflow,
    },
    OverflowY {
        value: Overflow,
    },
    Display {
        value: Display,
    },
    WhiteSpace {
        value: WhiteSpace,
    },
    Content {
        text: String,
    },
    Unknown {
        name: PropertyName,
        //        value: Vec<Token>,
    },
}
//@end
//@item src/css/parser.rs :: struct Declaration
pub struct Declaration {
    pub data: Decl,
    pub important: Importance,
}
//@end
}
use parser::Importance;

//@item src/css.rs :: enum Display
pub enum Display {
    /// display: none
    None,
    /// Any other display value: the element is rendered as usual
    Other,
    #[cfg(feature = "css_ext")]
    /// Show node as HTML DOM
    ExtRawDom,
}
//@end
//@item src/css.rs :: struct PseudoContent
pub struct PseudoContent {
    /// content: "foo"
    pub text: String,
}
//@end
//@item src/css.rs :: enum Style
pub enum Style {
    #[cfg(feature = "css")]
    Colour(Colour),
    #[cfg(feature = "css")]
    BgColour(Colour),
    #[cfg(feature = "css")]
    Display(Display),
    #[cfg(feature = "css")]
    WhiteSpace(WhiteSpace),
    Content(PseudoContent),
}
//@end
//@item src/css.rs :: struct StyleDecl
pub struct StyleDecl {
    pub style: Style,
    pub importance: Importance,
}
//@end


// ---- abstract view (ours): what a declaration contributes to the computed style ----
pub enum SView { Colour(u8, u8, u8), BgColour(u8, u8, u8), DisplayNone, DisplayOther, WhiteSpace(WhiteSpace), Content(Seq<char>) }
spec fn sv(sd: StyleDecl) -> (SView, Importance) {
    (match sd.style {
        Style::Colour(c) => SView::Colour(c.r, c.g, c.b),
        Style::BgColour(c) => SView::BgColour(c.r, c.g, c.b),
        Style::Display(Display::None) => SView::DisplayNone,
        Style::Display(Display::Other) => SView::DisplayOther,
        Style::WhiteSpace(w) => SView::WhiteSpace(w),
        Style::Content(pc) => SView::Content(pc.text@),
    }, sd.importance)
}
// C18 / design: colour, background, white-space and content declarations map one to one; `display: none` maps to
// Display(None), every other display value to Display(Other), each with the declaration's own importance; every other declaration
// emits nothing by itself
spec fn dview(d: parser::Declaration) -> Option<(SView, Importance)> {
    match d.data {
        parser::Decl::Color { value: parser::Colour::Rgb(r, g, b) } => Some((SView::Colour(r, g, b), d.important)),
        parser::Decl::BackgroundColor { value: parser::Colour::Rgb(r, g, b) } => Some((SView::BgColour(r, g, b), d.important)),
        parser::Decl::Display { value: parser::Display::None } => Some((SView::DisplayNone, d.important)),
        // any other display value is a declaration of its own ("rendered"), so that it can win against display:none in the cascade (C18, C19)
        parser::Decl::Display { value: parser::Display::Other } => Some((SView::DisplayOther, d.important)),
        parser::Decl::WhiteSpace { value } => Some((SView::WhiteSpace(value), d.important)),
        parser::Decl::Content { text } => Some((SView::Content(text@), d.important)),
        _ => None,
    }
}
spec fn expected(decls: Seq<parser::Declaration>, k: int) -> Seq<(SView, Importance)> decreases k {
    if k <= 0 { Seq::empty() } else {
        let p = expected(decls, k - 1);
        match dview(decls[k - 1]) { Some(x) => p.push(x), None => p }
    }
}
// the hidden-overflow idiom: SOME height / max-height is zero and SOME overflow / overflow-y is hidden
spec fn zero_height(d: parser::Declaration) -> bool {
    match d.data {
        parser::Decl::Height { value: parser::Height::Length(l, _) } => is_zero(l),
        parser::Decl::MaxHeight { value: parser::Height::Length(l, _) } => is_zero(l),
        _ => false,
    }
}
spec fn hides_overflow(d: parser::Declaration) -> bool {
    match d.data {
        parser::Decl::Overflow { value: parser::Overflow::Hidden } => true,
        parser::Decl::OverflowY { value: parser::Overflow::Hidden } => true,
        _ => false,
    }
}
spec fn any_zero_height(decls: Seq<parser::Declaration>, k: int) -> bool { exists|j: int| 0 <= j < k && zero_height(#[trigger] decls[j]) }
spec fn any_hidden(decls: Seq<parser::Declaration>, k: int) -> bool { exists|j: int| 0 <= j < k && hides_overflow(#[trigger] decls[j]) }
spec fn svs(st: Seq<StyleDecl>) -> Seq<(SView, Importance)> { st.map(|i: int, x: StyleDecl| sv(x)) }

//@item src/css.rs :: fn styles_from_properties
//@sub /-> Vec<StyleDecl>/ ==> -> (styles_out: Vec<StyleDecl>)
//@sub /let mut styles = Vec::new\(\);/ ==> let mut styles: Vec<StyleDecl> = Vec::new();
//@sub /for decl in decls/ ==> for decl in it: decls
//@sub * /\*l == 0\.0/ ==> f32_is_zero(*l)
//@sub /text: text\.clone\(\)/ ==> text: string_clone(text)
//@auto C01 C18 C19
fn styles_from_properties(decls: &[parser::Declaration]) -> (styles_out: Vec<StyleDecl>)
    ensures //@w
        // exactly the mapped declarations, in order, followed by one default-importance `display: none` iff the block //@w
        // both zeroes a height and hides overflow (C18) //@w
        svs(styles_out@) =~= expected(decls@, decls@.len() as int) //@w @C18 @C19 #styles_are_exactly_the_mapped_declarations
            + (if any_zero_height(decls@, decls@.len() as int) && any_hidden(decls@, decls@.len() as int) { seq![(SView::DisplayNone, Importance::Default)] } else { Seq::empty() }), //@w @C18 @C19 #styles_are_exactly_the_mapped_declarations
{
    let mut styles: Vec<StyleDecl> = Vec::new();
    html_trace_quiet!("styles:from_properties2: {decls:?}");
    let mut overflow_hidden = false;
    let mut height_zero = false;
    for decl in it: decls
        invariant //@w
            it.seq().len() == decls@.len(), forall|i: int| 0 <= i < decls@.len() ==> *(#[trigger] it.seq()[i]) == decls@[i], //@w
            svs(styles@) =~= expected(decls@, it.index@), //@w @C18 @C19 #declarations_emitted_so_far
            overflow_hidden == any_hidden(decls@, it.index@), height_zero == any_zero_height(decls@, it.index@), //@w @C18 #zero_height_and_hidden_overflow_seen_so_far
    {
        proof { //@w
            let k = it.index@; //@w
            assert(*decl == decls@[k]); //@w
            assert(any_hidden(decls@, k + 1) == (any_hidden(decls@, k) || hides_overflow(decls@[k]))); //@w
            assert(any_zero_height(decls@, k + 1) == (any_zero_height(decls@, k) || zero_height(decls@[k]))); //@w
        } //@w
        html_trace_quiet!("styles:from_properties2: {decl:?}");
        match &decl.data {
            parser::Decl::Unknown { .. } => {}
            parser::Decl::Color {
                value: parser::Colour::Rgb(r, g, b),
            } => {
                styles.push(StyleDecl {
                    style: Style::Colour(Colour {
                        r: *r,
                        g: *g,
                        b: *b,
                    }),
                    importance: decl.important,
                });
            }
            parser::Decl::BackgroundColor {
                value: parser::Colour::Rgb(r, g, b),
            } => {
                styles.push(StyleDecl {
                    style: Style::BgColour(Colour {
                        r: *r,
                        g: *g,
                        b: *b,
                    }),
                    importance: decl.important,
                });
            }
            parser::Decl::Height { value } => match value {
                parser::Height::Auto => (),
                parser::Height::Length(l, _) => {
                    if f32_is_zero(*l) {
                        height_zero = true;
                    }
                }
            },
            parser::Decl::MaxHeight { value } => match value {
                parser::Height::Auto => (),
                parser::Height::Length(l, _) => {
                    if f32_is_zero(*l) {
                        height_zero = true;
                    }
                }
            },
            parser::Decl::Overflow {
                value: parser::Overflow::Hidden,
            }
            | parser::Decl::OverflowY {
                value: parser::Overflow::Hidden,
            } => {
                overflow_hidden = true;
            }
            parser::Decl::Overflow { .. } | parser::Decl::OverflowY { .. } => {}
            parser::Decl::Display { value } => match value {
                parser::Display::None => {
                    styles.push(StyleDecl {
                        style: Style::Display(Display::None),
                        importance: decl.important,
                    });
                }
                #[cfg(feature = "css_ext")]
                parser::Display::RawDom => {
                    styles.push(StyleDecl {
                        style: Style::Display(Display::ExtRawDom),
                        importance: decl.important,
                    });
                }
                // A later or more specific `display: block` etc. overrides `display: none`.
                parser::Display::Other => {
                    styles.push(StyleDecl {
                        style: Style::Display(Display::Other),
                        importance: decl.important,
                    });
                }
            },
            parser::Decl::WhiteSpace { value } => {
                styles.push(StyleDecl {
                    style: Style::WhiteSpace(*value),
                    importance: decl.important,
                });
            }
            parser::Decl::Content { text } => {
                styles.push(StyleDecl {
                    style: Style::Content(PseudoContent { text: string_clone(text) }),
                    importance: decl.important,
                });
            } /*
              _ => {
                  html_trace_quiet!("CSS: Unhandled property {:?}", decl);
              }
              */
        }
    }
    // If the height is set to zero and overflow hidden, treat as display: none
    if height_zero && overflow_hidden {
        styles.push(StyleDecl {
            style: Style::Display(Display::None),
            importance: Importance::Default,
        });
    }
    styles
}
//@end

} // verus!
fn main() {}
