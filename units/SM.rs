//@unit SM — selector matching: Selector::do_matches / matches (src/css.rs:82-185) against the CSS selector semantics, over the
// repository's own DOM types (src/markup5ever_rcdom.rs).  Partial correctness: termination of the recursion is not proved.
//@verus-arg --cfg
//@verus-arg feature="css"
use vstd::prelude::*;
use vstd::arithmetic::mul::*;
use std::rc::Rc;
macro_rules! html_trace { ($($t:tt)*) => {} }
macro_rules! html_trace_quiet { ($($t:tt)*) => {} }
verus! {
//@export-begin
//@import NC

// ---- R10: types of other crates, opaque; only what do_matches reads is given a (trusted) accessor ------------------------
// RefCell: the DOM is not mutated while selectors are matched (do_matches only takes shared borrows), so the content is a
// function of the cell (assumption A10).
#[verifier::external_body] #[verifier::accept_recursive_types(T)] struct RefCell<T> { x: std::marker::PhantomData<T> }
impl<T> RefCell<T> {
    uninterp spec fn val(&self) -> T;
    #[verifier::external_body] fn borrow(&self) -> (r: &T) ensures *r == self.val() { unimplemented!() }
}
#[verifier::external_body] #[verifier::accept_recursive_types(T)] struct Cell<T> { x: std::marker::PhantomData<T> }
#[verifier::external_body] struct WeakHandle { x: u8 }      // = Weak<Node>
#[verifier::external_body] struct StrTendril { x: u8 }
#[verifier::external_body] struct QualName { x: u8 }
struct Attribute { name: QualName, value: StrTendril }   // html5ever::Attribute (fields as in html5ever 0.27)
uninterp spec fn local_name(q: QualName) -> Seq<char>;            // q.local / q.expanded().local
uninterp spec fn tendril_str(t: StrTendril) -> Seq<char>;
uninterp spec fn ws_tokens(s: Seq<char>) -> Seq<Seq<char>>;       // str::split_whitespace (core; not specified here)
// R7/R13 lowered expressions (each is one std / html5ever call chain, named so that it can carry a contract):
#[verifier::external_body] fn local_is(q: &QualName, s: &str) -> (r: bool) ensures r == (local_name(*q) == s@) { unimplemented!() }            // &q.local == s
#[verifier::external_body] fn local_eq(name: &String, q: &QualName) -> (r: bool) ensures r == (local_name(*q) == name@) { unimplemented!() }   // name == q.expanded().local.deref()
#[verifier::external_body] fn tendril_eq(t: &StrTendril, s: &String) -> (r: bool) ensures r == (tendril_str(*t) == s@) { unimplemented!() }    // &*t == s
#[verifier::external_body] fn split_ws<'a>(t: &'a StrTendril) -> (r: Vec<&'a str>) ensures r@.len() == ws_tokens(tendril_str(*t)).len(), forall|i: int| 0 <= i < r@.len() ==> (#[trigger] r@[i])@ == ws_tokens(tendril_str(*t))[i] { unimplemented!() }   // t.split_whitespace()
#[verifier::external_body] fn tok_eq(a: &str, b: &String) -> (r: bool) ensures r == (a@ == b@) { unimplemented!() }                                // a == b
#[verifier::external_body] fn slice_tail<T>(s: &[T]) -> (r: &[T]) requires s@.len() >= 1, ensures r@ == s@.skip(1) { unimplemented!() }             // &s[1..]  (panics on an empty slice: the precondition)
// node identity: Rc::ptr_eq
uninterp spec fn node_id(n: Handle) -> int;
#[verifier::external_body] fn same_node(a: &Handle, b: &Handle) -> (r: bool) ensures r == (node_id(*a) == node_id(*b)) { unimplemented!() }         // Rc::ptr_eq(a, b)

type Handle = Rc<Node>;
use NodeData::{Comment, Document, Element};
//@item src/markup5ever_rcdom.rs :: enum NodeData
enum NodeData {
    /// The `Document` itself - the root node of a HTML document.
    Document,

    /// A `DOCTYPE` with name, public id, and system id. See
    /// [document type declaration on wikipedia][dtd wiki].
    ///
    /// [dtd wiki]: https://en.wikipedia.org/wiki/Document_type_declaration
    Doctype {
        name: StrTendril,
        public_id: StrTendril,
        system_id: StrTendril,
    },

    /// A text node.
    Text { contents: RefCell<StrTendril> },

    /// A comment.
    Comment { contents: StrTendril },

    /// An element with attributes.
    Element {
        name: QualName,
        attrs: RefCell<Vec<Attribute>>,

        /// For HTML \<template\> elements, the [template contents].
        ///
        /// [template contents]: https://html.spec.whatwg.org/multipage/#template-contents
        template_contents: RefCell<Option<Handle>>,

        /// Whether the node is a [HTML integration point].
        ///
        /// [HTML integration point]: https://html.spec.whatwg.org/multipage/#html-integration-point
        mathml_annotation_xml_integration_point: bool,
    },

    /// A Processing instruction.
    ProcessingInstruction {
        target: StrTendril,
        contents: StrTendril,
    },
}
//@end
//@item src/markup5ever_rcdom.rs :: struct Node
struct Node {
    /// Parent node.
    parent: Cell<Option<WeakHandle>>,
    /// Child nodes of this node.
    children: RefCell<Vec<Handle>>,
    /// Represents this node's data.
    data: NodeData,
}
//@end

// ---- the document tree (assumption A11: what html5ever's tree builder guarantees) ------------------------------------------
uninterp spec fn parent_of(n: Node) -> Option<Handle>;
spec fn par(n: Handle) -> Option<Handle> { parent_of(*n) }
spec fn kids(n: Handle) -> Seq<Handle> { n.children.val()@ }
spec fn is_elem(n: Handle) -> bool { n.data is Element }
// a node is one of the children of its parent, children are distinct nodes, and there are fewer than 2^31 of them
#[verifier::external_body]
proof fn axiom_tree(n: Handle)
    ensures
        par(n) matches Some(p) ==> exists|j: int| 0 <= j < kids(p).len() && node_id(#[trigger] kids(p)[j]) == node_id(n) && kids(p)[j] == n,
        forall|i: int, j: int| 0 <= i < j < kids(n).len() ==> node_id(#[trigger] kids(n)[i]) != node_id(#[trigger] kids(n)[j]),
        kids(n).len() < 0x7fff_ffff,
        n.data is Document ==> par(n) is None,
        forall|j: int| 0 <= j < kids(n).len() ==> par(#[trigger] kids(n)[j]) == Some(n),
{}
impl Node {
//@item src/markup5ever_rcdom.rs :: impl Node :: fn get_parent
//@sub /-> Option<Rc<Self>>/ ==> -> (r: Option<Rc<Self>>)
//@drop-body
    #[verifier::external_body] //@w
    fn get_parent(&self) -> (r: Option<Rc<Self>>)
        ensures r == parent_of(*self), //@w
            r matches Some(p) ==> node_ok(p), //@w
    {
        if let Some(parent) = self.parent.take() {
            let parent_handle = parent.upgrade();
            self.parent.set(Some(parent));
            parent_handle
        } else {
            None
        }
    }
//@end
}
//@item src/css.rs :: enum SelectorComponent
enum SelectorComponent {
    Class(String),
    Element(String),
    Hash(String),
    Star,
    CombChild,
    CombDescendant,
    NthChild {
        /* An + B [of sel] */
        a: i32,
        b: i32,
        sel: Selector,
    },
}
//@end
//@item src/css.rs :: enum PseudoElement
enum PseudoElement {
    Before,
    After,
}
//@end
//@item src/css.rs :: struct Selector
struct Selector {
    // List of components, right first so we match from the leaf.
    components: Vec<SelectorComponent>,
    pseudo_element: Option<PseudoElement>,
}
//@end

// ---- CSS selector semantics (from the property statement, C20) --------------------------------------------------------------
// components are stored right-to-left: cs[i] is matched at node n, cs[i+1..] to its left
spec fn attrs_of(n: Handle) -> Seq<Attribute> { if n.data is Element { n.data->Element_attrs.val()@ } else { Seq::empty() } }
// .c : some class attribute has c among its whitespace-separated tokens
spec fn has_class(n: Handle, c: Seq<char>) -> bool {
    is_elem(n) && exists|i: int, j: int| 0 <= i < attrs_of(n).len() && local_name(#[trigger] attrs_of(n)[i].name) == "class"@
        && 0 <= j < ws_tokens(tendril_str(attrs_of(n)[i].value)).len() && #[trigger] ws_tokens(tendril_str(attrs_of(n)[i].value))[j] == c
}
// #h : some id attribute equals h
spec fn has_id(n: Handle, h: Seq<char>) -> bool {
    is_elem(n) && exists|i: int| 0 <= i < attrs_of(n).len() && local_name(#[trigger] attrs_of(n)[i].name) == "id"@ && tendril_str(attrs_of(n)[i].value) == h
}
// e : the element's local name is e
spec fn elem_named(n: Handle, e: Seq<char>) -> bool { is_elem(n) && local_name(n.data->Element_name) == e }
// k-th ancestor
spec fn anc(n: Handle, k: nat) -> Option<Handle> decreases k {
    if k == 0 { Some(n) } else { match par(n) { Some(p) => anc(p, (k - 1) as nat), None => None } }
}
// number of element children among the first j that match the selector scs
spec fn cnt(scs: Seq<SelectorComponent>, ks: Seq<Handle>, j: int) -> int
    decreases scs, 1int, j
{
    if j <= 0 || j > ks.len() { 0 } else { cnt(scs, ks, j - 1) + if is_elem(ks[j - 1]) && m(scs, 0, ks[j - 1]) { 1int } else { 0int } }
}
spec fn m(cs: Seq<SelectorComponent>, i: int, n: Handle) -> bool
    decreases cs, 0int, cs.len() - i
{
    if i < 0 || i >= cs.len() { true } else {
        match cs[i] {
            SelectorComponent::Class(c) => has_class(n, c@) && m(cs, i + 1, n),
            SelectorComponent::Hash(h) => has_id(n, h@) && m(cs, i + 1, n),
            SelectorComponent::Element(e) => elem_named(n, e@) && m(cs, i + 1, n),
            // * : any element (not the document node)
            SelectorComponent::Star => is_elem(n) && m(cs, i + 1, n),
            // A > B : B's parent matches A
            SelectorComponent::CombChild => par(n) matches Some(p) && m(cs, i + 1, p),
            // A B : some proper ancestor of B matches A
            SelectorComponent::CombDescendant => exists|k: nat| k >= 1 && ((#[trigger] anc(n, k)) matches Some(a) && m(cs, i + 1, a)),
            // :nth-child(an+b of S): the element matches S and its 1-based rank among the siblings matching S is a*t+b for some t >= 0
            SelectorComponent::NthChild { a, b, sel } => par(n) matches Some(p) && is_elem(n) && m(sel.components@, 0, n)
                && (exists|pos: int| 0 <= pos < kids(p).len() && node_id(#[trigger] kids(p)[pos]) == node_id(n) && nth_matches(a as int, b as int, cnt(sel.components@, kids(p), pos + 1)))
                && m(cs, i + 1, n),
        }
    }
}
spec fn same_seq<T>(a: Seq<&T>, b: Seq<T>) -> bool { a.len() == b.len() && forall|i: int| 0 <= i < b.len() ==> *(#[trigger] a[i]) == b[i] }
spec fn toks(a: Attribute) -> Seq<Seq<char>> { ws_tokens(tendril_str(a.value)) }
// do_matches is only called on elements (computed_style), their element siblings, and their ancestors (elements or the document)
spec fn node_ok(n: Handle) -> bool { is_elem(n) || n.data is Document }
// matching the tail slice &comps[1..] from its start is matching comps from index 1
proof fn lemma_skip(cs: Seq<SelectorComponent>, i: int, n: Handle)
    requires i >= 0, cs.len() >= 1,
    ensures m(cs.skip(1), i, n) == m(cs, i + 1, n),
    decreases cs.len() - i,
{
    let t = cs.skip(1);
    if i < t.len() {
        assert(t[i] == cs[i + 1]);
        match cs[i + 1] {
            SelectorComponent::CombChild => { if par(n) is Some { lemma_skip(cs, i + 1, par(n).unwrap()); } }
            SelectorComponent::CombDescendant => {
                assert forall|a: Handle| #[trigger] m(t, i + 1, a) == m(cs, i + 2, a) by { lemma_skip(cs, i + 1, a); }
                if m(t, i, n) { let k = choose|k: nat| k >= 1 && ((#[trigger] anc(n, k)) matches Some(a) && m(t, i + 1, a)); assert(m(cs, i + 2, anc(n, k).unwrap())); }
                if m(cs, i + 1, n) { let k = choose|k: nat| k >= 1 && ((#[trigger] anc(n, k)) matches Some(a) && m(cs, i + 2, a)); assert(m(t, i + 1, anc(n, k).unwrap())); }
            }
            SelectorComponent::Class(_) => { lemma_skip(cs, i + 1, n); }
            SelectorComponent::Hash(_) => { lemma_skip(cs, i + 1, n); }
            SelectorComponent::Element(_) => { lemma_skip(cs, i + 1, n); }
            SelectorComponent::Star => { lemma_skip(cs, i + 1, n); }
            SelectorComponent::NthChild { .. } => { lemma_skip(cs, i + 1, n); }
        }
    }
}
proof fn lemma_skip_all(cs: Seq<SelectorComponent>)
    requires cs.len() >= 1,
    ensures forall|n: Handle| #[trigger] m(cs.skip(1), 0, n) == m(cs, 1, n),
{ assert forall|n: Handle| #[trigger] m(cs.skip(1), 0, n) == m(cs, 1, n) by { lemma_skip(cs, 0, n); } }
// "some proper ancestor matches" unrolled once: the parent matches, or some proper ancestor of the parent does
proof fn lemma_desc(cs: Seq<SelectorComponent>, n: Handle)
    requires cs.len() >= 1, cs[0] is CombDescendant,
    ensures m(cs, 0, n) == (par(n) matches Some(p) && (m(cs, 1, p) || m(cs, 0, p))),
{
    reveal_with_fuel(anc, 2);
    if par(n) is Some {
        let p = par(n).unwrap();
        if m(cs, 0, n) {
            let k = choose|k: nat| k >= 1 && ((#[trigger] anc(n, k)) matches Some(a) && m(cs, 1, a));
            if k == 1 { assert(anc(n, 1) == Some(p)); } else { assert(anc(n, k) == anc(p, (k - 1) as nat)); assert(m(cs, 0, p)); }
        }
        if m(cs, 1, p) { assert(anc(n, 1) == Some(p)); }
        if m(cs, 0, p) {
            let k = choose|k: nat| k >= 1 && ((#[trigger] anc(p, k)) matches Some(a) && m(cs, 1, a));
            assert(anc(n, k + 1) == anc(p, k));
        }
    } else {
        assert forall|k: nat| k >= 1 implies (#[trigger] anc(n, k)) is None by {}
    }
}
impl Selector {
//@item src/css.rs :: impl Selector :: fn do_matches
//@auto C01 C20
//@sub /-> bool/ ==> -> (r: bool)
//@sub * /&comps\[1\.\.\]/ ==> slice_tail(comps)
//@sub * /for attr in attrs\.iter\(\)/ ==> for attr in it: attrs.iter()
//@sub /&attr\.name\.local == "class"/ ==> local_is(&attr.name, "class")
//@sub /for cls in attr\.value\.split_whitespace\(\)/ ==> let toks_v = split_ws(&attr.value);\n                                for cls in it2: toks_v
//@sub /cls == class/ ==> tok_eq(cls, class)
//@sub /&attr\.name\.local == "id" && &\*attr\.value == hash/ ==> local_is(&attr.name, "id") && tendril_eq(&attr.value, hash)
//@sub /name == eltname\.expanded\(\)\.local\.deref\(\)/ ==> local_eq(name, eltname)
//@sub /for child in parent\.children\.borrow\(\)\.iter\(\)/ ==> let kids_v = parent.children.borrow();\n                    for child in it3: kids_v.iter()
//@sub * /Rc::ptr_eq\(child, node\)/ ==> same_node(child, node)
//@sub /\(idx_offset % a\)/ ==> (i64_rem(idx_offset, a))
//@sub /idx_offset \/ a;/ ==> i64_div(idx_offset, a);
    #[verifier::exec_allows_no_decreases_clause] //@w
    fn do_matches(comps: &[SelectorComponent], node: &Handle) -> (r: bool)
        requires node_ok(*node), //@w
        // the selector (components right to left) matches exactly when the CSS semantics say so (C20) //@w
        ensures r == m(comps@, 0, *node), //@w @C20 #selector_matches_iff_css_semantics
    {
        proof { if comps@.len() >= 1 { lemma_skip_all(comps@); if comps@[0] is CombDescendant { lemma_desc(comps@, *node); } } } //@w
        match comps.first() {
            None => true,
            Some(comp) => match comp {
                SelectorComponent::Class(class) => match &node.data {
                    Document
                    | NodeData::Doctype { .. }
                    | NodeData::Text { .. }
                    | Comment { .. }
                    | NodeData::ProcessingInstruction { .. } => false,
                    Element { attrs, .. } => {
                        let attrs = attrs.borrow();
                        assert(attrs@ == attrs_of(*node)); //@w
                        for attr in it: attrs.iter()
                            invariant //@w
                                comps@.len() >= 1, comps@[0] == *comp, *comp == SelectorComponent::Class(*class), node_ok(*node), is_elem(*node), //@w @C20 #do_matches_loop_invariant
                                same_seq(it.seq(), attrs@), attrs@ == attrs_of(*node), //@w @C20 #do_matches_loop_invariant
                                forall|n: Handle| #[trigger] m(comps@.skip(1), 0, n) == m(comps@, 1, n), //@w @C20 #do_matches_loop_invariant
                                forall|i: int, j: int| 0 <= i < it.index@ && local_name(#[trigger] attrs@[i].name) == "class"@ && 0 <= j < ws_tokens(tendril_str(attrs@[i].value)).len() ==> #[trigger] ws_tokens(tendril_str(attrs@[i].value))[j] != class@, //@w @C20 #do_matches_loop_invariant
                        {
                            if local_is(&attr.name, "class") {
                                let toks_v = split_ws(&attr.value);
                                let ghost ai = it.index@; //@w
                                assert(*attr == attrs@[ai]); //@w
                                for cls in it2: toks_v
                                    invariant //@w
                                        comps@.len() >= 1, comps@[0] == *comp, *comp == SelectorComponent::Class(*class), node_ok(*node), is_elem(*node), //@w @C20 #do_matches_loop_invariant
                                        attrs@ == attrs_of(*node), 0 <= ai < attrs@.len(), *attr == attrs@[ai], local_name(attrs@[ai].name) == "class"@, //@w @C20 #do_matches_loop_invariant
                                        it2.seq() == toks_v@, toks_v@.len() == toks(*attr).len(), //@w @C20 #do_matches_loop_invariant
                                        forall|j: int| 0 <= j < toks_v@.len() ==> (#[trigger] toks_v@[j])@ == toks(*attr)[j], //@w @C20 #do_matches_loop_invariant
                                        forall|n: Handle| #[trigger] m(comps@.skip(1), 0, n) == m(comps@, 1, n), //@w @C20 #do_matches_loop_invariant
                                        forall|j: int| 0 <= j < it2.index@ ==> #[trigger] toks(*attr)[j] != class@, //@w @C20 #do_matches_loop_invariant
                                {
                                    if tok_eq(cls, class) {
                                        assert(toks(attrs_of(*node)[ai])[it2.index@] == class@); //@w
                                        assert(has_class(*node, class@)); //@w
                                        return Self::do_matches(slice_tail(comps), node);
                                    }
                                }
                            }
                        }
                        false
                    }
                },
                SelectorComponent::Hash(hash) => {
                    if let Element { attrs, .. } = &node.data {
                        let attrs = attrs.borrow();
                        assert(attrs@ == attrs_of(*node)); //@w
                        for attr in it: attrs.iter()
                            invariant //@w
                                comps@.len() >= 1, comps@[0] == *comp, *comp == SelectorComponent::Hash(*hash), node_ok(*node), is_elem(*node), //@w @C20 #do_matches_loop_invariant
                                same_seq(it.seq(), attrs@), attrs@ == attrs_of(*node), //@w @C20 #do_matches_loop_invariant
                                forall|n: Handle| #[trigger] m(comps@.skip(1), 0, n) == m(comps@, 1, n), //@w @C20 #do_matches_loop_invariant
                                forall|i: int| 0 <= i < it.index@ ==> !(local_name(#[trigger] attrs@[i].name) == "id"@ && tendril_str(attrs@[i].value) == hash@), //@w @C20 #do_matches_loop_invariant
                        {
                            if local_is(&attr.name, "id") && tendril_eq(&attr.value, hash) {
                                assert(*attr == attrs_of(*node)[it.index@]); //@w
                                assert(has_id(*node, hash@)); //@w
                                return Self::do_matches(slice_tail(comps), node);
                            }
                        }
                    }
                    false
                }
                SelectorComponent::Element(name) => match &node.data {
                    Element { name: eltname, .. } if local_eq(name, eltname) => {
                        Self::do_matches(slice_tail(comps), node)
                    }
                    _ => false,
                },
                // The universal selector matches any element, but not the
                // document node above the root element.
                SelectorComponent::Star => match &node.data {
                    Element { .. } => Self::do_matches(slice_tail(comps), node),
                    _ => false,
                },
                SelectorComponent::CombChild => {
                    if let Some(parent) = node.get_parent() {
                        Self::do_matches(slice_tail(comps), &parent)
                    } else {
                        false
                    }
                }
                SelectorComponent::CombDescendant => {
                    if let Some(parent) = node.get_parent() {
                        Self::do_matches(slice_tail(comps), &parent) || Self::do_matches(comps, &parent)
                    } else {
                        false
                    }
                }
                SelectorComponent::NthChild { a, b, sel } => {
                    let parent = if let Some(parent) = node.get_parent() {
                        parent
                    } else {
                        return false;
                    };
                    let mut idx = 0i32;
                    let kids_v = parent.children.borrow();
                    let ghost ks = kids(parent); //@w
                    let ghost scs = sel.components@; //@w
                    let ghost mut found = false; //@w
                    proof { axiom_tree(*node); axiom_tree(parent); assert(kids_v@ == ks); assert(is_elem(*node)); } //@w
                    let ghost pos = choose|j: int| 0 <= j < ks.len() && node_id(#[trigger] ks[j]) == node_id(*node) && ks[j] == *node; //@w
                    for child in it3: kids_v.iter()
                        invariant_except_break //@w
                            same_seq(it3.seq(), ks), ks == kids(parent), ks.len() < 0x7fff_ffff, scs == sel.components@, //@w
                            comps@.len() >= 1, comps@[0] == *comp, *comp == (SelectorComponent::NthChild { a: *a, b: *b, sel: *sel }), par(*node) == Some(parent), is_elem(*node), //@w
                            0 <= pos < ks.len() && node_id(ks[pos]) == node_id(*node) && ks[pos] == *node, //@w
                            forall|i: int, j: int| 0 <= i < j < ks.len() ==> node_id(#[trigger] ks[i]) != node_id(#[trigger] ks[j]), //@w
                            !found, it3.index@ <= pos, //@w
                            idx == cnt(scs, ks, it3.index@), 0 <= idx <= it3.index@, //@w
                        ensures //@w
                            found && is_elem(*node) && m(scs, 0, *node) && idx == cnt(scs, ks, pos + 1) && 1 <= idx <= ks.len(), //@w
                    {
                        let ghost j = it3.index@; //@w
                        assert(*child == ks[j]); //@w
                        assert(j == pos <==> node_id(*child) == node_id(*node)); //@w
                        if let Element { .. } = child.data {
                            if sel.matches(child) {
                                idx += 1;
                                if same_node(child, node) {
                                    proof { found = true; } //@w
                                    break;
                                }
                            } else if same_node(child, node) {
                                return false;
                            }
                        }
                    }
                    if idx == 0 {
                        // The child wasn't found(?)
                        return false;
                    }
                    proof { //@w
                        lemma_nth(*a as int, *b as int, idx as int); //@w
                        // the position of the node among its siblings is unique, so the rank in the CSS definition is idx //@w
                        assert forall|p2: int| 0 <= p2 < ks.len() && node_id(#[trigger] ks[p2]) == node_id(*node) implies p2 == pos by {} //@w
                        assert(m(comps@, 0, *node) == (nth_matches(*a as int, *b as int, idx as int) && m(comps@, 1, *node))) by { //@w
                            if nth_matches(*a as int, *b as int, idx as int) { assert(node_id(ks[pos]) == node_id(*node) && nth_matches(*a as int, *b as int, cnt(scs, ks, pos + 1))); } //@w
                        } //@w
                    } //@w
                    let ghost a0 = *a as int; //@w
                    /* The selector matches if idx == a*n + b, where
                     * n >= 0
                     */
                    // Use wider arithmetic: a and b can be anywhere in the i32
                    // range, so idx - b doesn't always fit.
                    let idx_offset = idx as i64 - *b as i64;
                    let a = *a as i64;
                    if a == 0 {
                        return idx_offset == 0 && Self::do_matches(slice_tail(comps), node);
                    }
                    if (i64_rem(idx_offset, a)) != 0 {
                        // Not a multiple
                        return false;
                    }
                    let n = i64_div(idx_offset, a);
                    n >= 0 && Self::do_matches(slice_tail(comps), node)
                }
            },
        }
    }
//@end
//@item src/css.rs :: impl Selector :: fn matches
//@auto C01 C20
//@sub /-> bool/ ==> -> (r: bool)
    #[verifier::exec_allows_no_decreases_clause] //@w
    fn matches(&self, node: &Handle) -> (r: bool)
        requires node_ok(*node), //@w
        ensures r == m(self.components@, 0, *node), //@w @C20 #selector_matches_iff_css_semantics
    {
        Self::do_matches(&self.components, node)
    }
//@end
}
//@export-end
} // verus!
fn main() {}
