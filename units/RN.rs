//@unit RN — block prefixes in do_render_node: heading, quote, list and definition arms (src/lib.rs:2011-2151)
// Slices of the match arms: the statements that measure the decorator's prefix and create the narrower sub-renderer.
// Free variables: renderer (R12: the Deref target SubRenderer), size_estimate.  The decorator may return ANY string (C16).
// Imports width_minus under its proved contract (unit WM).
use vstd::prelude::*;
macro_rules! html_trace { ($($t:tt)*) => {} }
macro_rules! html_trace_quiet { ($($t:tt)*) => {} }
verus! {
global size_of usize == 8;
//@import WM

// display width and byte length of strings (A2, A3)
pub uninterp spec fn cw(c: char) -> Option<usize>;
pub open spec fn sw(s: Seq<char>) -> nat decreases s.len() { if s.len() == 0 { 0 } else { sw(s.drop_last()) + (match cw(s.last()) { Some(w) => w as nat, None => 0 }) } }
pub open spec fn l8(c: char) -> nat { (choose|n: usize| call_ensures(char::len_utf8, (c,), n)) as nat }
pub open spec fn off(s: Seq<char>, k: int) -> nat decreases k { if k <= 0 { 0 } else { off(s, k - 1) + l8(s[k - 1]) } }
pub assume_specification [ String::len ] (s: &String) -> (r: usize) ensures r == off(s@, s@.len() as int);
pub struct UnicodeWidthStr;
impl UnicodeWidthStr {
    #[verifier::external_body]
    pub fn width(s: &str) -> (r: usize) ensures r == sw(s@) { unimplemented!() }
}

// A6: decorators are deterministic: the marker of item number i is a function of i (the source makes the same assumption,
// src/lib.rs "This assumes that the decorator gives the same width as default")
pub uninterp spec fn ol_prefix(i: i64) -> Seq<char>;
pub open spec fn spaces(n: nat) -> Seq<char> { Seq::new(n, |i: int| ' ') }
pub open spec fn maxn(a: nat, b: nat) -> nat { if a >= b { a } else { b } }
pub open spec fn sat_add(a: i64, b: i64) -> i64 { if a + b > i64::MAX { i64::MAX } else if a + b < i64::MIN { i64::MIN } else { (a + b) as i64 } }
// the common marker width of an ordered list, from the property (C07, C16): the widest marker of the list — of ALL its items, whatever
// strings the decorator returns (roman numerals are widest in the middle of a list: D25)
pub open spec fn ol_width(start: i64, n: usize) -> nat decreases n {
    if n == 0 { 0 } else { maxn(ol_width(start, (n - 1) as usize), sw(ol_prefix(sat_add(start, (n - 1) as i64)))) }
}
pub proof fn lemma_ol_width_covers(start: i64, n: usize, k: usize)
    requires k < n,
    ensures sw(ol_prefix(sat_add(start, k as i64))) <= ol_width(start, n),
    decreases n
{
    if k + 1 < n { lemma_ol_width_covers(start, (n - 1) as usize, k); }
}
pub assume_specification [ i64::abs ] (a: i64) -> (r: i64) requires a != i64::MIN ensures r == (if a >= 0 { a as int } else { -(a as int) });
pub assume_specification [ i64::unsigned_abs ] (a: i64) -> (r: u64) ensures r == (if a >= 0 { a as int } else { -(a as int) });
pub assume_specification [ i64::saturating_add ] (a: i64, b: i64) -> (r: i64) ensures r == sat_add(a, b);
pub assume_specification [ str::repeat ] (s: &str, n: usize) -> (r: String)
    ensures r@.len() == s@.len() * n, forall|i: int| 0 <= i < r@.len() ==> r@[i] == s@[i % (s@.len() as int)];
// R13: the free function std::cmp::max on usize (the code uses it next to the method form)
fn max(a: usize, b: usize) -> (r: usize) ensures r == maxn(a as nat, b as nat) { if a >= b { a } else { b } }
// R6: format!("{: <width$}", "", width = n) and format!("{}{}", a, b)
#[verifier::external_body]
fn spaces_string(n: usize) -> (r: String) ensures r@ == spaces(n as nat) { unimplemented!() }
#[verifier::external_body]
fn concat_strings(a: String, b: String) -> (r: String) ensures r@ == a@ + b@ { unimplemented!() }
trait TextDecorator: Sized {
    fn ordered_item_prefix(&self, i: i64) -> (r: String) ensures r@ == ol_prefix(i);
}

//@item src/lib.rs :: struct SizeEstimate
struct SizeEstimate {
    size: usize,      // Rough overall size
    min_width: usize, // The narrowest possible

    // The use is specific to the node type.
    prefix_size: usize,
}
//@end

// the renderer as seen from do_render_node: decorator calls return arbitrary strings and leave width/options alone
impl SubRenderer {
    #[verifier::external_body]
    fn header_prefix(&mut self, level: usize) -> (r: String) ensures final(self).width == old(self).width, final(self).options == old(self).options { unimplemented!() }
    #[verifier::external_body]
    fn quote_prefix(&mut self) -> (r: String) ensures final(self).width == old(self).width, final(self).options == old(self).options { unimplemented!() }
    #[verifier::external_body]
    fn unordered_item_prefix(&mut self) -> (r: String) ensures final(self).width == old(self).width, final(self).options == old(self).options { unimplemented!() }
    #[verifier::external_body]
    fn ordered_item_prefix(&mut self, i: i64) -> (r: String) ensures r@ == ol_prefix(i), final(self).width == old(self).width, final(self).options == old(self).options { unimplemented!() }
    // contract proved in unit SR (new_sub_renderer): the sub-renderer has exactly the requested width
    #[verifier::external_body]
    fn new_sub_renderer(&self, width: usize) -> (r: Result<Self>) ensures r matches Ok(s) && s.width == width && s.options == self.options { unimplemented!() }
}

// A6: calc_size_estimate stores the display width of the decorator's prefix in prefix_size (same decorator, same string)
#[verifier::external_body]
proof fn assume_estimate_measures(prefix_size: usize, prefix: Seq<char>) ensures prefix_size == sw(prefix) {}

//@slice src/lib.rs :: fn do_render_node :: /let prefix = renderer\.quote_prefix\(\);/ .. /renderer\.push\(sub_builder\);/
//@name blockquote_slice
//@auto C01 C16 C07
fn blockquote_slice(renderer: &mut SubRenderer, size_estimate: SizeEstimate) -> (r: Result<(String, SubRenderer)>) //@w
    requires //@w
        // boundary (A6), established by the size estimate of a BlockQuote node (src/lib.rs:732-749): the estimate includes the prefix //@w
        size_estimate.min_width >= size_estimate.prefix_size, //@w
    ensures //@w
        // the content is rendered at the width minus the DISPLAY width of whatever the decorator returned (C16, C07) … //@w
        r matches Ok(p) ==> Some(p.1.width as int) == wm_spec(old(renderer).width, old(renderer).options.allow_width_overflow, sw(p.0@) as usize, (size_estimate.min_width - sw(p.0@)) as usize), //@w @C16 @C07 #quote_content_width
        // … so prefix + content fit the parent (C02) unless overflow is allowed //@w
        r matches Ok(p) ==> sw(p.0@) + p.1.width <= old(renderer).width || old(renderer).options.allow_width_overflow, //@w @C02 @C16 #quote_fits_parent
        old(renderer).options.allow_width_overflow ==> r.is_ok(), //@w @C11 #quote_overflow_ok
{ //@w
            let prefix = renderer.quote_prefix();
            // boundary (A6): the estimate measured this same decorator string by display width (src/lib.rs:739) //@w
            proof { assume_estimate_measures(size_estimate.prefix_size, prefix@); } //@w
            // Layout works with the displayed width of the prefix, not its length in bytes.
            let prefix_width = UnicodeWidthStr::width(prefix.as_str());
            debug_assert!(size_estimate.prefix_size == prefix_width);
            let inner_width = size_estimate.min_width - prefix_width;
            let sub_builder =
                renderer.new_sub_renderer(renderer.width_minus(prefix_width, inner_width)?)?;
    Ok((prefix, sub_builder)) //@w
} //@w
//@end

//@slice src/lib.rs :: fn do_render_node :: /let prefix = renderer\.header_prefix\(level\);/ .. /renderer\.push\(sub_builder\);/
//@name header_slice
//@auto C01 C16 C07
fn header_slice(renderer: &mut SubRenderer, size_estimate: SizeEstimate, level: usize) -> (r: Result<(String, SubRenderer)>) //@w[
    ensures //@w
        // content of a heading is rendered at width minus the display width of the decorator's heading marker (C16, C07) //@w
        r matches Ok(p) ==> Some(p.1.width as int) == wm_spec(old(renderer).width, old(renderer).options.allow_width_overflow, sw(p.0@) as usize, (if size_estimate.min_width >= sw(p.0@) { size_estimate.min_width - sw(p.0@) } else { 0 }) as usize), //@w @C16 @C07 #heading_content_width
        r matches Ok(p) ==> sw(p.0@) + p.1.width <= old(renderer).width || old(renderer).options.allow_width_overflow, //@w @C02 @C16 #heading_fits_parent
        old(renderer).options.allow_width_overflow ==> r.is_ok(), //@w @C11
{ //@w]
            let prefix = renderer.header_prefix(level);
            proof { assume_estimate_measures(size_estimate.prefix_size, prefix@); } //@w
            let prefix_size = size_estimate.prefix_size;
            debug_assert!(UnicodeWidthStr::width(prefix.as_str()) == prefix_size);
            let min_width = size_estimate.min_width;
            let inner_width = min_width.saturating_sub(prefix_size);
            let sub_builder =
                renderer.new_sub_renderer(renderer.width_minus(prefix_size, inner_width)?)?;
    Ok((prefix, sub_builder)) //@w
} //@w
//@end

//@slice src/lib.rs :: fn do_render_node :: /let prefix = renderer\.unordered_item_prefix\(\);/ .. /TreeMapResult::PendingChildren \{/
//@name ul_prefix_slice
//@auto C01 C16 C07
fn ul_prefix_slice(renderer: &mut SubRenderer, size_estimate: SizeEstimate) -> (r: (String, usize)) //@w[
    ensures r.1 == sw(r.0@), //@w @C16 @C07 #bullet_measured_by_display_width
{ //@w]
            let prefix = renderer.unordered_item_prefix();
            let prefix_len = UnicodeWidthStr::width(prefix.as_str());
    (prefix, prefix_len) //@w
} //@w
//@end

//@slice src/lib.rs :: fn do_render_node :: /let inner_width = size_estimate\.min_width - prefix_len;/ .. /renderer\.push\(sub_builder\);/
//@name ul_item_slice
//@auto C01 C16 C07
fn ul_item_slice(renderer: &SubRenderer, size_estimate: SizeEstimate, prefix_len: usize) -> (r: Result<SubRenderer>) //@w[
    requires size_estimate.min_width >= prefix_len,   // boundary (A6): the list's estimate includes the bullet (src/lib.rs:732-749) //@w
    ensures //@w
        r matches Ok(sb) ==> Some(sb.width as int) == wm_spec(renderer.width, renderer.options.allow_width_overflow, prefix_len, (size_estimate.min_width - prefix_len) as usize), //@w @C16 @C07 #item_content_width
        renderer.options.allow_width_overflow ==> r.is_ok(), //@w @C11
{ //@w]
                    let inner_width = size_estimate.min_width - prefix_len;
                    let sub_builder = renderer
                        .new_sub_renderer(renderer.width_minus(prefix_len, inner_width)?)?;
    Ok(sub_builder) //@w
} //@w
//@end

//@slice src/lib.rs :: fn do_render_node :: /let indent = " "\.repeat\(prefix_len\);/ .. /renderer\.append_subrender\(/
//@name ul_indent_slice
//@auto C01 C16 C07
fn ul_indent_slice(prefix_len: usize) -> (r: String) //@w[
    ensures r@ =~= spaces(prefix_len as nat), //@w @C16 @C07 #continuation_indent_has_bullet_width
{ //@w]
    proof { reveal_strlit(" "); assert(1 * prefix_len == prefix_len) by (nonlinear_arith); } //@w
                    let indent = " ".repeat(prefix_len);
    indent //@w
} //@w
//@end

//@slice src/lib.rs :: fn do_render_node :: /let inner_min = size_estimate\.min_width - 2;/ .. /renderer\.push\(sub_builder\);/
//@name dd_slice
//@auto C01 C07
fn dd_slice(renderer: &SubRenderer, size_estimate: SizeEstimate) -> (r: Result<SubRenderer>) //@w[
    requires size_estimate.min_width >= 2,   // boundary (A6): a definition's estimate includes its two-column indent //@w
    ensures //@w
        r matches Ok(sb) ==> Some(sb.width as int) == wm_spec(renderer.width, renderer.options.allow_width_overflow, 2, (size_estimate.min_width - 2) as usize), //@w @C07 #dd_content_width
        renderer.options.allow_width_overflow ==> r.is_ok(), //@w @C11
{ //@w]
            let inner_min = size_estimate.min_width - 2;
            let sub_builder = renderer.new_sub_renderer(renderer.width_minus(2, inner_min)?)?;
    Ok(sub_builder) //@w
} //@w
//@end

//@slice src/lib.rs :: fn do_render_node :: /let num_items = items\.len\(\);/ .. /let i: Cell<_> = Cell::new\(start\);/
//@name ol_width_slice
//@auto C01 C07 C16
//@sub /items\.len\(\)/ ==> items_len
//@sub /(?s)prefix_width = max\(\s*prefix_width,\s*UnicodeWidthStr::width\(renderer\.ordered_item_prefix\(number\)\.as_str\(\)\),\s*\);/ ==> prefix_width = prefix_width.max(UnicodeWidthStr::width(renderer.ordered_item_prefix(number).as_str()));
//@sub /let mut prefix_width = 0;/ ==> let mut prefix_width: usize = 0;
//@sub /format!\("\{: <width\$\}", "", width = prefix_width\)/ ==> spaces_string(prefix_width)
fn ol_width_slice(renderer: &mut SubRenderer, start: i64, items_len: usize) -> (r: (usize, String)) //@w[
    requires items_len <= 0x7fff_ffff_ffff_ffff,   // a Vec never holds more than isize::MAX elements //@w
    ensures //@w
        // all markers of one list are padded to a common width: the widest marker of the list (C07) //@w
        r.0 == ol_width(start, items_len), //@w @C07 @C02 @C16 #ol_common_marker_width
        r.1@ == spaces(r.0 as nat), //@w @C07 #ol_continuation_indent
{ //@w]
            let num_items = items_len;

            // The widest marker can be anywhere in the list (negative start,
            // decorators which don't number in decimal), so look at all of them.
            let mut prefix_width: usize = 0;
            for k in 0..num_items
                invariant prefix_width == ol_width(start, k), num_items == items_len, items_len <= 0x7fff_ffff_ffff_ffff, //@w @C07 @C16 #ol_common_marker_width
            {
                let number = start.saturating_add(k as i64);
                prefix_width = prefix_width.max(UnicodeWidthStr::width(renderer.ordered_item_prefix(number).as_str()));
            }
            let prefixn = spaces_string(prefix_width);
    (prefix_width, prefixn) //@w
} //@w
//@end

//@slice src/lib.rs :: fn do_render_node :: /let inner_min = size_estimate\.min_width - size_estimate\.prefix_size;/ .. /renderer\.push\(sub_builder\);/
//@name ol_item_slice
//@auto C01 C07
fn ol_item_slice(renderer: &SubRenderer, size_estimate: SizeEstimate, prefix_width: usize) -> (r: Result<SubRenderer>) //@w[
    requires size_estimate.min_width >= size_estimate.prefix_size,   // boundary (A6): add_hor in the estimate //@w
    ensures //@w
        r matches Ok(sb) ==> Some(sb.width as int) == wm_spec(renderer.width, renderer.options.allow_width_overflow, prefix_width, (size_estimate.min_width - size_estimate.prefix_size) as usize), //@w @C07 #ol_item_content_width
        renderer.options.allow_width_overflow ==> r.is_ok(), //@w @C11
{ //@w]
                    let inner_min = size_estimate.min_width - size_estimate.prefix_size;
                    let sub_builder = renderer
                        .new_sub_renderer(renderer.width_minus(prefix_width, inner_min)?)?;
    Ok(sub_builder) //@w
} //@w
//@end

//@slice src/lib.rs :: fn do_render_node :: /let prefix1 = renderer\.ordered_item_prefix\(i\.get\(\)\);/ .. /renderer\.append_subrender\(/
//@name ol_marker_slice
//@auto C01 C07 C16
//@sub /i\.get\(\)/ ==> *i
//@sub /format!\("\{\}\{\}", prefix1, " "\.repeat\(pad\)\)/ ==> concat_strings(prefix1, " ".repeat(pad))
fn ol_marker_slice(renderer: &mut SubRenderer, i: &i64, prefix_width: usize) -> (r: String) //@w[
    ensures //@w
        // the marker of the item numbered i, padded with spaces to the common width (C07, C16: padding by display width) //@w
        r@ =~= ol_prefix(*i) + spaces((if prefix_width >= sw(ol_prefix(*i)) { prefix_width - sw(ol_prefix(*i)) } else { 0 }) as nat), //@w @C07 @C16 #ol_marker_padded_to_common_width
{ //@w]
    proof { reveal_strlit(" "); } //@w
                    let prefix1 = renderer.ordered_item_prefix(*i);
                    // Pad to the common width (in displayed columns).
                    let pad = prefix_width.saturating_sub(UnicodeWidthStr::width(prefix1.as_str()));
                    let prefix1 = concat_strings(prefix1, " ".repeat(pad));
    proof { assert(1 * pad == pad) by (nonlinear_arith); } //@w
    prefix1 //@w
} //@w
//@end

//@item src/lib.rs :: fn calc_ol_prefix_size
//@auto C01 C07 C16
//@sub /-> usize/ ==> -> (r: usize)
//@sub /(?s)prefix_width = max\(\s*prefix_width,\s*UnicodeWidthStr::width\(decorator\.ordered_item_prefix\(number\)\.as_str\(\)\),\s*\);/ ==> prefix_width = prefix_width.max(UnicodeWidthStr::width(decorator.ordered_item_prefix(number).as_str()));
//@sub /let mut prefix_width = 0;/ ==> let mut prefix_width: usize = 0;
fn calc_ol_prefix_size<D: TextDecorator>(start: i64, num_items: usize, decorator: &D) -> (r: usize)
    requires num_items <= 0x7fff_ffff_ffff_ffff, //@w
    ensures r == ol_width(start, num_items), //@w @C07 @C02 @C16 #estimate_uses_same_marker_width
{
    // The widest marker can be anywhere in the list (negative start, decorators
    // which don't number in decimal), so look at all of them.
    let mut prefix_width: usize = 0;
    for k in 0..num_items
        invariant prefix_width == ol_width(start, k), num_items <= 0x7fff_ffff_ffff_ffff, //@w @C07 @C16 #estimate_uses_same_marker_width
    {
        let number = start.saturating_add(k as i64);
        prefix_width = prefix_width.max(UnicodeWidthStr::width(decorator.ordered_item_prefix(number).as_str()));
    }
    prefix_width
}
//@end

} // verus!
fn main() {}
