//@unit CF — configuration plumbing: Config builder methods, make_context, RenderOptions built in render_with_context
//@verus-arg --cfg
//@verus-arg feature="css"
// R10: StyleData (the parsed CSS) and the decorator type are opaque.  R19: `mut self` receivers are rebound.
use vstd::prelude::*;
macro_rules! html_trace { ($($t:tt)*) => {} }
macro_rules! html_trace_quiet { ($($t:tt)*) => {} }
verus! {
struct StyleData { x: u8 }
impl Clone for StyleData { #[verifier::external_body] fn clone(&self) -> (r: Self) ensures r == *self { unimplemented!() } }
trait TextDecorator: Sized {}
struct TooNarrowErr;
//@item src/lib.rs :: struct HtmlContext
//@sub /style_data: css::StyleData/ ==> style_data: StyleData
struct HtmlContext {
    style_data: StyleData,
    #[cfg(feature = "css")]
    use_doc_css: bool,

    max_wrap_width: Option<usize>,
    pad_block_width: bool,
    allow_width_overflow: bool,
    min_wrap_width: usize,
    raw: bool,
    draw_borders: bool,
    wrap_links: bool,
    include_link_footnotes: bool,
    use_unicode_strikeout: bool,
}
//@end
//@item src/render/text_renderer.rs :: struct RenderOptions
struct RenderOptions {
    /// The maximum text wrap width.  If set, paragraphs of text will only be wrapped
    /// to that width or less, though the overall width can be larger (e.g. for indented
    /// blocks or side-by-side table cells).
    wrap_width: Option<usize>,

    /// If true, then allow the output to be wider than specified instead of returning
    /// `Err(TooNarrow)`.
    allow_width_overflow: bool,

    /// Whether to always pad lines out to the full width.
    /// This may give a better output when the parent block
    /// has a background colour set.
    pad_block_width: bool,

    /// Raw extraction, ensures text in table cells ends up rendered together
    /// This traverses tables as if they had a single column and every cell is its own row.
    raw: bool,

    /// Whether to draw table borders
    draw_borders: bool,

    /// Whether to wrap links as normal text
    wrap_links: bool,

    /// Whether to include footnotes for hyperlinks
    include_link_footnotes: bool,

    /// Whether to use Unicode combining characters for crossing text out.
    use_unicode_strikeout: bool,
}
//@end
//@item src/lib.rs :: mod config :: struct Config
    struct Config<D: TextDecorator> {
        decorator: D,

        max_wrap_width: Option<usize>,

        style: StyleData,
        #[cfg(feature = "css")]
        use_doc_css: bool,

        pad_block_width: bool,

        allow_width_overflow: bool,
        min_wrap_width: usize,
        raw: bool,
        draw_borders: bool,
        wrap_links: bool,
        include_link_footnotes: bool,
        use_unicode_strikeout: bool,
    }
//@end

// every option field of the builder, as one tuple (frame conditions compare these)
spec fn opts<D: TextDecorator>(c: Config<D>) -> (Option<usize>, bool, bool, bool, usize, bool, bool, bool, bool, bool) {
    (c.max_wrap_width, c.use_doc_css, c.pad_block_width, c.allow_width_overflow, c.min_wrap_width, c.raw, c.draw_borders, c.wrap_links, c.include_link_footnotes, c.use_unicode_strikeout)
}
impl<D: TextDecorator> Config<D> {
//@item src/lib.rs :: mod config :: impl Config :: fn make_context
//@sub /-> HtmlContext/ ==> -> (r: HtmlContext)
//@auto C01 C15
        fn make_context(&self) -> (r: HtmlContext)
            ensures //@w
                // every option is copied to the like-named context field (C15: options do what they say, nothing is lost on the way) //@w
                r.max_wrap_width == self.max_wrap_width, //@w @C15 #ctx_max_wrap_width
                r.pad_block_width == self.pad_block_width && r.allow_width_overflow == self.allow_width_overflow && r.min_wrap_width == self.min_wrap_width, //@w @C15 @C11 #ctx_layout_options
                r.raw == self.raw && r.draw_borders == self.draw_borders && r.wrap_links == self.wrap_links, //@w @C15 #ctx_table_and_link_options
                r.include_link_footnotes == self.include_link_footnotes && r.use_unicode_strikeout == self.use_unicode_strikeout && r.use_doc_css == self.use_doc_css, //@w @C15 @C08 @C18 #ctx_footnote_strikeout_doccss
                r.style_data == self.style, //@w @C15 #ctx_style
        {
            HtmlContext {
                style_data: self.style.clone(),
                #[cfg(feature = "css")]
                use_doc_css: self.use_doc_css,

                max_wrap_width: self.max_wrap_width,
                pad_block_width: self.pad_block_width,
                allow_width_overflow: self.allow_width_overflow,
                min_wrap_width: self.min_wrap_width,
                raw: self.raw,
                draw_borders: self.draw_borders,
                wrap_links: self.wrap_links,
                include_link_footnotes: self.include_link_footnotes,
                use_unicode_strikeout: self.use_unicode_strikeout,
            }
        }
//@end
//@item src/lib.rs :: mod config :: impl Config :: fn use_doc_css
//@sub /-> Self/ ==> -> (r: Self)
//@rule R19
//@auto C01 C15
        fn use_doc_css(self) -> (r: Self)
            ensures //@w
                // exactly the documented field(s) change; every other option, the CSS and the decorator stay as they were (C15) //@w
                r.max_wrap_width == self.max_wrap_width && r.use_doc_css == true && r.pad_block_width == self.pad_block_width && r.allow_width_overflow == self.allow_width_overflow && r.min_wrap_width == self.min_wrap_width && r.raw == self.raw && r.draw_borders == self.draw_borders && r.wrap_links == self.wrap_links && r.include_link_footnotes == self.include_link_footnotes && r.use_unicode_strikeout == self.use_unicode_strikeout, //@w @C15 #builder_use_doc_css_frame
                r.style == self.style && r.decorator == self.decorator, //@w @C15 #builder_use_doc_css_keeps_style
        { let mut this = self;
            this.use_doc_css = true;
            this
        }
//@end
//@item src/lib.rs :: mod config :: impl Config :: fn pad_block_width
//@sub /-> Self/ ==> -> (r: Self)
//@rule R19
//@auto C01 C15
        fn pad_block_width(self) -> (r: Self)
            ensures //@w
                // exactly the documented field(s) change; every other option, the CSS and the decorator stay as they were (C15) //@w
                r.max_wrap_width == self.max_wrap_width && r.use_doc_css == self.use_doc_css && r.pad_block_width == true && r.allow_width_overflow == self.allow_width_overflow && r.min_wrap_width == self.min_wrap_width && r.raw == self.raw && r.draw_borders == self.draw_borders && r.wrap_links == self.wrap_links && r.include_link_footnotes == self.include_link_footnotes && r.use_unicode_strikeout == self.use_unicode_strikeout, //@w @C15 #builder_pad_block_width_frame
                r.style == self.style && r.decorator == self.decorator, //@w @C15 #builder_pad_block_width_keeps_style
        { let mut this = self;
            this.pad_block_width = true;
            this
        }
//@end
//@item src/lib.rs :: mod config :: impl Config :: fn max_wrap_width
//@sub /-> Self/ ==> -> (r: Self)
//@rule R19
//@auto C01 C15
        fn max_wrap_width(self, wrap_width: usize) -> (r: Self)
            ensures //@w
                // exactly the documented field(s) change; every other option, the CSS and the decorator stay as they were (C15) //@w
                r.max_wrap_width == Some(wrap_width) && r.use_doc_css == self.use_doc_css && r.pad_block_width == self.pad_block_width && r.allow_width_overflow == self.allow_width_overflow && r.min_wrap_width == self.min_wrap_width && r.raw == self.raw && r.draw_borders == self.draw_borders && r.wrap_links == self.wrap_links && r.include_link_footnotes == self.include_link_footnotes && r.use_unicode_strikeout == self.use_unicode_strikeout, //@w @C15 #builder_max_wrap_width_frame
                r.style == self.style && r.decorator == self.decorator, //@w @C15 #builder_max_wrap_width_keeps_style
        { let mut this = self;
            this.max_wrap_width = Some(wrap_width);
            this
        }
//@end
//@item src/lib.rs :: mod config :: impl Config :: fn allow_width_overflow
//@sub /-> Self/ ==> -> (r: Self)
//@rule R19
//@auto C01 C15
        fn allow_width_overflow(self) -> (r: Self)
            ensures //@w
                // exactly the documented field(s) change; every other option, the CSS and the decorator stay as they were (C15) //@w
                r.max_wrap_width == self.max_wrap_width && r.use_doc_css == self.use_doc_css && r.pad_block_width == self.pad_block_width && r.allow_width_overflow == true && r.min_wrap_width == self.min_wrap_width && r.raw == self.raw && r.draw_borders == self.draw_borders && r.wrap_links == self.wrap_links && r.include_link_footnotes == self.include_link_footnotes && r.use_unicode_strikeout == self.use_unicode_strikeout, //@w @C15 #builder_allow_width_overflow_frame
                r.style == self.style && r.decorator == self.decorator, //@w @C15 #builder_allow_width_overflow_keeps_style
        { let mut this = self;
            this.allow_width_overflow = true;
            this
        }
//@end
//@item src/lib.rs :: mod config :: impl Config :: fn min_wrap_width
//@sub /-> Self/ ==> -> (r: Self)
//@rule R19
//@auto C01 C15
        fn min_wrap_width(self, min_wrap_width: usize) -> (r: Self)
            ensures //@w
                // exactly the documented field(s) change; every other option, the CSS and the decorator stay as they were (C15) //@w
                r.max_wrap_width == self.max_wrap_width && r.use_doc_css == self.use_doc_css && r.pad_block_width == self.pad_block_width && r.allow_width_overflow == self.allow_width_overflow && r.min_wrap_width == min_wrap_width && r.raw == self.raw && r.draw_borders == self.draw_borders && r.wrap_links == self.wrap_links && r.include_link_footnotes == self.include_link_footnotes && r.use_unicode_strikeout == self.use_unicode_strikeout, //@w @C15 #builder_min_wrap_width_frame
                r.style == self.style && r.decorator == self.decorator, //@w @C15 #builder_min_wrap_width_keeps_style
        { let mut this = self;
            this.min_wrap_width = min_wrap_width;
            this
        }
//@end
//@item src/lib.rs :: mod config :: impl Config :: fn raw_mode
//@sub /-> Self/ ==> -> (r: Self)
//@rule R19
//@auto C01 C15
        fn raw_mode(self, raw: bool) -> (r: Self)
            ensures //@w
                // exactly the documented field(s) change; every other option, the CSS and the decorator stay as they were (C15) //@w
                r.max_wrap_width == self.max_wrap_width && r.use_doc_css == self.use_doc_css && r.pad_block_width == self.pad_block_width && r.allow_width_overflow == self.allow_width_overflow && r.min_wrap_width == self.min_wrap_width && r.raw == raw && r.draw_borders == false && r.wrap_links == self.wrap_links && r.include_link_footnotes == self.include_link_footnotes && r.use_unicode_strikeout == self.use_unicode_strikeout, //@w @C15 #builder_raw_mode_frame
                r.style == self.style && r.decorator == self.decorator, //@w @C15 #builder_raw_mode_keeps_style
        { let mut this = self;
            this.raw = raw;
            this.draw_borders = false;
            this
        }
//@end
//@item src/lib.rs :: mod config :: impl Config :: fn no_table_borders
//@sub /-> Self/ ==> -> (r: Self)
//@rule R19
//@auto C01 C15
        fn no_table_borders(self) -> (r: Self)
            ensures //@w
                // exactly the documented field(s) change; every other option, the CSS and the decorator stay as they were (C15) //@w
                r.max_wrap_width == self.max_wrap_width && r.use_doc_css == self.use_doc_css && r.pad_block_width == self.pad_block_width && r.allow_width_overflow == self.allow_width_overflow && r.min_wrap_width == self.min_wrap_width && r.raw == self.raw && r.draw_borders == false && r.wrap_links == self.wrap_links && r.include_link_footnotes == self.include_link_footnotes && r.use_unicode_strikeout == self.use_unicode_strikeout, //@w @C15 #builder_no_table_borders_frame
                r.style == self.style && r.decorator == self.decorator, //@w @C15 #builder_no_table_borders_keeps_style
        { let mut this = self;
            this.draw_borders = false;
            this
        }
//@end
//@item src/lib.rs :: mod config :: impl Config :: fn no_link_wrapping
//@sub /-> Self/ ==> -> (r: Self)
//@rule R19
//@auto C01 C15
        fn no_link_wrapping(self) -> (r: Self)
            ensures //@w
                // exactly the documented field(s) change; every other option, the CSS and the decorator stay as they were (C15) //@w
                r.max_wrap_width == self.max_wrap_width && r.use_doc_css == self.use_doc_css && r.pad_block_width == self.pad_block_width && r.allow_width_overflow == self.allow_width_overflow && r.min_wrap_width == self.min_wrap_width && r.raw == self.raw && r.draw_borders == self.draw_borders && r.wrap_links == false && r.include_link_footnotes == self.include_link_footnotes && r.use_unicode_strikeout == self.use_unicode_strikeout, //@w @C15 #builder_no_link_wrapping_frame
                r.style == self.style && r.decorator == self.decorator, //@w @C15 #builder_no_link_wrapping_keeps_style
        { let mut this = self;
            this.wrap_links = false;
            this
        }
//@end
//@item src/lib.rs :: mod config :: impl Config :: fn unicode_strikeout
//@sub /-> Self/ ==> -> (r: Self)
//@rule R19
//@auto C01 C15
        fn unicode_strikeout(self, use_unicode: bool) -> (r: Self)
            ensures //@w
                // exactly the documented field(s) change; every other option, the CSS and the decorator stay as they were (C15) //@w
                r.max_wrap_width == self.max_wrap_width && r.use_doc_css == self.use_doc_css && r.pad_block_width == self.pad_block_width && r.allow_width_overflow == self.allow_width_overflow && r.min_wrap_width == self.min_wrap_width && r.raw == self.raw && r.draw_borders == self.draw_borders && r.wrap_links == self.wrap_links && r.include_link_footnotes == self.include_link_footnotes && r.use_unicode_strikeout == use_unicode, //@w @C15 #builder_unicode_strikeout_frame
                r.style == self.style && r.decorator == self.decorator, //@w @C15 #builder_unicode_strikeout_keeps_style
        { let mut this = self;
            this.use_unicode_strikeout = use_unicode;
            this
        }
//@end
//@item src/lib.rs :: mod config :: impl Config :: fn link_footnotes
//@sub /-> Self/ ==> -> (r: Self)
//@rule R19
//@auto C01 C15
        fn link_footnotes(self, include_footnotes: bool) -> (r: Self)
            ensures //@w
                // exactly the documented field(s) change; every other option, the CSS and the decorator stay as they were (C15) //@w
                r.max_wrap_width == self.max_wrap_width && r.use_doc_css == self.use_doc_css && r.pad_block_width == self.pad_block_width && r.allow_width_overflow == self.allow_width_overflow && r.min_wrap_width == self.min_wrap_width && r.raw == self.raw && r.draw_borders == self.draw_borders && r.wrap_links == self.wrap_links && r.include_link_footnotes == include_footnotes && r.use_unicode_strikeout == self.use_unicode_strikeout, //@w @C15 #builder_link_footnotes_frame
                r.style == self.style && r.decorator == self.decorator, //@w @C15 #builder_link_footnotes_keeps_style
        { let mut this = self;
            this.include_link_footnotes = include_footnotes;
            this
        }
//@end
}

//@slice src/lib.rs :: impl RenderTree :: fn render_with_context :: /if width == 0 \{/ .. /let test_decorator = decorator\.make_subblock_decorator\(\);/
//@name options_slice
//@auto C01 C15 C11
//@sub /return Err\(Error::TooNarrow\);/ ==> return Err(TooNarrowErr);
fn options_slice(context: &HtmlContext, width: usize) -> (r: Result<RenderOptions, TooNarrowErr>) //@w
    ensures //@w
        // width 0 is rejected before anything is rendered (C11) //@w
        width == 0 <==> r.is_err(), //@w @C11 #width_zero_is_too_narrow
        // every context field reaches the like-named render option (C15) //@w
        r matches Ok(o) ==> o.wrap_width == context.max_wrap_width, //@w @C15 @C04 #opt_wrap_width
        r matches Ok(o) ==> o.pad_block_width == context.pad_block_width && o.allow_width_overflow == context.allow_width_overflow, //@w @C15 @C11 #opt_pad_overflow
        r matches Ok(o) ==> o.raw == context.raw && o.draw_borders == context.draw_borders && o.wrap_links == context.wrap_links, //@w @C15 #opt_tables_links
        r matches Ok(o) ==> o.include_link_footnotes == context.include_link_footnotes && o.use_unicode_strikeout == context.use_unicode_strikeout, //@w @C15 @C08 #opt_footnotes_strikeout
{ //@w
        if width == 0 {
            return Err(TooNarrowErr);
        }
        let render_options = RenderOptions {
            wrap_width: context.max_wrap_width,
            pad_block_width: context.pad_block_width,
            allow_width_overflow: context.allow_width_overflow,
            raw: context.raw,
            draw_borders: context.draw_borders,
            wrap_links: context.wrap_links,
            include_link_footnotes: context.include_link_footnotes,
            use_unicode_strikeout: context.use_unicode_strikeout,
        };
    Ok(render_options) //@w
} //@w
//@end

} // verus!
fn main() {}
