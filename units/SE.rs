//@unit SE — size estimation: RenderNode::calc_size_estimate and SizeEstimate::{add, add_hor} (src/lib.rs:347-366, 675-793)
// What the renderer relies on (boundary assumptions A6 of unit RN, discharged here): the estimate of a prefixed block stores the display
// width of the decorator's prefix in prefix_size, its min_width includes that prefix, a link reserves at least 5 columns.
// R10: ComputedStyle opaque; Cell<Option<SizeEstimate>> -> CellOpt with a trusted cache-coherence contract (A12).
use vstd::prelude::*;
macro_rules! html_trace { ($($t:tt)*) => {} }
verus! {
global size_of usize == 8;
struct ComputedStyle { x: u8 }
// display width of strings (A2)
uninterp spec fn cw(c: char) -> Option<usize>;
spec fn sw(s: Seq<char>) -> nat decreases s.len() { if s.len() == 0 { 0 } else { sw(s.drop_last()) + (match cw(s.last()) { Some(w) => w as nat, None => 0 }) } }
struct UnicodeWidthStr;
impl UnicodeWidthStr { #[verifier::external_body] fn width(s: &str) -> (r: usize) ensures r == sw(s@) { unimplemented!() } }
// A5: a decorator prefix is narrower than 2^20 columns
spec fn PW() -> nat { 0x10_0000 }
// the part of HtmlContext that size estimation reads (R10: the other fields are dropped)
struct HtmlContext { min_wrap_width: usize }
// the decorator methods used here; their results are functions of the decorator (A6: deterministic decorators)
trait TextDecorator: Sized {
    spec fn quote_prefix_spec(&self) -> Seq<char>;
    spec fn ul_prefix_spec(&self) -> Seq<char>;
    spec fn header_prefix_spec(&self, level: usize) -> Seq<char>;
    fn quote_prefix(&self) -> (r: String) ensures r@ == self.quote_prefix_spec(), sw(r@) <= PW();
    fn unordered_item_prefix(&self) -> (r: String) ensures r@ == self.ul_prefix_spec(), sw(r@) <= PW();
    fn header_prefix(&self, level: usize) -> (r: String) ensures r@ == self.header_prefix_spec(level), sw(r@) <= PW();
}
// contract proved in unit RN (calc_ol_prefix_size#estimate_uses_same_marker_width); A5 bound added
uninterp spec fn ol_width(start: i64, n: usize) -> nat;
#[verifier::external_body]
fn calc_ol_prefix_size<D: TextDecorator>(start: i64, num_items: usize, decorator: &D) -> (r: usize) ensures r == ol_width(start, num_items), r <= PW() { unimplemented!() }
// A12: the estimate cache of a node only ever holds the value this function computes for it (same context, same decorator):
// a hit returns that value.  `set` stores it; the spec-level value of the cell is not tracked further.
struct CellOpt { x: u8 }
uninterp spec fn cached(c: CellOpt) -> Option<SizeEstimate>;
impl CellOpt {
    #[verifier::external_body] fn get(&self) -> (r: Option<SizeEstimate>) ensures r == cached(*self) { unimplemented!() }
    #[verifier::external_body] fn set(&self, v: Option<SizeEstimate>) { unimplemented!() }
}
// R7: `for c in t.trim().chars()`, `c.is_whitespace()`, `t.chars().next().map(|c| c.is_whitespace())`, UnicodeWidthChar::width
#[verifier::external_body] fn str_trim(t: &String) -> (r: &str) ensures r@.len() <= t@.len() { unimplemented!() }
#[verifier::external_body] fn char_is_ws(c: char) -> (r: bool) { unimplemented!() }
#[verifier::external_body] fn starts_with_ws(t: &String) -> (r: bool) { unimplemented!() }
struct UnicodeWidthChar;
impl UnicodeWidthChar { #[verifier::external_body] fn width(c: char) -> (r: Option<usize>) ensures r == cw(c), r matches Some(w) ==> w <= 2 { unimplemented!() } }

//@item src/lib.rs :: struct SizeEstimate
#[derive(Copy, Clone)] //@w
struct SizeEstimate {
    size: usize,      // Rough overall size
    min_width: usize, // The narrowest possible

    // The use is specific to the node type.
    prefix_size: usize,
}
//@end
// R13: `Default::default()` of the derived Default (all fields zero) -> se_zero()
fn se_zero() -> (r: SizeEstimate) ensures r.size == 0 && r.min_width == 0 && r.prefix_size == 0 { SizeEstimate { size: 0, min_width: 0, prefix_size: 0 } }
//@item src/lib.rs :: struct RenderTableCell
//@sub /size_estimate: Cell<Option<SizeEstimate>>/ ==> size_estimate: CellOpt
struct RenderTableCell {
    colspan: usize,
    content: Vec<RenderNode>,
    size_estimate: CellOpt,
    col_width: Option<usize>, // Actual width to use
    style: ComputedStyle,
}
//@end
//@item src/lib.rs :: struct RenderTableRow
struct RenderTableRow {
    cells: Vec<RenderTableCell>,
    col_sizes: Option<Vec<usize>>,
    style: ComputedStyle,
}
//@end
//@item src/lib.rs :: struct RenderTable
//@sub /size_estimate: Cell<Option<SizeEstimate>>/ ==> size_estimate: CellOpt
struct RenderTable {
    rows: Vec<RenderTableRow>,
    num_columns: usize,
    size_estimate: CellOpt,
}
//@end
//@item src/lib.rs :: enum RenderNodeInfo
enum RenderNodeInfo {
    /// Some text.
    Text(String),
    /// A group of nodes collected together.
    Container(Vec<RenderNode>),
    /// A link with contained nodes
    Link(String, Vec<RenderNode>),
    /// An emphasised region
    Em(Vec<RenderNode>),
    /// A strong region
    Strong(Vec<RenderNode>),
    /// A struck out region
    Strikeout(Vec<RenderNode>),
    /// A code region
    Code(Vec<RenderNode>),
    /// An image (src, title)
    Img(String, String),
    /// A block element with children
    Block(Vec<RenderNode>),
    /// A header (h1, h2, ...) with children
    Header(usize, Vec<RenderNode>),
    /// A Div element with children
    Div(Vec<RenderNode>),
    /// A blockquote
    BlockQuote(Vec<RenderNode>),
    /// An unordered list
    Ul(Vec<RenderNode>),
    /// An ordered list
    Ol(i64, Vec<RenderNode>),
    /// A description list (containing Dt or Dd)
    Dl(Vec<RenderNode>),
    /// A term (from a `<dt>`)
    Dt(Vec<RenderNode>),
    /// A definition (from a `<dl>`)
    Dd(Vec<RenderNode>),
    /// A line break
    Break,
    /// A table
    Table(RenderTable),
    /// A set of table rows (from either `<thead>` or `<tbody>`
    TableBody(Vec<RenderTableRow>),
    /// Table row (must only appear within a table body)
    /// If the boolean is true, then the cells are drawn vertically
    /// instead of horizontally (because of space).
    TableRow(RenderTableRow, bool),
    /// Table cell (must only appear within a table row)
    TableCell(RenderTableCell),
    /// Start of a named HTML fragment
    FragStart(String),
    /// A list item
    ListItem(Vec<RenderNode>),
    /// Superscript text
    Sup(Vec<RenderNode>),
}
//@end
//@item src/lib.rs :: struct RenderNode
//@sub /size_estimate: Cell<Option<SizeEstimate>>/ ==> size_estimate: CellOpt
struct RenderNode {
    size_estimate: CellOpt,
    info: RenderNodeInfo,
    style: ComputedStyle,
}
//@end

// ---- A5 bookkeeping: an upper bound of every number an estimate can hold, as a function of the tree ----
spec fn wt_seq(v: Seq<RenderNode>, k: int) -> nat decreases v, k { if k <= 0 || k > v.len() { 0 } else { wt_seq(v, k - 1) + wt(v[k - 1]) } }
spec fn wt(n: RenderNode) -> nat decreases n {
    match n.info {
        RenderNodeInfo::Text(t) => 3 * t@.len() + 4, RenderNodeInfo::Img(_, t) => 3 * t@.len() + 4,
        RenderNodeInfo::Container(v) => wt_seq(v@, v@.len() as int), RenderNodeInfo::Em(v) => wt_seq(v@, v@.len() as int), RenderNodeInfo::Strong(v) => wt_seq(v@, v@.len() as int),
        RenderNodeInfo::Strikeout(v) => wt_seq(v@, v@.len() as int), RenderNodeInfo::Code(v) => wt_seq(v@, v@.len() as int), RenderNodeInfo::Block(v) => wt_seq(v@, v@.len() as int),
        RenderNodeInfo::Div(v) => wt_seq(v@, v@.len() as int), RenderNodeInfo::Dl(v) => wt_seq(v@, v@.len() as int), RenderNodeInfo::Dt(v) => wt_seq(v@, v@.len() as int),
        RenderNodeInfo::ListItem(v) => wt_seq(v@, v@.len() as int), RenderNodeInfo::Sup(v) => wt_seq(v@, v@.len() as int),
        RenderNodeInfo::Link(_, v) => wt_seq(v@, v@.len() as int) + 5,
        RenderNodeInfo::Dd(v) => wt_seq(v@, v@.len() as int) + PW(), RenderNodeInfo::BlockQuote(v) => wt_seq(v@, v@.len() as int) + PW(), RenderNodeInfo::Ul(v) => wt_seq(v@, v@.len() as int) + PW(),
        RenderNodeInfo::Ol(_, v) => wt_seq(v@, v@.len() as int) + PW(), RenderNodeInfo::Header(_, v) => wt_seq(v@, v@.len() as int) + PW(),
        RenderNodeInfo::Break => 1, RenderNodeInfo::FragStart(_) => 0,
        RenderNodeInfo::Table(_) => 0x2000_0000_0000, RenderNodeInfo::TableBody(_) => 0, RenderNodeInfo::TableRow(_, _) => 0, RenderNodeInfo::TableCell(_) => 0,
    }
}

// A2: no character is wider than two columns
#[verifier::external_body] proof fn axiom_cw_le2(c: char) ensures cw(c) matches Some(w) ==> w <= 2 {}
proof fn lemma_sw_le(s: Seq<char>) ensures sw(s) <= 2 * s.len() decreases s.len() { if s.len() > 0 { axiom_cw_le2(s.last()); lemma_sw_le(s.drop_last()); } }
// R13: `"  ".into()` (str -> String)
#[verifier::external_body] fn str_into_string(x: &str) -> (r: String) ensures r@ == x@ { unimplemented!() }

// C11: the minimum width a node may reserve — "the deepest stack of block prefixes plus the small minimum content width the layout
// reserves (the configured minimum wrap width, or a few columns for a link)": text at most min_wrap_width, a link at most
// max(its content, 5), containers the widest of their children, prefixed blocks their prefix plus the widest child; tables: no claim
spec fn maxi2(a: int, b: int) -> int { if a >= b { a } else { b } }
spec fn mwb_seq<D: TextDecorator>(v: Seq<RenderNode>, k: int, mww: int, d: D) -> int decreases v, k {
    if k <= 0 || k > v.len() { 0 } else { maxi2(mwb_seq(v, k - 1, mww, d), mwb(v[k - 1], mww, d)) }
}
spec fn mwb<D: TextDecorator>(n: RenderNode, mww: int, d: D) -> int decreases n {
    match n.info {
        RenderNodeInfo::Text(_) => mww, RenderNodeInfo::Img(_, _) => mww, RenderNodeInfo::Break => 1, RenderNodeInfo::FragStart(_) => 0,
        RenderNodeInfo::Container(v) => mwb_seq(v@, v@.len() as int, mww, d), RenderNodeInfo::Em(v) => mwb_seq(v@, v@.len() as int, mww, d), RenderNodeInfo::Strong(v) => mwb_seq(v@, v@.len() as int, mww, d),
        RenderNodeInfo::Strikeout(v) => mwb_seq(v@, v@.len() as int, mww, d), RenderNodeInfo::Code(v) => mwb_seq(v@, v@.len() as int, mww, d), RenderNodeInfo::Block(v) => mwb_seq(v@, v@.len() as int, mww, d),
        RenderNodeInfo::Div(v) => mwb_seq(v@, v@.len() as int, mww, d), RenderNodeInfo::Dl(v) => mwb_seq(v@, v@.len() as int, mww, d), RenderNodeInfo::Dt(v) => mwb_seq(v@, v@.len() as int, mww, d),
        RenderNodeInfo::ListItem(v) => mwb_seq(v@, v@.len() as int, mww, d), RenderNodeInfo::Sup(v) => mwb_seq(v@, v@.len() as int, mww, d),
        RenderNodeInfo::Link(_, v) => maxi2(mwb_seq(v@, v@.len() as int, mww, d), 5),
        RenderNodeInfo::BlockQuote(v) => sw(d.quote_prefix_spec()) + mwb_seq(v@, v@.len() as int, mww, d),
        RenderNodeInfo::Ul(v) => sw(d.ul_prefix_spec()) + mwb_seq(v@, v@.len() as int, mww, d),
        RenderNodeInfo::Dd(v) => sw("  "@) + mwb_seq(v@, v@.len() as int, mww, d),
        RenderNodeInfo::Header(level, v) => sw(d.header_prefix_spec(level)) + mwb_seq(v@, v@.len() as int, mww, d),
        RenderNodeInfo::Ol(i, v) => ol_width(i, v@.len() as usize) + mwb_seq(v@, v@.len() as int, mww, d),
        RenderNodeInfo::Table(_) => wt(n) as int,
        _ => 0,
    }
}
proof fn lemma_mwb_seq_mono<D: TextDecorator>(v: Seq<RenderNode>, a: int, b: int, mww: int, d: D) requires 0 <= a <= b <= v.len() ensures mwb_seq(v, a, mww, d) <= mwb_seq(v, b, mww, d) decreases b - a { if a < b { lemma_mwb_seq_mono(v, a, b - 1, mww, d); } }
// what the renderer relies on (C02, C07, C11, C16): prefixed blocks record the display width of the decorator's prefix and reserve it,
// a link reserves at least 5 columns, everything else has no prefix; A5 bookkeeping: numbers stay below wt(n)
spec fn good<D: TextDecorator>(r: SizeEstimate, n: RenderNode, d: D, mww: usize) -> bool { good_base(r, n, d) && r.min_width <= mwb(n, mww as int, d) }
spec fn good_base<D: TextDecorator>(r: SizeEstimate, n: RenderNode, d: D) -> bool {
    &&& r.size <= wt(n) && r.min_width <= wt(n)
    &&& r.min_width >= r.prefix_size
    &&& match n.info {
            RenderNodeInfo::BlockQuote(_) => r.prefix_size == sw(d.quote_prefix_spec()),
            RenderNodeInfo::Ul(_) => r.prefix_size == sw(d.ul_prefix_spec()),
            RenderNodeInfo::Dd(_) => r.prefix_size == sw("  "@),
            RenderNodeInfo::Header(level, _) => r.prefix_size == sw(d.header_prefix_spec(level)),
            RenderNodeInfo::Ol(i, v) => r.prefix_size == ol_width(i, v@.len() as usize),
            RenderNodeInfo::Link(_, _) => r.prefix_size == 0 && r.min_width >= 5,
            RenderNodeInfo::Table(_) => true,
            _ => r.prefix_size == 0,
        }
}
// A12 (cache coherence), for a node and everything below it
spec fn coherent_seq<D: TextDecorator>(v: Seq<RenderNode>, k: int, d: D, mww: usize) -> bool decreases v, k { k <= 0 || k > v.len() || (coherent_seq(v, k - 1, d, mww) && coherent(v[k - 1], d, mww)) }
spec fn kids_of(i: RenderNodeInfo) -> Seq<RenderNode> {
    match i {
        RenderNodeInfo::Container(v) => v@, RenderNodeInfo::Em(v) => v@, RenderNodeInfo::Strong(v) => v@, RenderNodeInfo::Strikeout(v) => v@, RenderNodeInfo::Code(v) => v@,
        RenderNodeInfo::Block(v) => v@, RenderNodeInfo::Div(v) => v@, RenderNodeInfo::Dl(v) => v@, RenderNodeInfo::Dt(v) => v@, RenderNodeInfo::ListItem(v) => v@, RenderNodeInfo::Sup(v) => v@,
        RenderNodeInfo::Link(_, v) => v@, RenderNodeInfo::Dd(v) => v@, RenderNodeInfo::BlockQuote(v) => v@, RenderNodeInfo::Ul(v) => v@, RenderNodeInfo::Ol(_, v) => v@, RenderNodeInfo::Header(_, v) => v@,
        _ => Seq::empty(),
    }
}
spec fn coherent<D: TextDecorator>(n: RenderNode, d: D, mww: usize) -> bool decreases n {
    (cached(n.size_estimate) matches Some(s) ==> good(s, n, d, mww))
    && match n.info {
        RenderNodeInfo::Container(v) => coherent_seq(v@, v@.len() as int, d, mww), RenderNodeInfo::Em(v) => coherent_seq(v@, v@.len() as int, d, mww), RenderNodeInfo::Strong(v) => coherent_seq(v@, v@.len() as int, d, mww),
        RenderNodeInfo::Strikeout(v) => coherent_seq(v@, v@.len() as int, d, mww), RenderNodeInfo::Code(v) => coherent_seq(v@, v@.len() as int, d, mww), RenderNodeInfo::Block(v) => coherent_seq(v@, v@.len() as int, d, mww),
        RenderNodeInfo::Div(v) => coherent_seq(v@, v@.len() as int, d, mww), RenderNodeInfo::Dl(v) => coherent_seq(v@, v@.len() as int, d, mww), RenderNodeInfo::Dt(v) => coherent_seq(v@, v@.len() as int, d, mww),
        RenderNodeInfo::ListItem(v) => coherent_seq(v@, v@.len() as int, d, mww), RenderNodeInfo::Sup(v) => coherent_seq(v@, v@.len() as int, d, mww), RenderNodeInfo::Link(_, v) => coherent_seq(v@, v@.len() as int, d, mww),
        RenderNodeInfo::Dd(v) => coherent_seq(v@, v@.len() as int, d, mww), RenderNodeInfo::BlockQuote(v) => coherent_seq(v@, v@.len() as int, d, mww), RenderNodeInfo::Ul(v) => coherent_seq(v@, v@.len() as int, d, mww),
        RenderNodeInfo::Ol(_, v) => coherent_seq(v@, v@.len() as int, d, mww), RenderNodeInfo::Header(_, v) => coherent_seq(v@, v@.len() as int, d, mww),
        _ => true,
    }
}
proof fn lemma_wt_seq_mono(v: Seq<RenderNode>, a: int, b: int) requires 0 <= a <= b <= v.len() ensures wt_seq(v, a) <= wt_seq(v, b) decreases b - a { if a < b { lemma_wt_seq_mono(v, a, b - 1); } }
proof fn lemma_coh_seq<D: TextDecorator>(v: Seq<RenderNode>, k: int, j: int, d: D, mww: usize) requires 0 <= j < k <= v.len(), coherent_seq(v, k, d, mww) ensures coherent(v[j], d, mww) decreases k { if j < k - 1 { lemma_coh_seq(v, k - 1, j, d, mww); } }

impl SizeEstimate {
//@item src/lib.rs :: impl SizeEstimate :: fn add
//@sub /-> SizeEstimate/ ==> -> (r: SizeEstimate)
//@auto C01 C02
//@sub /max\(self\.min_width, other\.min_width\)/ ==> self.min_width.max(other.min_width)
    fn add(self, other: SizeEstimate) -> (r: SizeEstimate)
        requires self.size + other.size <= usize::MAX, //@w
        ensures r.size == self.size + other.size, r.min_width == (if self.min_width >= other.min_width { self.min_width } else { other.min_width }), r.prefix_size == 0, //@w @C02 #add_is_sum_and_max
    {
        let min_width = self.min_width.max(other.min_width);
        SizeEstimate {
            size: self.size + other.size,
            min_width,
            prefix_size: 0,
        }
    }
//@end
//@item src/lib.rs :: impl SizeEstimate :: fn add_hor
//@sub /-> SizeEstimate/ ==> -> (r: SizeEstimate)
//@auto C01 C02
    fn add_hor(self, other: SizeEstimate) -> (r: SizeEstimate)
        requires self.size + other.size <= usize::MAX, self.min_width + other.min_width <= usize::MAX, //@w
        ensures r.size == self.size + other.size, r.min_width == self.min_width + other.min_width, r.prefix_size == 0, //@w @C02 @C11 #add_hor_reserves_both
    {
        SizeEstimate {
            size: self.size + other.size,
            min_width: self.min_width + other.min_width,
            prefix_size: 0,
        }
    }
//@end
}
// ---- table estimate: boundary conditions established by RenderTable::new (column remapping) and by the bottom-up pre-pass ----
spec fn colsum(cells: Seq<RenderTableCell>, k: int) -> nat decreases k { if k <= 0 { 0 } else { colsum(cells, k - 1) + cells[k - 1].colspan as nat } }
proof fn lemma_colsum_mono(cells: Seq<RenderTableCell>, a: int, b: int) requires 0 <= a <= b ensures colsum(cells, a) <= colsum(cells, b) decreases b - a { if a < b { lemma_colsum_mono(cells, a, b - 1); } }
spec fn table_ok(t: RenderTable) -> bool {
    &&& t.num_columns <= 0x1000 && t.rows@.len() <= 0x1000            // A5
    &&& forall|i: int| 0 <= i < t.rows@.len() ==> colsum((#[trigger] t.rows@[i]).cells@, t.rows@[i].cells@.len() as int) <= t.num_columns     // spans stay inside the columns (RenderTable::new)
    &&& forall|i: int, j: int| 0 <= i < t.rows@.len() && 0 <= j < t.rows@[i].cells@.len() ==> (#[trigger] t.rows@[i].cells@[j]).colspan >= 1     // no zero colspan (fix b7a36fb; proved for RenderTable::new in unit TN)
    &&& forall|i: int, j: int| 0 <= i < t.rows@.len() && 0 <= j < t.rows@[i].cells@.len() ==> cell_ready(#[trigger] t.rows@[i].cells@[j])         // the pre-pass has estimated the cell contents
}
// a cell can be estimated: its own cache is filled with a small value, or every content node has been estimated and the sum is small (A5, A6)
spec fn sum_cached(v: Seq<RenderNode>, k: int) -> int decreases k { if k <= 0 { 0 } else { sum_cached(v, k - 1) + (match cached(v[k - 1].size_estimate) { Some(e) => e.size as int, None => 0 }) } }
spec fn max_cached(v: Seq<RenderNode>, k: int) -> int decreases k { if k <= 0 { 0 } else { let p = max_cached(v, k - 1); let e = (match cached(v[k - 1].size_estimate) { Some(e) => e.min_width as int, None => 0 }); if p >= e { p } else { e } } }
proof fn lemma_sum_cached_mono(v: Seq<RenderNode>, a: int, b: int) requires 0 <= a <= b ensures 0 <= sum_cached(v, a) <= sum_cached(v, b), 0 <= max_cached(v, a) <= max_cached(v, b) decreases b - a { if a < b { lemma_sum_cached_mono(v, a, b - 1); } else { lemma_sum_cached_nonneg(v, a); } }
proof fn lemma_sum_cached_nonneg(v: Seq<RenderNode>, k: int) ensures 0 <= sum_cached(v, k), 0 <= max_cached(v, k) decreases k { if k > 0 { lemma_sum_cached_nonneg(v, k - 1); } }
spec fn cell_ready(c: RenderTableCell) -> bool {
    match cached(c.size_estimate) {
        Some(e) => e.size <= 0x10_0000 && e.min_width <= 0x10_0000,
        None => (forall|j: int| 0 <= j < c.content@.len() ==> cached((#[trigger] c.content@[j]).size_estimate) is Some) && sum_cached(c.content@, c.content@.len() as int) <= 0x10_0000 && max_cached(c.content@, c.content@.len() as int) <= 0x10_0000,
    }
}
// R7: `.iter().map(|node| node.get_size_estimate()).fold(Default::default(), SizeEstimate::add)` as the left fold it is (our code, verified)
fn fold_cached(v: &Vec<RenderNode>) -> (r: SizeEstimate)
    requires forall|j: int| 0 <= j < v@.len() ==> cached((#[trigger] v@[j]).size_estimate) is Some, sum_cached(v@, v@.len() as int) <= 0x10_0000,
    ensures r.size == sum_cached(v@, v@.len() as int), r.min_width == max_cached(v@, v@.len() as int), r.prefix_size == 0,
{
    let mut acc = se_zero();
    for k in 0..v.len()
        invariant acc.size == sum_cached(v@, k as int), acc.min_width == max_cached(v@, k as int), acc.prefix_size == 0, sum_cached(v@, v@.len() as int) <= 0x10_0000,
            forall|j: int| 0 <= j < v@.len() ==> cached((#[trigger] v@[j]).size_estimate) is Some,
    {
        proof { lemma_sum_cached_mono(v@, k as int + 1, v@.len() as int); }
        let e = v[k].get_size_estimate();
        acc = acc.add(e);
    }
    acc
}
impl RenderNode {
//@item src/lib.rs :: impl RenderNode :: fn get_size_estimate
//@auto C01 C02
//@sub /-> SizeEstimate/ ==> -> (r: SizeEstimate)
    fn get_size_estimate(&self) -> (r: SizeEstimate)
        requires cached(self.size_estimate) is Some,     // boundary (A6): the bottom-up pre-pass (precalc_size_estimate) has estimated every node before its table //@w
        ensures Some(r) == cached(self.size_estimate), //@w @C02 #cached_estimate_returned
    {
        self.size_estimate.get().unwrap()
    }
//@end
}
impl RenderTableCell {
//@item src/lib.rs :: impl RenderTableCell :: fn get_size_estimate
//@auto C01 C02
//@sub /-> SizeEstimate/ ==> -> (r: SizeEstimate)
//@sub /self\s*\.content\s*\.iter\(\)\s*\.map\(\|node\| node\.get_size_estimate\(\)\)\s*\.fold\(Default::default\(\), SizeEstimate::add\)/ ==> fold_cached(&self.content)
    fn get_size_estimate(&self) -> (r: SizeEstimate)
        requires cell_ready(*self), //@w
        ensures r.size <= 0x10_0000, r.min_width <= 0x10_0000, //@w @C01 #cell_estimate_bounded
    {
        let Some(size) = self.size_estimate.get() else {
            let size = fold_cached(&self.content);
            self.size_estimate.set(Some(size));
            return size;
        };
        size
    }
//@end
}
// R7: vec![Default::default(); n], .iter().map(|s| s.size).sum(), .iter().map(|s| s.min_width).sum::<usize>() as proved accumulators
fn vec_zero_estimates(n: usize) -> (r: Vec<SizeEstimate>)
    ensures r@.len() == n, forall|i: int| 0 <= i < n ==> (#[trigger] r@[i]).size == 0 && r@[i].min_width == 0 && r@[i].prefix_size == 0,
{
    let mut v: Vec<SizeEstimate> = Vec::new();
    for k in 0..n invariant v@.len() == k, forall|i: int| 0 <= i < k ==> (#[trigger] v@[i]).size == 0 && v@[i].min_width == 0 && v@[i].prefix_size == 0, { v.push(se_zero()); }
    v
}
fn sum_size(v: &Vec<SizeEstimate>) -> (r: usize)
    requires v@.len() <= 0x1000, forall|i: int| 0 <= i < v@.len() ==> (#[trigger] v@[i]).size <= 0x1_0000_0000,
    ensures r <= v@.len() * 0x1_0000_0000,
{
    let mut acc: usize = 0;
    for k in 0..v.len() invariant acc <= k * 0x1_0000_0000, v@.len() <= 0x1000, forall|i: int| 0 <= i < v@.len() ==> (#[trigger] v@[i]).size <= 0x1_0000_0000, { acc += v[k].size; }
    acc
}
fn sum_min(v: &Vec<SizeEstimate>) -> (r: usize)
    requires v@.len() <= 0x1000, forall|i: int| 0 <= i < v@.len() ==> (#[trigger] v@[i]).min_width <= 0x10_0000,
    ensures r <= v@.len() * 0x10_0000,
{
    let mut acc: usize = 0;
    for k in 0..v.len() invariant acc <= k * 0x10_0000, v@.len() <= 0x1000, forall|i: int| 0 <= i < v@.len() ==> (#[trigger] v@[i]).min_width <= 0x10_0000, { acc += v[k].min_width; }
    acc
}
impl RenderTable {
//@item src/lib.rs :: impl RenderTable :: fn calc_size_estimate
//@sub /-> SizeEstimate/ ==> -> (r: SizeEstimate)
//@sub /for row in self\.rows\(\)/ ==> for row in itr: self.rows.iter()
//@sub /for cell in row\.cells\(\)/ ==> for cell in itc: row.cells.iter()
//@sub /vec!\[Default::default\(\); self\.num_columns\]/ ==> vec_zero_estimates(self.num_columns)
//@sub /max\(\s*sizes\[colno \+ colnum\]\.min_width,\s*cellsize\.min_width \/ cell\.colspan,\s*\)/ ==> sizes[colno + colnum].min_width.max(cellsize.min_width / cell.colspan)
//@sub /let size = sizes\.iter\(\)\.map\(\|s\| s\.size\)\.sum\(\);/ ==> let size = sum_size(&sizes);
//@sub /sizes\.iter\(\)\.map\(\|s\| s\.min_width\)\.sum::<usize>\(\)/ ==> sum_min(&sizes)
    fn calc_size_estimate(&self, _context: &HtmlContext) -> (r: SizeEstimate)
        requires table_ok(*self), //@w
        ensures r.prefix_size == 0, r.size <= 0x2000_0000_0000, r.min_width <= 0x2000_0000_0000, //@w @C02 #table_estimate_has_no_prefix
    {
        if self.num_columns == 0 {
            let result = SizeEstimate {
                size: 0,
                min_width: 0,
                prefix_size: 0,
            };
            self.size_estimate.set(Some(result));
            return result;
        }
        let mut sizes: Vec<SizeEstimate> = vec_zero_estimates(self.num_columns);
        let ghost nc = self.num_columns as int; //@w

        // For now, a simple estimate based on adding up sub-parts.
        for row in itr: self.rows.iter()
            invariant //@w
                table_ok(*self), nc == self.num_columns, sizes@.len() == nc, itr.seq().len() == self.rows@.len(), forall|i: int| 0 <= i < self.rows@.len() ==> *(#[trigger] itr.seq()[i]) == self.rows@[i], //@w @C02 #calc_size_estimate_loop_invariant
                forall|j: int| 0 <= j < nc ==> (#[trigger] sizes@[j]).size <= itr.index@ * 0x10_0000 && sizes@[j].min_width <= 0x10_0000, //@w @C02 #calc_size_estimate_loop_invariant
        {
            let ghost ri = itr.index@; //@w
            assert(*row == self.rows@[ri]); //@w
            let mut colno = 0usize;
            for cell in itc: row.cells.iter()
                invariant //@w
                    table_ok(*self), nc == self.num_columns, sizes@.len() == nc, 0 <= ri < self.rows@.len(), *row == self.rows@[ri], //@w @C02 #calc_size_estimate_loop_invariant
                    itc.seq().len() == row.cells@.len(), forall|i: int| 0 <= i < row.cells@.len() ==> *(#[trigger] itc.seq()[i]) == row.cells@[i], //@w @C02 #calc_size_estimate_loop_invariant
                    colno == colsum(row.cells@, itc.index@), //@w @C02 #calc_size_estimate_loop_invariant
                    forall|j: int| 0 <= j < nc ==> (#[trigger] sizes@[j]).size <= (ri + 1) * 0x10_0000 && sizes@[j].min_width <= 0x10_0000, //@w @C02 #calc_size_estimate_loop_invariant
                    forall|j: int| colno <= j < nc ==> (#[trigger] sizes@[j]).size <= ri * 0x10_0000, //@w @C02 #calc_size_estimate_loop_invariant
            {
                let ghost ci = itc.index@; //@w
                proof { //@w
                    assert(*cell == row.cells@[ci]); //@w
                    assert(self.rows@[ri].cells@[ci].colspan >= 1); //@w
                    lemma_colsum_mono(row.cells@, ci + 1, row.cells@.len() as int); //@w
                    assert(colsum(row.cells@, ci + 1) == colno + cell.colspan); //@w
                } //@w
                let cellsize = cell.get_size_estimate();
                for colnum in 0..cell.colspan
                    invariant //@w
                        nc == self.num_columns, sizes@.len() == nc, colno + cell.colspan <= nc, cell.colspan >= 1, cellsize.size <= 0x10_0000, cellsize.min_width <= 0x10_0000, nc <= 0x1000, 0 <= ri <= 0x1000, //@w @C02 #calc_size_estimate_loop_invariant
                        forall|j: int| 0 <= j < nc ==> (#[trigger] sizes@[j]).size <= (ri + 1) * 0x10_0000 && sizes@[j].min_width <= 0x10_0000, //@w @C02 #calc_size_estimate_loop_invariant
                        forall|j: int| colno + colnum <= j < nc ==> (#[trigger] sizes@[j]).size <= ri * 0x10_0000, //@w @C02 #calc_size_estimate_loop_invariant
                {
                    sizes[colno + colnum].size += cellsize.size / cell.colspan;
                    sizes[colno + colnum].min_width = sizes[colno + colnum].min_width.max(cellsize.min_width / cell.colspan);
                }
                colno += cell.colspan;
            }
        }
        let size = sum_size(&sizes); // Include borders?
        let min_width = sum_min(&sizes) + self.num_columns - 1;
        let result = SizeEstimate {
            size,
            min_width,
            prefix_size: 0,
        };
        self.size_estimate.set(Some(result));
        result
    }
//@end
}
// boundary (A6): no table row / body / cell node appears as a direct child of a non-table node
spec fn tree_ok_seq(v: Seq<RenderNode>, k: int) -> bool decreases v, k { k <= 0 || k > v.len() || (tree_ok_seq(v, k - 1) && !(v[k - 1].info is TableRow) && !(v[k - 1].info is TableBody) && !(v[k - 1].info is TableCell) && tree_ok(v[k - 1])) }
spec fn tree_ok(n: RenderNode) -> bool decreases n {
    match n.info {
        RenderNodeInfo::Container(v) => tree_ok_seq(v@, v@.len() as int), RenderNodeInfo::Em(v) => tree_ok_seq(v@, v@.len() as int), RenderNodeInfo::Strong(v) => tree_ok_seq(v@, v@.len() as int),
        RenderNodeInfo::Strikeout(v) => tree_ok_seq(v@, v@.len() as int), RenderNodeInfo::Code(v) => tree_ok_seq(v@, v@.len() as int), RenderNodeInfo::Block(v) => tree_ok_seq(v@, v@.len() as int),
        RenderNodeInfo::Div(v) => tree_ok_seq(v@, v@.len() as int), RenderNodeInfo::Dl(v) => tree_ok_seq(v@, v@.len() as int), RenderNodeInfo::Dt(v) => tree_ok_seq(v@, v@.len() as int),
        RenderNodeInfo::ListItem(v) => tree_ok_seq(v@, v@.len() as int), RenderNodeInfo::Sup(v) => tree_ok_seq(v@, v@.len() as int), RenderNodeInfo::Link(_, v) => tree_ok_seq(v@, v@.len() as int),
        RenderNodeInfo::Dd(v) => tree_ok_seq(v@, v@.len() as int), RenderNodeInfo::BlockQuote(v) => tree_ok_seq(v@, v@.len() as int), RenderNodeInfo::Ul(v) => tree_ok_seq(v@, v@.len() as int),
        RenderNodeInfo::Ol(_, v) => tree_ok_seq(v@, v@.len() as int), RenderNodeInfo::Header(_, v) => tree_ok_seq(v@, v@.len() as int),
        RenderNodeInfo::Table(t) => table_ok(t),
        _ => true,
    }
}
proof fn lemma_tree_seq(v: Seq<RenderNode>, k: int, j: int) requires 0 <= j < k <= v.len(), tree_ok_seq(v, k) ensures tree_ok(v[j]), !(v[j].info is TableRow) && !(v[j].info is TableBody) && !(v[j].info is TableCell) decreases k { if j < k - 1 { lemma_tree_seq(v, k - 1, j); } }
// R7: `v.iter().map(recurse).fold(Default::default(), SizeEstimate::add)` is this left fold (our code, verified)
fn fold_estimates<D: TextDecorator>(v: &Vec<RenderNode>, context: &HtmlContext, decorator: &D) -> (r: SizeEstimate)
    requires wt_seq(v@, v@.len() as int) <= 0x4_0000_0000_0000, coherent_seq(v@, v@.len() as int, *decorator, context.min_wrap_width), tree_ok_seq(v@, v@.len() as int),
    ensures r.size <= wt_seq(v@, v@.len() as int), r.min_width <= wt_seq(v@, v@.len() as int), r.prefix_size == 0,
        r.min_width <= mwb_seq(v@, v@.len() as int, context.min_wrap_width as int, *decorator),
    decreases v, 0int,
{
    let mut acc = se_zero();
    for k in 0..v.len()
        invariant acc.size <= wt_seq(v@, k as int), acc.min_width <= wt_seq(v@, k as int), acc.prefix_size == 0, acc.min_width <= mwb_seq(v@, k as int, context.min_wrap_width as int, *decorator),
            wt_seq(v@, v@.len() as int) <= 0x4_0000_0000_0000, coherent_seq(v@, v@.len() as int, *decorator, context.min_wrap_width), tree_ok_seq(v@, v@.len() as int),
    {
        proof { lemma_wt_seq_mono(v@, k as int + 1, v@.len() as int); lemma_coh_seq(v@, v@.len() as int, k as int, *decorator, context.min_wrap_width); lemma_mwb_seq_mono(v@, k as int + 1, v@.len() as int, context.min_wrap_width as int, *decorator); lemma_tree_seq(v@, v@.len() as int, k as int); }
        let e = v[k].calc_size_estimate(context, decorator);
        acc = acc.add(e);
    }
    acc
}
impl RenderNode {
//@item src/lib.rs :: impl RenderNode :: fn calc_size_estimate
//@auto C01 C02
//@sub /\) -> SizeEstimate/ ==> ) -> (r: SizeEstimate)
//@sub /let recurse = \|node: &RenderNode\| node\.calc_size_estimate\(context, decorator\);/ ==> // R7: the closure `recurse` is folded into fold_estimates
//@sub * /v\s*\.iter\(\)\s*\.map\(recurse\)\s*\.fold\(Default::default\(\), SizeEstimate::add\)/ ==> fold_estimates(v, context, decorator)
//@sub /use unicode_width::UnicodeWidthChar;/ ==> // (UnicodeWidthChar: prelude)
//@sub /for c in t\.trim\(\)\.chars\(\)/ ==> let tt = str_trim(t);\n                for c in it: tt.chars()
//@sub /let is_ws = c\.is_whitespace\(\);/ ==> let is_ws = char_is_ws(c);
//@sub /if let Some\(true\) = t\.chars\(\)\.next\(\)\.map\(\|c\| c\.is_whitespace\(\)\)/ ==> if starts_with_ws(t)
//@sub /"  "\.into\(\)/ ==> str_into_string("  ")
//@sub /unimplemented!\(\)/ ==> unreachable!()
//@sub /FragStart\(_\) => Default::default\(\),/ ==> FragStart(_) => se_zero(),
//@sub /let mut len = 0;/ ==> let mut len: usize = 0;
    fn calc_size_estimate<D: TextDecorator>(
        &self,
        context: &HtmlContext,
        decorator: &D,
    ) -> (r: SizeEstimate)
        requires wt(*self) <= 0x4_0000_0000_0000, coherent(*self, *decorator, context.min_wrap_width), //@w
            // boundary (A6): table rows, bodies and cells are only ever estimated through their table //@w
            !(self.info is TableRow) && !(self.info is TableBody) && !(self.info is TableCell), tree_ok(*self), //@w
        ensures good_base(r, *self, *decorator), //@w @C02 @C07 @C11 @C16 #estimate_records_prefix_width_and_reserves_it
            // C11: nothing reserves more than the prefixes of the blocks around it plus the minimum wrap width (5 for a link)
            r.min_width <= mwb(*self, context.min_wrap_width as int, *decorator), //@w @C11 #reserved_width_within_prefixes_plus_minimum
            // C11: the minimum content width the layout reserves for text is at most the configured minimum wrap width (a freshly computed estimate; a cached one is returned as it is)
            cached(self.size_estimate) is None && (self.info is Text || self.info is Img) ==> r.min_width <= context.min_wrap_width, //@w @C11 #text_reserves_at_most_min_wrap_width
            cached(self.size_estimate) is None && self.info is Break ==> r.min_width == 1 && r.size == 1, //@w @C11 #break_reserves_one_column
            cached(self.size_estimate) is None && self.info is FragStart ==> r.min_width == 0 && r.size == 0, //@w @C11 @C14 #marker_reserves_nothing
        decreases self, 1int, //@w
    {
        proof { reveal_strlit("  "); lemma_sw_le("  "@); assert(sw("  "@) <= 4); } //@w
        // If it's already calculated, then just return the answer.
        if let Some(s) = self.size_estimate.get() {
            return s;
        };

        use RenderNodeInfo::*;

        // R7: the closure `recurse` is folded into fold_estimates

        // Otherwise, make an estimate.
        let estimate = match self.info {
            Text(ref t) | Img(_, ref t) => {
                // (UnicodeWidthChar: prelude)
                let mut len: usize = 0;
                let mut in_whitespace = false;
                let tt = str_trim(t);
                for c in it: tt.chars()
                    invariant len <= 3 * it.index@, it.index@ <= tt@.len(), tt@.len() <= t@.len(), t@.len() <= 0x4_0000_0000_0000, //@w @C02 @C07 @C11 @C14 @C16 #calc_size_estimate_loop_invariant
                {
                    let is_ws = char_is_ws(c);
                    if !is_ws {
                        len += UnicodeWidthChar::width(c).unwrap_or(0);
                        // Count the preceding whitespace as one.
                        if in_whitespace {
                            len += 1;
                        }
                    }
                    in_whitespace = is_ws;
                }
                // Add one for preceding whitespace.
                if starts_with_ws(t) {
                    len += 1;
                }
                if let Img(_, _) = self.info {
                    len += 2;
                }
                SizeEstimate {
                    size: len,
                    min_width: len.min(context.min_wrap_width),
                    prefix_size: 0,
                }
            }

            Container(ref v) | Em(ref v) | Strong(ref v) | Strikeout(ref v) | Code(ref v)
            | Block(ref v) | Div(ref v) | Dl(ref v) | Dt(ref v) | ListItem(ref v) | Sup(ref v) => fold_estimates(v, context, decorator),
            Link(ref _target, ref v) => fold_estimates(v, context, decorator)
                .add(SizeEstimate {
                    size: 5,
                    min_width: 5,
                    prefix_size: 0,
                }),
            Dd(ref v) | BlockQuote(ref v) | Ul(ref v) => {
                let prefix = match self.info {
                    Dd(_) => str_into_string("  "),
                    BlockQuote(_) => decorator.quote_prefix(),
                    Ul(_) => decorator.unordered_item_prefix(),
                    _ => unreachable!(),
                };
                let prefix_width = UnicodeWidthStr::width(prefix.as_str());
                assert(prefix_width <= PW()); //@w
                assert(wt(*self) == wt_seq(v@, v@.len() as int) + PW()); //@w
                let mut size = fold_estimates(v, context, decorator)
                    .add_hor(SizeEstimate {
                        size: prefix_width,
                        min_width: prefix_width,
                        prefix_size: 0,
                    });
                size.prefix_size = prefix_width;
                size
            }
            Ol(i, ref v) => {
                let prefix_size = calc_ol_prefix_size(i, v.len(), decorator);
                let mut result = fold_estimates(v, context, decorator)
                    .add_hor(SizeEstimate {
                        size: prefix_size,
                        min_width: prefix_size,
                        prefix_size: 0,
                    });
                result.prefix_size = prefix_size;
                result
            }
            Header(level, ref v) => {
                let prefix_size = UnicodeWidthStr::width(decorator.header_prefix(level).as_str());
                let mut size = fold_estimates(v, context, decorator)
                    .add_hor(SizeEstimate {
                        size: prefix_size,
                        min_width: prefix_size,
                        prefix_size: 0,
                    });
                size.prefix_size = prefix_size;
                size
            }
            Break => SizeEstimate {
                size: 1,
                min_width: 1,
                prefix_size: 0,
            },
            Table(ref t) => t.calc_size_estimate(context),
            TableRow(..) | TableBody(_) | TableCell(_) => unreachable!(),
            FragStart(_) => se_zero(),
        };
        self.size_estimate.set(Some(estimate));
        estimate
    }
//@end
}
} // verus!
fn main() {}
