//@unit WM — SubRenderer::width_minus (sub-renderer width arithmetic)
// Trusted/opaque here (R10): SubRenderer and RenderOptions reduced to the two fields the
// function reads; TooNarrow/Result as in render/mod.rs.
use vstd::prelude::*;
macro_rules! html_trace { ($($t:tt)*) => {} }
macro_rules! html_trace_quiet { ($($t:tt)*) => {} }
verus! {
//@export-begin
struct TooNarrow;
type Result<T> = std::result::Result<T, TooNarrow>;
struct RenderOptions { allow_width_overflow: bool }
struct SubRenderer { width: usize, options: RenderOptions }

spec fn monus(a: usize, b: usize) -> int { if a >= b { a - b } else { 0 } }
spec fn wm_spec(width: usize, allow: bool, prefix: usize, min_width: usize) -> Option<int> {
    if (monus(width, prefix) < min_width || prefix > width) && !allow { None }
    else if monus(width, prefix) >= min_width { Some(monus(width, prefix)) } else { Some(min_width as int) }
}

impl SubRenderer {
//@item src/render/text_renderer.rs :: impl SubRenderer :: fn width_minus
//@sub /-> Result<usize>/ ==> -> (r: Result<usize>)
//@auto C01
    fn width_minus(&self, prefix_len: usize, min_width: usize) -> (r: Result<usize>)
        ensures //@w
            self.options.allow_width_overflow ==> r.is_ok(), //@w @C11 #overflow_always_ok
            r.is_err() <==> ((monus(self.width, prefix_len) < min_width || prefix_len > self.width) && !self.options.allow_width_overflow), //@w @C11 @C02 #err_iff_too_narrow
            r matches Ok(w) ==> w == (if monus(self.width, prefix_len) >= min_width { monus(self.width, prefix_len) } else { min_width as int }), //@w @C02 @C07 @C11 @C16 #value
            r matches Ok(w) ==> (w >= min_width), //@w @C11 #at_least_min
            // prefix and content together fit the parent whenever overflow is not allowed (C02; until D26 this held only when the prefix itself fitted) //@w
            r matches Ok(w) ==> (!self.options.allow_width_overflow ==> w + prefix_len <= self.width), //@w @C02 @C07 #fits_parent
    {
        let new_width = self.width.saturating_sub(prefix_len);
        // The prefix itself has to fit as well, even if the content needs no room.
        if (new_width < min_width || prefix_len > self.width) && !self.options.allow_width_overflow {
            return Err(TooNarrow);
        }
        Ok(new_width.max(min_width))
    }
//@end
}

// C11: allowing overflow never changes a result that was already Ok.
proof fn lemma_overflow_noop(width: usize, prefix: usize, min_width: usize)
    ensures wm_spec(width, false, prefix, min_width).is_some() ==>
            wm_spec(width, true, prefix, min_width) == wm_spec(width, false, prefix, min_width),  //@w @C11 #overflow_noop
            wm_spec(width, true, prefix, min_width).is_some(),                                    //@w @C11
{}

// C02 / C07: whenever overflow is not allowed, the nested renderer together with its prefix fits the parent: the precondition under which
// append_subrender keeps every line within the width (unit SR) holds at every call site whose width comes from width_minus (unit RN)
proof fn lemma_prefix_and_content_fit(width: usize, prefix: usize, min_width: usize)
    ensures wm_spec(width, false, prefix, min_width) matches Some(w) ==> w + prefix <= width,  //@w @C02 @C07 #prefix_and_content_fit_parent
{}

//@export-end
} // verus!
fn main() {}
