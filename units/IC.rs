//@unit IC — insert_child: where the fragment-start marker of an element with an id is put (src/lib.rs insert_child, first_cell_with_content)
// R10: ComputedStyle and the Cell<Option<SizeEstimate>> cache are opaque; derives on the recursive render-tree types are dropped (R15).
use vstd::prelude::*;
macro_rules! html_trace { ($($t:tt)*) => {} }
verus! {
struct ComputedStyle { x: u8 }
impl Default for ComputedStyle { fn default() -> Self { ComputedStyle { x: 0 } } }
struct CellOpt { x: u8 }
impl CellOpt { fn new_none() -> CellOpt { CellOpt { x: 0 } } }

//@item src/lib.rs :: struct RenderTableCell
//@sub /size_estimate: Cell<Option<SizeEstimate>>/ ==> size_estimate: CellOpt
struct RenderTableCell {
    colspan: usize,
    content: Vec<RenderNode>,
    size_estimate: CellOpt,
    col_width: Option<usize>, // Actual width to use
    style: ComputedStyle,
}
//@end
//@item src/lib.rs :: struct RenderTableRow
struct RenderTableRow {
    cells: Vec<RenderTableCell>,
    col_sizes: Option<Vec<usize>>,
    style: ComputedStyle,
}
//@end
//@item src/lib.rs :: struct RenderTable
//@sub /size_estimate: Cell<Option<SizeEstimate>>/ ==> size_estimate: CellOpt
struct RenderTable {
    rows: Vec<RenderTableRow>,
    num_columns: usize,
    size_estimate: CellOpt,
}
//@end
//@item src/lib.rs :: enum RenderNodeInfo
enum RenderNodeInfo {
    /// Some text.
    Text(String),
    /// A group of nodes collected together.
    Container(Vec<RenderNode>),
    /// A link with contained nodes
    Link(String, Vec<RenderNode>),
    /// An emphasised region
    Em(Vec<RenderNode>),
    /// A strong region
    Strong(Vec<RenderNode>),
    /// A struck out region
    Strikeout(Vec<RenderNode>),
    /// A code region
    Code(Vec<RenderNode>),
    /// An image (src, title)
    Img(String, String),
    /// A block element with children
    Block(Vec<RenderNode>),
    /// A header (h1, h2, ...) with children
    Header(usize, Vec<RenderNode>),
    /// A Div element with children
    Div(Vec<RenderNode>),
    /// A blockquote
    BlockQuote(Vec<RenderNode>),
    /// An unordered list
    Ul(Vec<RenderNode>),
    /// An ordered list
    Ol(i64, Vec<RenderNode>),
    /// A description list (containing Dt or Dd)
    Dl(Vec<RenderNode>),
    /// A term (from a `<dt>`)
    Dt(Vec<RenderNode>),
    /// A definition (from a `<dl>`)
    Dd(Vec<RenderNode>),
    /// A line break
    Break,
    /// A table
    Table(RenderTable),
    /// A set of table rows (from either `<thead>` or `<tbody>`
    TableBody(Vec<RenderTableRow>),
    /// Table row (must only appear within a table body)
    /// If the boolean is true, then the cells are drawn vertically
    /// instead of horizontally (because of space).
    TableRow(RenderTableRow, bool),
    /// Table cell (must only appear within a table row)
    TableCell(RenderTableCell),
    /// Start of a named HTML fragment
    FragStart(String),
    /// A list item
    ListItem(Vec<RenderNode>),
    /// Superscript text
    Sup(Vec<RenderNode>),
}
//@end
//@item src/lib.rs :: struct RenderNode
//@sub /size_estimate: Cell<Option<SizeEstimate>>/ ==> size_estimate: CellOpt
struct RenderNode {
    size_estimate: CellOpt,
    info: RenderNodeInfo,
    style: ComputedStyle,
}
//@end

// trusted (A3): #[derive(Clone)] on the render tree is a structural copy (the derive itself is dropped, R15)
impl Clone for RenderNode { #[verifier::external_body] fn clone(&self) -> (r: Self) ensures r == *self { unimplemented!() } }

// ---- abstract view (ours): the children sequence a marker is inserted into ----
spec fn kids(i: RenderNodeInfo) -> Option<Seq<RenderNode>> {
    match i {
        RenderNodeInfo::Block(c) => Some(c@), RenderNodeInfo::ListItem(c) => Some(c@), RenderNodeInfo::Dd(c) => Some(c@),
        RenderNodeInfo::Dt(c) => Some(c@), RenderNodeInfo::Dl(c) => Some(c@), RenderNodeInfo::Div(c) => Some(c@),
        RenderNodeInfo::BlockQuote(c) => Some(c@), RenderNodeInfo::Container(c) => Some(c@),
        RenderNodeInfo::TableCell(cell) => Some(cell.content@),
        _ => None,
    }
}
// same variant and same non-children fields
spec fn same_shell(a: RenderNodeInfo, b: RenderNodeInfo) -> bool {
    match (a, b) {
        (RenderNodeInfo::Block(_), RenderNodeInfo::Block(_)) => true, (RenderNodeInfo::ListItem(_), RenderNodeInfo::ListItem(_)) => true,
        (RenderNodeInfo::Dd(_), RenderNodeInfo::Dd(_)) => true, (RenderNodeInfo::Dt(_), RenderNodeInfo::Dt(_)) => true,
        (RenderNodeInfo::Dl(_), RenderNodeInfo::Dl(_)) => true, (RenderNodeInfo::Div(_), RenderNodeInfo::Div(_)) => true,
        (RenderNodeInfo::BlockQuote(_), RenderNodeInfo::BlockQuote(_)) => true, (RenderNodeInfo::Container(_), RenderNodeInfo::Container(_)) => true,
        (RenderNodeInfo::TableCell(x), RenderNodeInfo::TableCell(y)) => x.colspan == y.colspan && x.col_width == y.col_width && x.style == y.style && x.size_estimate == y.size_estimate,
        _ => false,
    }
}
spec fn placed(oc: Seq<RenderNode>, new_child: RenderNode, position: ChildPosition) -> Seq<RenderNode> {
    if position == ChildPosition::Start { seq![new_child] + oc } else { oc.push(new_child) }
}
// a cell with the marker pushed into its content
spec fn cell_placed(oc: RenderTableCell, rc: RenderTableCell, new_child: RenderNode, position: ChildPosition) -> bool {
    rc.content@ =~= placed(oc.content@, new_child, position) && rc.colspan == oc.colspan && rc.col_width == oc.col_width
        && rc.style == oc.style && rc.size_estimate == oc.size_estimate
}

// ---- table rows, bodies and tables: which cell the marker of the whole element goes into ----
// what `RenderTableCell::is_shallow_empty` decides ("definitely empty": every child is a whitespace-only text, an empty container, a
// line break or another marker); its body is an iterator chain over `RenderNode::is_shallow_empty` and is not verified here
uninterp spec fn cell_shallow_empty(c: RenderTableCell) -> bool;
spec fn no_cells(rows: Seq<RenderTableRow>) -> bool { forall|a: int| 0 <= a < rows.len() ==> (#[trigger] rows[a]).cells@.len() == 0 }
spec fn cell_before(a: int, b: int, i: int, j: int) -> bool { a < i || (a == i && b < j) }
// C14 "after all text that precedes the element and no later than the element's first visible character", for an element whose
// text lives in cells: every cell before the chosen one (row by row) is definitely empty, and the chosen cell is the first one that is
// not — or, when every cell is definitely empty, the very first cell.
spec fn marker_cell_ok(rows: Seq<RenderTableRow>, i: int, j: int) -> bool {
    0 <= i < rows.len() && 0 <= j < rows[i].cells@.len()
    && (forall|a: int, b: int| 0 <= a < rows.len() && 0 <= b < rows[a].cells@.len() && cell_before(a, b, i, j) ==> cell_shallow_empty(#[trigger] rows[a].cells@[b]))
    && (cell_shallow_empty(rows[i].cells@[j]) ==> (j == 0 && (forall|a: int| 0 <= a < i ==> (#[trigger] rows[a]).cells@.len() == 0)
        && (forall|a: int, b: int| 0 <= a < rows.len() && 0 <= b < rows[a].cells@.len() ==> cell_shallow_empty(#[trigger] rows[a].cells@[b]))))
}
// `rrows` is `orows` with the marker put into cell (i, j) and nothing else touched
spec fn rows_put(orows: Seq<RenderTableRow>, rrows: Seq<RenderTableRow>, i: int, j: int, new_child: RenderNode, position: ChildPosition) -> bool {
    rrows.len() == orows.len()
    && (forall|k: int| 0 <= k < orows.len() && k != i ==> #[trigger] rrows[k] == orows[k])
    && rrows[i].cells@.len() == orows[i].cells@.len() && rrows[i].col_sizes == orows[i].col_sizes && rrows[i].style == orows[i].style
    && (forall|k: int| 0 <= k < orows[i].cells@.len() && k != j ==> #[trigger] rrows[i].cells@[k] == orows[i].cells@[k])
    && cell_placed(orows[i].cells@[j], rrows[i].cells@[j], new_child, position)
}
spec fn marker_in_rows(orows: Seq<RenderTableRow>, rrows: Seq<RenderTableRow>, new_child: RenderNode, position: ChildPosition) -> bool {
    if no_cells(orows) { rrows == orows }
    else { exists|i: int, j: int| #[trigger] marker_cell_ok(orows, i, j) && rows_put(orows, rrows, i, j, new_child, position) }
}
// the cell is determined by the rows: two answers satisfying marker_cell_ok are the same cell
proof fn lemma_marker_cell_unique(rows: Seq<RenderTableRow>, i: int, j: int, i2: int, j2: int)
    requires marker_cell_ok(rows, i, j), marker_cell_ok(rows, i2, j2),
    ensures i == i2 && j == j2,
{
    if cell_before(i, j, i2, j2) {
        assert(cell_shallow_empty(rows[i].cells@[j]));
        assert(rows[i].cells@.len() == 0 || (i == i2));
    } else if cell_before(i2, j2, i, j) {
        assert(cell_shallow_empty(rows[i2].cells@[j2]));
        assert(rows[i2].cells@.len() == 0 || (i == i2));
    }
}
// std: a one-element slice of the referenced value
pub assume_specification<T> [std::slice::from_ref] (x: &T) -> (r: &[T]) ensures r@ == seq![*x];

impl RenderTableCell {
//@item src/lib.rs :: impl RenderTableCell :: fn is_shallow_empty
//@sub /-> bool/ ==> -> (r: bool)
//@drop-body
    #[verifier::external_body] //@w
    fn is_shallow_empty(&self) -> (r: bool)
        ensures r == cell_shallow_empty(*self), //@w
    {
        self.content.iter().all(RenderNode::is_shallow_empty)
    }
//@end
}

impl RenderNode {
//@item src/lib.rs :: impl RenderNode :: fn new
//@sub /-> RenderNode/ ==> -> (r: RenderNode)
//@sub /Cell::new\(None\)/ ==> CellOpt::new_none()
    fn new(info: RenderNodeInfo) -> (r: RenderNode)
        ensures r.info == info, //@w @C14 #node_new_info
    {
        RenderNode {
            size_estimate: CellOpt::new_none(),
            info,
            style: Default::default(),
        }
    }
//@end
}
//@item src/lib.rs :: enum ChildPosition
#[derive(Copy, Clone, Eq, PartialEq)] //@w
enum ChildPosition {
    Start,
    End,
}
//@end

//@item src/lib.rs :: fn first_cell_with_content
//@sub /-> Option<\(usize, usize\)>/ ==> -> (r: Option<(usize, usize)>)
//@sub /let mut first_cell = None;/ ==> let mut first_cell: Option<(usize, usize)> = None;
//@sub /for \(i, row\) in rows\.iter\(\)\.enumerate\(\)/ ==> for i in 0..rows.len()
//@sub /for \(j, cell\) in row\.cells\.iter\(\)\.enumerate\(\)/ ==> for j in 0..row.cells.len()
//@auto C14
fn first_cell_with_content(rows: &[RenderTableRow]) -> (r: Option<(usize, usize)>)
    ensures //@w
        r is None <==> no_cells(rows@), //@w @C14 #marker_dropped_only_without_cells
        r matches Some(p) ==> marker_cell_ok(rows@, p.0 as int, p.1 as int), //@w @C14 #marker_cell_is_first_with_content
{
    let mut first_cell: Option<(usize, usize)> = None;
    for i in 0..rows.len()
        invariant //@w[ @C14 #cells_before_are_empty
            forall|a: int, b: int| 0 <= a < i && 0 <= b < rows@[a].cells@.len() ==> cell_shallow_empty(#[trigger] rows@[a].cells@[b]),
            first_cell is None <==> (forall|a: int| 0 <= a < i ==> (#[trigger] rows@[a]).cells@.len() == 0),
            first_cell matches Some(p) ==> (p.0 < i && p.1 == 0 && rows@[p.0 as int].cells@.len() > 0 && (forall|a: int| 0 <= a < p.0 ==> (#[trigger] rows@[a]).cells@.len() == 0)), //@w]
    {
        let row = &rows[i]; //@w
        for j in 0..row.cells.len()
            invariant //@w[ @C14 #cells_before_are_empty
                i < rows@.len() && *row == rows@[i as int],
                forall|a: int, b: int| 0 <= a < i && 0 <= b < rows@[a].cells@.len() ==> cell_shallow_empty(#[trigger] rows@[a].cells@[b]),
                forall|b: int| 0 <= b < j ==> cell_shallow_empty(#[trigger] rows@[i as int].cells@[b]),
                first_cell is None <==> ((forall|a: int| 0 <= a < i ==> (#[trigger] rows@[a]).cells@.len() == 0) && j == 0),
                first_cell matches Some(p) ==> (p.0 <= i && (p.0 == i ==> j > 0) && p.1 == 0 && rows@[p.0 as int].cells@.len() > 0 && (forall|a: int| 0 <= a < p.0 ==> (#[trigger] rows@[a]).cells@.len() == 0)), //@w]
        {
            let cell = &row.cells[j]; //@w
            if !cell.is_shallow_empty() {
                return Some((i, j));
            }
            if first_cell.is_none() {
                first_cell = Some((i, j));
            }
        }
    }
    first_cell
}
//@end

//@item src/lib.rs :: fn insert_child
//@rule R15
//@sub /\) -> RenderNode/ ==> ) -> (r: RenderNode)
//@auto C01 C14 C03
fn insert_child(
    new_child: RenderNode,
    mut orig: RenderNode,
    position: ChildPosition,
) -> (r: RenderNode)
    ensures //@w
        // containers, blocks and table cells: the marker becomes the first (Start) / last (End) child, everything else is kept in order (C14)
        kids(orig.info) matches Some(oc) ==> (same_shell(orig.info, r.info) && kids(r.info) == Some(placed(oc, new_child, position)) && r.style == orig.style), //@w @C14 @C03 #marker_first_child
        // table rows, bodies and tables: the marker goes into the first cell that is not definitely empty (else the first cell), nothing
        // else changes; with no cell at all there is nothing to attach it to and the node is returned as it was
        orig.info matches RenderNodeInfo::TableRow(orow, v) ==> (r.info matches RenderNodeInfo::TableRow(rrow, rv) && rv == v && r.style == orig.style && marker_in_rows(seq![orow], seq![rrow], new_child, position)), //@w @C14 @C03 #marker_first_cell_of_row
        orig.info matches RenderNodeInfo::TableBody(orows) ==> (r.info matches RenderNodeInfo::TableBody(rrows) && r.style == orig.style && marker_in_rows(orows@, rrows@, new_child, position)), //@w @C14 @C03 #marker_first_cell_of_body
        orig.info matches RenderNodeInfo::Table(ot) ==> (r.info matches RenderNodeInfo::Table(rt) && r.style == orig.style && rt.num_columns == ot.num_columns && rt.size_estimate == ot.size_estimate && marker_in_rows(ot.rows@, rt.rows@, new_child, position)), //@w @C14 @C03 #marker_first_cell_of_table
        // anything else (text, inline elements, lists, headings …): a new container holding the marker and the node, marker first for Start
        kids(orig.info).is_none() && !(orig.info is TableRow) && !(orig.info is TableBody) && !(orig.info is Table) ==> //@w[ @C14 @C03 #marker_wraps_node
            (r.info matches RenderNodeInfo::Container(rc) && rc@ == (if position == ChildPosition::Start { seq![new_child, orig] } else { seq![orig, new_child] })), //@w]
{
    use RenderNodeInfo::*;
    html_trace!("insert_child({:?}, {:?}, {:?})", new_child, orig, position);

    match orig.info {
        // For block elements such as Block and Div, we need to insert
        // the node at the front of their children array, otherwise
        // the renderer is liable to drop the fragment start marker
        // _before_ the new line indicating the end of the previous
        // paragraph.
        //
        // For Container, we do the same thing just to make the data
        // less pointlessly nested.
        Block(ref mut children) => {
            match position {
                ChildPosition::Start => children.insert(0, new_child),
                ChildPosition::End => children.push(new_child),
            }
            // Now return orig, but we do that outside the match so
            // that we've given back the borrowed ref 'children'.
        }
        ListItem(ref mut children) => {
            match position {
                ChildPosition::Start => children.insert(0, new_child),
                ChildPosition::End => children.push(new_child),
            }
            // Now return orig, but we do that outside the match so
            // that we've given back the borrowed ref 'children'.
        }
        Dd(ref mut children) => {
            match position {
                ChildPosition::Start => children.insert(0, new_child),
                ChildPosition::End => children.push(new_child),
            }
            // Now return orig, but we do that outside the match so
            // that we've given back the borrowed ref 'children'.
        }
        Dt(ref mut children) => {
            match position {
                ChildPosition::Start => children.insert(0, new_child),
                ChildPosition::End => children.push(new_child),
            }
            // Now return orig, but we do that outside the match so
            // that we've given back the borrowed ref 'children'.
        }
        Dl(ref mut children) => {
            match position {
                ChildPosition::Start => children.insert(0, new_child),
                ChildPosition::End => children.push(new_child),
            }
            // Now return orig, but we do that outside the match so
            // that we've given back the borrowed ref 'children'.
        }
        Div(ref mut children) => {
            match position {
                ChildPosition::Start => children.insert(0, new_child),
                ChildPosition::End => children.push(new_child),
            }
            // Now return orig, but we do that outside the match so
            // that we've given back the borrowed ref 'children'.
        }
        BlockQuote(ref mut children) => {
            match position {
                ChildPosition::Start => children.insert(0, new_child),
                ChildPosition::End => children.push(new_child),
            }
            // Now return orig, but we do that outside the match so
            // that we've given back the borrowed ref 'children'.
        }
        Container(ref mut children) => {
            match position {
                ChildPosition::Start => children.insert(0, new_child),
                ChildPosition::End => children.push(new_child),
            }
            // Now return orig, but we do that outside the match so
            // that we've given back the borrowed ref 'children'.
        }
        TableCell(RenderTableCell {
            content: ref mut children,
            ..
        }) => {
            match position {
                ChildPosition::Start => children.insert(0, new_child),
                ChildPosition::End => children.push(new_child),
            }
            // Now return orig, but we do that outside the match so
            // that we've given back the borrowed ref 'children'.
        }

        // For table rows and tables, push down if there's any content.
        TableRow(ref mut rrow, _) => {
            // If the row is empty, then there isn't really anything
            // to attach the fragment start to.
            let ghost orow = *rrow; //@w
            if let Some((_, j)) = first_cell_with_content(std::slice::from_ref(rrow)) {
                let cell = &mut rrow.cells[j];
                match position {
                    ChildPosition::Start => cell.content.insert(0, new_child),
                    ChildPosition::End => cell.content.push(new_child),
                }
                proof { //@w[ @C14 #marker_first_cell_of_row
                    assert(marker_cell_ok(seq![orow], 0, j as int));
                    assert(rows_put(seq![orow], seq![*rrow], 0, j as int, new_child, position));
                } //@w]
            }
        }

        TableBody(ref mut rows) => {
            // If there are no cells, then there isn't really anything
            // to attach the fragment start to.
            let ghost orows = rows@; //@w
            if let Some((i, j)) = first_cell_with_content(rows) {
                let cell = &mut rows[i].cells[j];
                match position {
                    ChildPosition::Start => cell.content.insert(0, new_child),
                    ChildPosition::End => cell.content.push(new_child),
                }
                proof { //@w[ @C14 #marker_first_cell_of_body
                    assert(marker_cell_ok(orows, i as int, j as int));
                    assert(rows_put(orows, rows@, i as int, j as int, new_child, position));
                } //@w]
            }
        }
        Table(RenderTable { ref mut rows, .. }) => {
            // If there are no cells, then there isn't really anything
            // to attach the fragment start to.
            let ghost orows = rows@; //@w
            if let Some((i, j)) = first_cell_with_content(rows) {
                let cell = &mut rows[i].cells[j];
                match position {
                    ChildPosition::Start => cell.content.insert(0, new_child),
                    ChildPosition::End => cell.content.push(new_child),
                }
                proof { //@w[ @C14 #marker_first_cell_of_table
                    assert(marker_cell_ok(orows, i as int, j as int));
                    assert(rows_put(orows, rows@, i as int, j as int, new_child, position));
                } //@w]
            }
        }

        // For anything else, just make a new Container with the
        // new_child node and the original one.
        _ => {
            let result = match position {
                ChildPosition::Start => RenderNode::new(Container(vec![new_child, orig])),
                ChildPosition::End => RenderNode::new(Container(vec![orig, new_child])),
            };
            html_trace!("insert_child() -> {:?}", result);
            return result;
        }
    }
    html_trace!("insert_child() -> {:?}", &orig);
    orig
}
//@end

} // verus!
fn main() {}
