//@unit IC — insert_child: where the fragment-start marker of an element with an id is put (src/lib.rs:1408-1483)
// R10: ComputedStyle and the Cell<Option<SizeEstimate>> cache are opaque; derives on the recursive render-tree types are dropped (R15).
use vstd::prelude::*;
macro_rules! html_trace { ($($t:tt)*) => {} }
verus! {
struct ComputedStyle { x: u8 }
impl Default for ComputedStyle { fn default() -> Self { ComputedStyle { x: 0 } } }
struct CellOpt { x: u8 }
impl CellOpt { fn new_none() -> CellOpt { CellOpt { x: 0 } } }

//@item src/lib.rs :: struct RenderTableCell
//@sub /size_estimate: Cell<Option<SizeEstimate>>/ ==> size_estimate: CellOpt
struct RenderTableCell {
    colspan: usize,
    content: Vec<RenderNode>,
    size_estimate: CellOpt,
    col_width: Option<usize>, // Actual width to use
    style: ComputedStyle,
}
//@end
//@item src/lib.rs :: struct RenderTableRow
struct RenderTableRow {
    cells: Vec<RenderTableCell>,
    col_sizes: Option<Vec<usize>>,
    style: ComputedStyle,
}
//@end
//@item src/lib.rs :: struct RenderTable
//@sub /size_estimate: Cell<Option<SizeEstimate>>/ ==> size_estimate: CellOpt
struct RenderTable {
    rows: Vec<RenderTableRow>,
    num_columns: usize,
    size_estimate: CellOpt,
}
//@end
//@item src/lib.rs :: enum RenderNodeInfo
enum RenderNodeInfo {
    /// Some text.
    Text(String),
    /// A group of nodes collected together.
    Container(Vec<RenderNode>),
    /// A link with contained nodes
    Link(String, Vec<RenderNode>),
    /// An emphasised region
    Em(Vec<RenderNode>),
    /// A strong region
    Strong(Vec<RenderNode>),
    /// A struck out region
    Strikeout(Vec<RenderNode>),
    /// A code region
    Code(Vec<RenderNode>),
    /// An image (src, title)
    Img(String, String),
    /// A block element with children
    Block(Vec<RenderNode>),
    /// A header (h1, h2, ...) with children
    Header(usize, Vec<RenderNode>),
    /// A Div element with children
    Div(Vec<RenderNode>),
    /// A blockquote
    BlockQuote(Vec<RenderNode>),
    /// An unordered list
    Ul(Vec<RenderNode>),
    /// An ordered list
    Ol(i64, Vec<RenderNode>),
    /// A description list (containing Dt or Dd)
    Dl(Vec<RenderNode>),
    /// A term (from a `<dt>`)
    Dt(Vec<RenderNode>),
    /// A definition (from a `<dl>`)
    Dd(Vec<RenderNode>),
    /// A line break
    Break,
    /// A table
    Table(RenderTable),
    /// A set of table rows (from either `<thead>` or `<tbody>`
    TableBody(Vec<RenderTableRow>),
    /// Table row (must only appear within a table body)
    /// If the boolean is true, then the cells are drawn vertically
    /// instead of horizontally (because of space).
    TableRow(RenderTableRow, bool),
    /// Table cell (must only appear within a table row)
    TableCell(RenderTableCell),
    /// Start of a named HTML fragment
    FragStart(String),
    /// A list item
    ListItem(Vec<RenderNode>),
    /// Superscript text
    Sup(Vec<RenderNode>),
}
//@end
//@item src/lib.rs :: struct RenderNode
//@sub /size_estimate: Cell<Option<SizeEstimate>>/ ==> size_estimate: CellOpt
struct RenderNode {
    size_estimate: CellOpt,
    info: RenderNodeInfo,
    style: ComputedStyle,
}
//@end

// trusted (A3): #[derive(Clone)] on the render tree is a structural copy (the derive itself is dropped, R15)
impl Clone for RenderNode { #[verifier::external_body] fn clone(&self) -> (r: Self) ensures r == *self { unimplemented!() } }

// ---- abstract view (ours): the children sequence a marker is inserted into ----
spec fn kids(i: RenderNodeInfo) -> Option<Seq<RenderNode>> {
    match i {
        RenderNodeInfo::Block(c) => Some(c@), RenderNodeInfo::ListItem(c) => Some(c@), RenderNodeInfo::Dd(c) => Some(c@),
        RenderNodeInfo::Dt(c) => Some(c@), RenderNodeInfo::Dl(c) => Some(c@), RenderNodeInfo::Div(c) => Some(c@),
        RenderNodeInfo::BlockQuote(c) => Some(c@), RenderNodeInfo::Container(c) => Some(c@),
        RenderNodeInfo::TableCell(cell) => Some(cell.content@),
        _ => None,
    }
}
// same variant and same non-children fields
spec fn same_shell(a: RenderNodeInfo, b: RenderNodeInfo) -> bool {
    match (a, b) {
        (RenderNodeInfo::Block(_), RenderNodeInfo::Block(_)) => true, (RenderNodeInfo::ListItem(_), RenderNodeInfo::ListItem(_)) => true,
        (RenderNodeInfo::Dd(_), RenderNodeInfo::Dd(_)) => true, (RenderNodeInfo::Dt(_), RenderNodeInfo::Dt(_)) => true,
        (RenderNodeInfo::Dl(_), RenderNodeInfo::Dl(_)) => true, (RenderNodeInfo::Div(_), RenderNodeInfo::Div(_)) => true,
        (RenderNodeInfo::BlockQuote(_), RenderNodeInfo::BlockQuote(_)) => true, (RenderNodeInfo::Container(_), RenderNodeInfo::Container(_)) => true,
        (RenderNodeInfo::TableCell(x), RenderNodeInfo::TableCell(y)) => x.colspan == y.colspan && x.col_width == y.col_width && x.style == y.style && x.size_estimate == y.size_estimate,
        _ => false,
    }
}
spec fn placed(oc: Seq<RenderNode>, new_child: RenderNode, position: ChildPosition) -> Seq<RenderNode> {
    if position == ChildPosition::Start { seq![new_child] + oc } else { oc.push(new_child) }
}
// a cell with the marker pushed into its content
spec fn cell_placed(oc: RenderTableCell, rc: RenderTableCell, new_child: RenderNode, position: ChildPosition) -> bool {
    rc.content@ == placed(oc.content@, new_child, position) && rc.colspan == oc.colspan && rc.col_width == oc.col_width
        && rc.style == oc.style && rc.size_estimate == oc.size_estimate
}

impl RenderNode {
//@item src/lib.rs :: impl RenderNode :: fn new
//@sub /-> RenderNode/ ==> -> (r: RenderNode)
//@sub /Cell::new\(None\)/ ==> CellOpt::new_none()
    fn new(info: RenderNodeInfo) -> (r: RenderNode)
        ensures r.info == info, //@w @C14 #node_new_info
    {
        RenderNode {
            size_estimate: CellOpt::new_none(),
            info,
            style: Default::default(),
        }
    }
//@end
}
//@item src/lib.rs :: enum ChildPosition
#[derive(Copy, Clone, Eq, PartialEq)] //@w
enum ChildPosition {
    Start,
    End,
}
//@end

//@item src/lib.rs :: fn insert_child
//@rule R15
//@sub /\) -> RenderNode/ ==> ) -> (r: RenderNode)
//@auto C01 C14 C03
fn insert_child(
    new_child: RenderNode,
    mut orig: RenderNode,
    position: ChildPosition,
) -> (r: RenderNode)
    ensures //@w
        // containers, blocks and table cells: the marker becomes the first (Start) / last (End) child, everything else is kept in order (C14)
        kids(orig.info) matches Some(oc) ==> (same_shell(orig.info, r.info) && kids(r.info) == Some(placed(oc, new_child, position)) && r.style == orig.style), //@w @C14 @C03 #marker_first_child
        // table rows, bodies and tables: the marker goes to the first cell of the first row; with no cell there is nothing to attach it to
        orig.info matches RenderNodeInfo::TableRow(orow, v) ==> (r.info matches RenderNodeInfo::TableRow(rrow, rv) && rv == v && r.style == orig.style && rrow.cells@.len() == orow.cells@.len() && rrow.col_sizes == orow.col_sizes && rrow.style == orow.style && (forall|k: int| 1 <= k < orow.cells@.len() ==> #[trigger] rrow.cells@[k] == orow.cells@[k]) && (orow.cells@.len() > 0 ==> (rrow.cells@[0].content@ == placed(orow.cells@[0].content@, new_child, position) && rrow.cells@[0].colspan == orow.cells@[0].colspan && rrow.cells@[0].col_width == orow.cells@[0].col_width && rrow.cells@[0].style == orow.cells@[0].style && rrow.cells@[0].size_estimate == orow.cells@[0].size_estimate))), //@w @C14 @C03 #marker_first_cell_of_row
        orig.info matches RenderNodeInfo::TableBody(orows) ==> (r.info matches RenderNodeInfo::TableBody(rrows) && r.style == orig.style && rrows@.len() == orows@.len() && (forall|k: int| 1 <= k < orows@.len() ==> #[trigger] rrows@[k] == orows@[k]) && (orows@.len() > 0 ==> (rrows@[0].cells@.len() == orows@[0].cells@.len() && rrows@[0].col_sizes == orows@[0].col_sizes && rrows@[0].style == orows@[0].style && (forall|k: int| 1 <= k < orows@[0].cells@.len() ==> #[trigger] rrows@[0].cells@[k] == orows@[0].cells@[k]) && (orows@[0].cells@.len() > 0 ==> (rrows@[0].cells@[0].content@ == placed(orows@[0].cells@[0].content@, new_child, position) && rrows@[0].cells@[0].colspan == orows@[0].cells@[0].colspan && rrows@[0].cells@[0].col_width == orows@[0].cells@[0].col_width && rrows@[0].cells@[0].style == orows@[0].cells@[0].style && rrows@[0].cells@[0].size_estimate == orows@[0].cells@[0].size_estimate))))), //@w @C14 @C03 #marker_first_cell_of_body
        orig.info matches RenderNodeInfo::Table(ot) ==> (r.info matches RenderNodeInfo::Table(rt) && r.style == orig.style && rt.num_columns == ot.num_columns && rt.rows@.len() == ot.rows@.len() && (forall|k: int| 1 <= k < ot.rows@.len() ==> #[trigger] rt.rows@[k] == ot.rows@[k]) && (ot.rows@.len() > 0 ==> (rt.rows@[0].cells@.len() == ot.rows@[0].cells@.len() && rt.rows@[0].col_sizes == ot.rows@[0].col_sizes && rt.rows@[0].style == ot.rows@[0].style && (forall|k: int| 1 <= k < ot.rows@[0].cells@.len() ==> #[trigger] rt.rows@[0].cells@[k] == ot.rows@[0].cells@[k]) && (ot.rows@[0].cells@.len() > 0 ==> (rt.rows@[0].cells@[0].content@ == placed(ot.rows@[0].cells@[0].content@, new_child, position) && rt.rows@[0].cells@[0].colspan == ot.rows@[0].cells@[0].colspan && rt.rows@[0].cells@[0].col_width == ot.rows@[0].cells@[0].col_width && rt.rows@[0].cells@[0].style == ot.rows@[0].cells@[0].style && rt.rows@[0].cells@[0].size_estimate == ot.rows@[0].cells@[0].size_estimate))))), //@w @C14 @C03 #marker_first_cell_of_table
        // anything else (text, inline elements, lists, headings …): a new container holding the marker and the node, marker first for Start
        kids(orig.info).is_none() && !(orig.info is TableRow) && !(orig.info is TableBody) && !(orig.info is Table) ==> //@w[ @C14 @C03 #marker_wraps_node
            (r.info matches RenderNodeInfo::Container(rc) && rc@ == (if position == ChildPosition::Start { seq![new_child, orig] } else { seq![orig, new_child] })), //@w]
{
    use RenderNodeInfo::*;
    html_trace!("insert_child({:?}, {:?}, {:?})", new_child, orig, position);

    match orig.info {
        // For block elements such as Block and Div, we need to insert
        // the node at the front of their children array, otherwise
        // the renderer is liable to drop the fragment start marker
        // _before_ the new line indicating the end of the previous
        // paragraph.
        //
        // For Container, we do the same thing just to make the data
        // less pointlessly nested.
        Block(ref mut children) => {
            match position {
                ChildPosition::Start => children.insert(0, new_child),
                ChildPosition::End => children.push(new_child),
            }
            // Now return orig, but we do that outside the match so
            // that we've given back the borrowed ref 'children'.
        }
        ListItem(ref mut children) => {
            match position {
                ChildPosition::Start => children.insert(0, new_child),
                ChildPosition::End => children.push(new_child),
            }
            // Now return orig, but we do that outside the match so
            // that we've given back the borrowed ref 'children'.
        }
        Dd(ref mut children) => {
            match position {
                ChildPosition::Start => children.insert(0, new_child),
                ChildPosition::End => children.push(new_child),
            }
            // Now return orig, but we do that outside the match so
            // that we've given back the borrowed ref 'children'.
        }
        Dt(ref mut children) => {
            match position {
                ChildPosition::Start => children.insert(0, new_child),
                ChildPosition::End => children.push(new_child),
            }
            // Now return orig, but we do that outside the match so
            // that we've given back the borrowed ref 'children'.
        }
        Dl(ref mut children) => {
            match position {
                ChildPosition::Start => children.insert(0, new_child),
                ChildPosition::End => children.push(new_child),
            }
            // Now return orig, but we do that outside the match so
            // that we've given back the borrowed ref 'children'.
        }
        Div(ref mut children) => {
            match position {
                ChildPosition::Start => children.insert(0, new_child),
                ChildPosition::End => children.push(new_child),
            }
            // Now return orig, but we do that outside the match so
            // that we've given back the borrowed ref 'children'.
        }
        BlockQuote(ref mut children) => {
            match position {
                ChildPosition::Start => children.insert(0, new_child),
                ChildPosition::End => children.push(new_child),
            }
            // Now return orig, but we do that outside the match so
            // that we've given back the borrowed ref 'children'.
        }
        Container(ref mut children) => {
            match position {
                ChildPosition::Start => children.insert(0, new_child),
                ChildPosition::End => children.push(new_child),
            }
            // Now return orig, but we do that outside the match so
            // that we've given back the borrowed ref 'children'.
        }
        TableCell(RenderTableCell {
            content: ref mut children,
            ..
        }) => {
            match position {
                ChildPosition::Start => children.insert(0, new_child),
                ChildPosition::End => children.push(new_child),
            }
            // Now return orig, but we do that outside the match so
            // that we've given back the borrowed ref 'children'.
        }

        // For table rows and tables, push down if there's any content.
        TableRow(ref mut rrow, _) => {
            // If the row is empty, then there isn't really anything
            // to attach the fragment start to.
            if let Some(cell) = rrow.cells.first_mut() {
                match position {
                    ChildPosition::Start => cell.content.insert(0, new_child),
                    ChildPosition::End => cell.content.push(new_child),
                }
            }
        }

        TableBody(ref mut rows) => {
            // If the row is empty, then there isn't really anything
            // to attach the fragment start to.
            if let Some(rrow) = rows.first_mut() {
                if let Some(cell) = rrow.cells.first_mut() {
                    match position {
                        ChildPosition::Start => cell.content.insert(0, new_child),
                        ChildPosition::End => cell.content.push(new_child),
                    }
                }
            }
        }
        Table(RenderTable { ref mut rows, .. }) => {
            // If the row is empty, then there isn't really anything
            // to attach the fragment start to.
            if let Some(rrow) = rows.first_mut() {
                if let Some(cell) = rrow.cells.first_mut() {
                    match position {
                        ChildPosition::Start => cell.content.insert(0, new_child),
                        ChildPosition::End => cell.content.push(new_child),
                    }
                }
            }
        }

        // For anything else, just make a new Container with the
        // new_child node and the original one.
        _ => {
            let result = match position {
                ChildPosition::Start => RenderNode::new(Container(vec![new_child, orig])),
                ChildPosition::End => RenderNode::new(Container(vec![orig, new_child])),
            };
            html_trace!("insert_child() -> {:?}", result);
            return result;
        }
    }
    html_trace!("insert_child() -> {:?}", &orig);
    orig
}
//@end

} // verus!
fn main() {}
