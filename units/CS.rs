//@unit CS — CSS cascade: StyleOrigin, Specificity (+, +=, ordering), WithSpec::maybe_update, Selector::specificity
//@vis pub
//@verus-arg --cfg
//@verus-arg feature="css"
// Trusted (A3): #[derive(PartialOrd)] on StyleOrigin orders by declaration position; bool::partial_cmp is false < true.
use vstd::prelude::*;
use vstd::std_specs::cmp::PartialOrdSpec;
macro_rules! html_trace { ($($t:tt)*) => {} }
macro_rules! html_trace_quiet { ($($t:tt)*) => {} }
verus! {

//@item src/lib.rs :: enum StyleOrigin
#[derive(Debug, Copy, Clone, PartialEq, Eq, Default, PartialOrd)] //@w
pub enum StyleOrigin {
    #[default]
    None,
    Agent,
    #[allow(unused)]
    User,
    #[allow(unused)]
    Author,
}
//@end

//@item src/lib.rs :: struct Specificity
#[derive(Debug, Copy, Clone, PartialEq, Eq)] //@w
pub struct Specificity {
    pub inline: bool,
    pub id: u16,
    pub class: u16,
    pub typ: u16,
}
//@end

// trusted (A3): #[derive(Default)] on Specificity gives inline = false and zero counters
impl Default for Specificity { #[verifier::external_body] fn default() -> (r: Self) ensures !r.inline && r.id == 0 && r.class == 0 && r.typ == 0 { unimplemented!() } }

// ---- the cascade key, taken from the property statement (C19) ----
// importance and origin first: agent < user < author < author !important < user !important < agent !important
pub open spec fn rank(important: bool, o: StyleOrigin) -> int {
    match (important, o) {
        (_, StyleOrigin::None) => 0,
        (false, StyleOrigin::Agent) => 1, (false, StyleOrigin::User) => 2, (false, StyleOrigin::Author) => 3,
        (true, StyleOrigin::Author) => 4, (true, StyleOrigin::User) => 5, (true, StyleOrigin::Agent) => 6,
    }
}
// then inline style over selector rules, then ids, then classes/pseudo-classes, then element names
pub open spec fn spec_lt(a: Specificity, b: Specificity) -> bool {
    (!a.inline && b.inline) || (a.inline == b.inline && (a.id < b.id || (a.id == b.id && (a.class < b.class || (a.class == b.class && a.typ < b.typ)))))
}
// then source order, the last declaration winning: the new declaration wins iff its key is >= the stored one
pub open spec fn key_ge(i1: bool, o1: StyleOrigin, s1: Specificity, i0: bool, o0: StyleOrigin, s0: Specificity) -> bool {
    rank(i1, o1) > rank(i0, o0) || (rank(i1, o1) == rank(i0, o0) && !spec_lt(s1, s0))
}
pub open spec fn oidx(o: StyleOrigin) -> int { match o { StyleOrigin::None => 0, StyleOrigin::Agent => 1, StyleOrigin::User => 2, StyleOrigin::Author => 3 } }
pub open spec fn sat16(x: int) -> u16 { if x > u16::MAX { u16::MAX } else { x as u16 } }
pub open spec fn add_fits(a: Specificity, b: Specificity) -> bool { true }
pub open spec fn add_val(a: Specificity, b: Specificity) -> Specificity {
    Specificity { inline: a.inline || b.inline, id: sat16(a.id + b.id), class: sat16(a.class + b.class), typ: sat16(a.typ + b.typ) }
}

#[verifier::external_body]
pub proof fn axiom_bool_partial_cmp()
    ensures <bool as PartialOrdSpec>::obeys_partial_cmp_spec(),
            forall|a: bool, b: bool| #[trigger] a.partial_cmp_spec(&b) == (if a == b { Some(core::cmp::Ordering::Equal) } else if !a && b { Some(core::cmp::Ordering::Less) } else { Some(core::cmp::Ordering::Greater) }),
{}
impl vstd::std_specs::cmp::PartialOrdSpecImpl for StyleOrigin {
    open spec fn obeys_partial_cmp_spec() -> bool { true }
    open spec fn partial_cmp_spec(&self, other: &StyleOrigin) -> Option<core::cmp::Ordering> {
        if oidx(*self) < oidx(*other) { Some(core::cmp::Ordering::Less) } else if oidx(*self) > oidx(*other) { Some(core::cmp::Ordering::Greater) } else { Some(core::cmp::Ordering::Equal) }
    }
}
// The contracts of the trait impls below: Verus checks the real bodies of add / add_assign / partial_cmp against these.
impl<'a> vstd::std_specs::ops::AddSpecImpl<&'a Specificity> for &'a Specificity {
    open spec fn obeys_add_spec() -> bool { true }
    open spec fn add_req(self, rhs: &Specificity) -> bool { add_fits(*self, *rhs) }           //@w @C01 #spec_add_no_overflow
    open spec fn add_spec(self, rhs: &Specificity) -> Specificity { add_val(*self, *rhs) }     //@w @C18 @C19 @C20 #spec_add_value
}
impl<'a> vstd::std_specs::ops::AddAssignSpecImpl<&'a Specificity> for Specificity {
    open spec fn obeys_add_assign_spec() -> bool { true }
    open spec fn add_assign_req(&self, rhs: &Specificity) -> bool { add_fits(*self, *rhs) }    //@w @C01 #spec_addassign_no_overflow
    open spec fn add_assign_spec(&self, rhs: &Specificity) -> &Specificity { &add_val(*self, *rhs) } //@w @C18 @C19 @C20 #spec_addassign_value
}
impl vstd::std_specs::cmp::PartialOrdSpecImpl for Specificity {
    open spec fn obeys_partial_cmp_spec() -> bool { true }
    open spec fn partial_cmp_spec(&self, other: &Specificity) -> Option<core::cmp::Ordering> {     //@w @C18 @C19 #specificity_order_is_lexicographic
        if spec_lt(*self, *other) { Some(core::cmp::Ordering::Less) }
        else if spec_lt(*other, *self) { Some(core::cmp::Ordering::Greater) }
        else { Some(core::cmp::Ordering::Equal) }
    }
}

impl Specificity {
//@item src/lib.rs :: impl Specificity :: fn inline
//@sub /-> Self/ ==> -> (r: Self)
//@auto C01 C19 C18
    fn inline() -> (r: Self)
        ensures r.inline && r.id == 0 && r.class == 0 && r.typ == 0, //@w @C18 @C19 #inline_specificity
    {
        Specificity {
            inline: true,
            id: 0,
            class: 0,
            typ: 0,
        }
    }
//@end
}

impl std::ops::Add<&Specificity> for &Specificity {
    type Output = Specificity;
//@item src/lib.rs :: impl Add<&Specificity> :: fn add
//@auto C01 C19 C20 C18
    fn add(self, rhs: &Specificity) -> Self::Output
    {
        Specificity {
            inline: self.inline || rhs.inline,
            id: self.id.saturating_add(rhs.id),
            class: self.class.saturating_add(rhs.class),
            typ: self.typ.saturating_add(rhs.typ),
        }
    }
//@end
}

impl std::ops::AddAssign<&Specificity> for Specificity {
//@item src/lib.rs :: impl AddAssign<&Specificity> :: fn add_assign
//@auto C01 C19 C20 C18
    fn add_assign(&mut self, rhs: &Specificity)
    {
        self.inline = self.inline || rhs.inline;
        self.id = self.id.saturating_add(rhs.id);
        self.class = self.class.saturating_add(rhs.class);
        self.typ = self.typ.saturating_add(rhs.typ);
    }
//@end
}

impl PartialOrd for Specificity {
//@item src/lib.rs :: impl PartialOrd for Specificity :: fn partial_cmp
//@auto C01 C19 C18
    fn partial_cmp(&self, other: &Self) -> Option<std::cmp::Ordering>
    {
        proof { axiom_bool_partial_cmp(); } //@w
        match self.inline.partial_cmp(&other.inline) {
            Some(core::cmp::Ordering::Equal) => {}
            ord => return ord,
        }
        match self.id.partial_cmp(&other.id) {
            Some(core::cmp::Ordering::Equal) => {}
            ord => return ord,
        }
        match self.class.partial_cmp(&other.class) {
            Some(core::cmp::Ordering::Equal) => {}
            ord => return ord,
        }
        self.typ.partial_cmp(&other.typ)
    }
//@end
}

//@item src/lib.rs :: struct WithSpec
#[derive(Clone, Copy, Debug)] //@w
pub struct WithSpec<T> {
    pub val: Option<T>,
    pub origin: StyleOrigin,
    pub specificity: Specificity,
    pub important: bool,
}
//@end

impl<T: Clone> WithSpec<T> {
//@item src/lib.rs :: impl WithSpec :: fn maybe_update
//@auto C01 C19 C18
    pub fn maybe_update(
        &mut self,
        important: bool,
        origin: StyleOrigin,
        specificity: Specificity,
        val: T,
    )
        requires origin != StyleOrigin::None, //@w
            old(self).val.is_some() && old(self).origin == StyleOrigin::None ==> !old(self).important, //@w
        ensures //@w
            old(self).val.is_none() || key_ge(important, origin, specificity, old(self).important, old(self).origin, old(self).specificity) //@w @C18 @C19 #cascade_new_wins
                ==> final(self).val == Some(val) && final(self).origin == origin && final(self).specificity == specificity && final(self).important == important, //@w @C18 @C19 #cascade_new_wins
            !(old(self).val.is_none() || key_ge(important, origin, specificity, old(self).important, old(self).origin, old(self).specificity)) //@w @C18 @C19 #cascade_old_stays
                ==> *final(self) == *old(self), //@w @C18 @C19 #cascade_old_stays
    {
        if self.val.is_some() {
            // We already have a value, so need to check.
            if self.important && !important {
                // important takes priority over not important.
                return;
            }
            if self.important == important {
                // importance is the same.  Next is checking the origin.
                use StyleOrigin::*;
                match (self.origin, origin) {
                    (Agent, Agent) | (User, User) | (Author, Author) => {
                        // We're now from the same origin and importance
                        if specificity < self.specificity {
                            return;
                        }
                    }
                    (mine, theirs) => {
                        if (important && theirs > mine) || (!important && mine > theirs) {
                            return;
                        }
                    }
                }
            }
            // Otherwise the new value is important and the old one is not: it wins.
        }
        self.val = Some(val);
        self.origin = origin;
        self.specificity = specificity;
        self.important = important;
    }
//@end
}

// ---------------------------------------------------------------------------------------------
// Selector specificity (src/css.rs:182-207): ids, then classes and pseudo-classes, then element names (C19, C20)
//@item src/css.rs :: enum SelectorComponent
pub enum SelectorComponent {
    Class(String),
    Element(String),
    Hash(String),
    Star,
    CombChild,
    CombDescendant,
    NthChild {
        /* An + B [of sel] */
        a: i32,
        b: i32,
        sel: Selector,
    },
}
//@end
//@item src/css.rs :: enum PseudoElement
pub enum PseudoElement {
    Before,
    After,
}
//@end
//@item src/css.rs :: struct Selector
pub struct Selector {
    // List of components, right first so we match from the leaf.
    pub components: Vec<SelectorComponent>,
    pub pseudo_element: Option<PseudoElement>,
}
//@end

// the specificity of a selector, from the property (C19/C20): (ids, classes + pseudo-classes, element names); the argument
// selector of :nth-child counts too
pub open spec fn comp_counts(c: SelectorComponent) -> (nat, nat, nat) decreases c {
    match c {
        SelectorComponent::Class(_) => (0, 1, 0),
        SelectorComponent::Element(_) => (0, 0, 1),
        SelectorComponent::Hash(_) => (1, 0, 0),
        SelectorComponent::NthChild { a, b, sel } => { let s = comps_counts(sel.components@, sel.components@.len() as int); (s.0, s.1 + 1, s.2) },
        _ => (0, 0, 0),
    }
}
pub open spec fn comps_counts(cs: Seq<SelectorComponent>, k: int) -> (nat, nat, nat) decreases cs, k {
    if k <= 0 || k > cs.len() { (0, 0, 0) } else {
        let p = comps_counts(cs, k - 1);
        let c = comp_counts(cs[k - 1]);
        (p.0 + c.0, p.1 + c.1, p.2 + c.2)
    }
}
pub open spec fn sel_counts(s: Selector) -> (nat, nat, nat) { comps_counts(s.components@, s.components@.len() as int) }

proof fn lemma_counts_mono(cs: Seq<SelectorComponent>, a: int, b: int)
    requires 0 <= a <= b <= cs.len(),
    ensures comps_counts(cs, a).0 <= comps_counts(cs, b).0, comps_counts(cs, a).1 <= comps_counts(cs, b).1, comps_counts(cs, a).2 <= comps_counts(cs, b).2,
    decreases b - a
{ if a < b { lemma_counts_mono(cs, a, b - 1); } }

impl Selector {
//@item src/css.rs :: impl Selector :: fn specificity
//@sub /-> Specificity/ ==> -> (r: Specificity)
//@sub /for component in &self\.components/ ==> for component in it: &self.components
//@auto C01 C19 C20 C18
    fn specificity(&self) -> (r: Specificity)
        ensures //@w
            !r.inline && r.id == sat16(sel_counts(*self).0 as int) && r.class == sat16(sel_counts(*self).1 as int) && r.typ == sat16(sel_counts(*self).2 as int), //@w @C18 @C19 @C20 #specificity_counts_ids_classes_elements
        decreases self, //@w
    {
        let mut result: Specificity = Default::default();

        for component in it: &self.components
            invariant //@w
                !result.inline, //@w
                result.id == sat16(comps_counts(self.components@, it.index@).0 as int), result.class == sat16(comps_counts(self.components@, it.index@).1 as int), result.typ == sat16(comps_counts(self.components@, it.index@).2 as int), //@w @C18 @C19 @C20 #specificity_counts_ids_classes_elements
        {
            proof { //@w
                let k = it.index@; //@w
                assert(*component == self.components@[k]); //@w
                lemma_counts_mono(self.components@, k + 1, self.components@.len() as int); //@w
                let cs = self.components@; //@w
                let p = comps_counts(cs, k); let c = comp_counts(cs[k]); //@w
                assert(comps_counts(cs, k + 1) == (p.0 + c.0, p.1 + c.1, p.2 + c.2)); //@w
                if let SelectorComponent::NthChild { a, b, sel } = cs[k] { //@w
                    let sc = comps_counts(sel.components@, sel.components@.len() as int); //@w
                    assert(c == (sc.0, sc.1 + 1, sc.2)); //@w
                } //@w
            } //@w
            match component {
                SelectorComponent::Class(_) => {
                    result.class = result.class.saturating_add(1);
                }
                SelectorComponent::Element(_) => {
                    result.typ = result.typ.saturating_add(1);
                }
                SelectorComponent::Hash(_) => {
                    result.id = result.id.saturating_add(1);
                }
                SelectorComponent::Star => {}
                SelectorComponent::CombChild => {}
                SelectorComponent::CombDescendant => {}
                SelectorComponent::NthChild { sel, .. } => {
                    result.class = result.class.saturating_add(1);
                    result += &sel.specificity();
                }
            }
        }

        result
    }
//@end
}

} // verus!
fn main() {}
