//@unit TB — table layout: SizeEstimate, column width allocation slice of render_table_tree (src/lib.rs:2233-2285)
// Slice: the statements from `let tot_size` up to (not including) `let table_width`; free variables become parameters:
//   col_sizes (computed by the spreading loop above the slice), renderer.width() -> width_in, renderer.options.raw -> raw.
// Trusted (A3): std `min`/`max`, `iter().map(f).collect()`, `iter().sum()`, `iter().enumerate().max_by_key(f)`.
use vstd::prelude::*;
use vstd::arithmetic::mul::*;
use vstd::arithmetic::div_mod::*;
macro_rules! html_trace { ($($t:tt)*) => {} }
macro_rules! html_trace_quiet { ($($t:tt)*) => {} }
verus! {
global size_of usize == 8;

// std::cmp::{min, max} at usize (R13)
fn min(a: usize, b: usize) -> (r: usize) ensures r == (if a <= b { a } else { b }) { if a <= b { a } else { b } }
fn max(a: usize, b: usize) -> (r: usize) ensures r == (if a >= b { a } else { b }) { if a >= b { a } else { b } }

spec fn in_range(v: Seq<usize>, j: usize) -> bool { j < v.len() }
spec fn key_le(a: (usize, usize, usize), b: (usize, usize, usize)) -> bool {
    a.0 < b.0 || (a.0 == b.0 && (a.1 < b.1 || (a.1 == b.1 && a.2 <= b.2)))
}
// std: Iterator::max_by_key over slice.iter().enumerate(): returns an element whose key is maximal
#[verifier::external_body]
fn enum_max_by_key<F: Fn(&(usize, &usize)) -> (usize, usize, usize)>(v: &Vec<usize>, f: F) -> (r: Option<(usize, &usize)>)
    requires forall|j: usize| j < v.len() ==> #[trigger] call_requires(f, (&(j, &v@[j as int]),)),
    ensures
        v.len() == 0 ==> r.is_none(),
        v.len() > 0 ==> (r matches Some(p) && p.0 < v.len() && *p.1 == v[p.0 as int]
            && exists|ki: (usize, usize, usize)| #[trigger] call_ensures(f, (&(p.0, p.1),), ki)
                && forall|j: usize| #[trigger] in_range(v@, j) ==> exists|kj: (usize, usize, usize)| #[trigger] call_ensures(f, (&(j, &v@[j as int]),), kj) && key_le(kj, ki)),
{ unimplemented!() }
// std: slice.iter().map(f).collect::<Vec<usize>>() applies f pointwise
#[verifier::external_body]
fn map_collect<F: Fn(&SizeEstimate) -> usize>(v: &Vec<SizeEstimate>, f: F) -> (r: Vec<usize>)
    requires forall|i: int| 0 <= i < v@.len() ==> call_requires(f, (&#[trigger] v@[i],)),
    ensures r@.len() == v@.len(), forall|i: int| 0 <= i < v@.len() ==> call_ensures(f, (&v@[i],), #[trigger] r@[i]),
{ v.iter().map(f).collect() }

spec fn ssum(s: Seq<usize>) -> nat decreases s.len() { if s.len() == 0 { 0 } else { ssum(s.drop_last()) + s.last() as nat } }
proof fn lemma_ssum_update_dec(s: Seq<usize>, i: int)
    requires 0 <= i < s.len(), s[i] >= 1,
    ensures ssum(s.update(i, (s[i] - 1) as usize)) == ssum(s) - 1,
    decreases s.len()
{
    if i == s.len() - 1 {
        assert(s.update(i, (s[i] - 1) as usize).drop_last() =~= s.drop_last());
    } else {
        assert(s.update(i, (s[i] - 1) as usize).drop_last() =~= s.drop_last().update(i, (s[i] - 1) as usize));
        lemma_ssum_update_dec(s.drop_last(), i);
    }
}
proof fn lemma_ssum_prefix_le(s: Seq<usize>, k: int)
    requires 0 <= k <= s.len(),
    ensures ssum(s.take(k)) <= ssum(s),
    decreases s.len() - k
{
    if k < s.len() {
        assert(s.take(k + 1).drop_last() =~= s.take(k));
        lemma_ssum_prefix_le(s, k + 1);
    } else { assert(s.take(k) =~= s); }
}
proof fn lemma_ssum_ge(s: Seq<usize>, i: int)
    requires 0 <= i < s.len(),
    ensures s[i] <= ssum(s),
    decreases s.len()
{ if i < s.len() - 1 { lemma_ssum_ge(s.drop_last(), i); } }
proof fn lemma_ssum_pointwise_le(a: Seq<usize>, b: Seq<usize>)
    requires a.len() == b.len(), forall|i: int| 0 <= i < a.len() ==> a[i] <= b[i],
    ensures ssum(a) <= ssum(b),
    decreases a.len()
{ if a.len() > 0 { lemma_ssum_pointwise_le(a.drop_last(), b.drop_last()); } }
// R7 lowering target for `v.iter().sum::<usize>()` (proved, not trusted); the overflow check of `sum` is the requires
fn vsum(v: &Vec<usize>) -> (r: usize)
    requires ssum(v@) <= usize::MAX,
    ensures r == ssum(v@),
{
    let mut acc = 0usize;
    for k in 0..v.len()
        invariant acc == ssum(v@.take(k as int)), ssum(v@) <= usize::MAX,
    {
        proof {
            assert(v@.take(k as int + 1).drop_last() =~= v@.take(k as int));
            lemma_ssum_prefix_le(v@, k as int + 1);
        }
        acc += v[k];
    }
    proof { assert(v@.take(v.len() as int) =~= v@); }
    acc
}

//@item src/lib.rs :: struct SizeEstimate
#[derive(Debug, Copy, Clone, Default)] //@w
struct SizeEstimate {
    size: usize,      // Rough overall size
    min_width: usize, // The narrowest possible

    // The use is specific to the node type.
    prefix_size: usize,
}
//@end

spec fn sizes(cs: Seq<SizeEstimate>) -> Seq<usize> { cs.map(|i: int, e: SizeEstimate| e.size) }
spec fn mins(cs: Seq<SizeEstimate>) -> Seq<usize> { cs.map(|i: int, e: SizeEstimate| e.min_width) }
// R7: `col_sizes.iter().map(|est| est.size).sum()` / `.map(|est| est.min_width).sum::<usize>()`
fn sum_sizes(v: &Vec<SizeEstimate>) -> (r: usize)
    requires ssum(sizes(v@)) <= usize::MAX,
    ensures r == ssum(sizes(v@)),
{
    let mut acc = 0usize;
    for k in 0..v.len()
        invariant acc == ssum(sizes(v@).take(k as int)), ssum(sizes(v@)) <= usize::MAX,
    {
        proof {
            assert(sizes(v@).take(k as int + 1).drop_last() =~= sizes(v@).take(k as int));
            lemma_ssum_prefix_le(sizes(v@), k as int + 1);
        }
        acc += v[k].size;
    }
    proof { assert(sizes(v@).take(v.len() as int) =~= sizes(v@)); }
    acc
}
fn sum_mins(v: &Vec<SizeEstimate>) -> (r: usize)
    requires ssum(mins(v@)) <= usize::MAX,
    ensures r == ssum(mins(v@)),
{
    let mut acc = 0usize;
    for k in 0..v.len()
        invariant acc == ssum(mins(v@).take(k as int)), ssum(mins(v@)) <= usize::MAX,
    {
        proof {
            assert(mins(v@).take(k as int + 1).drop_last() =~= mins(v@).take(k as int));
            lemma_ssum_prefix_le(mins(v@), k as int + 1);
        }
        acc += v[k].min_width;
    }
    proof { assert(mins(v@).take(v.len() as int) =~= mins(v@)); }
    acc
}
proof fn lemma_exists_slack(w: Seq<usize>, cs: Seq<SizeEstimate>)
    requires w.len() == cs.len(), ssum(w) > ssum(mins(cs)),
    ensures exists|j: int| 0 <= j < w.len() && w[j] > cs[j].min_width,
    decreases w.len()
{
    if w.len() == 0 { } else {
        assert(mins(cs).drop_last() =~= mins(cs.drop_last()));
        if w.last() > cs.last().min_width { assert(w[w.len() - 1] > cs[w.len() - 1].min_width); }
        else {
            lemma_exists_slack(w.drop_last(), cs.drop_last());
            let j = choose|j: int| 0 <= j < w.drop_last().len() && w.drop_last()[j] > cs.drop_last()[j].min_width;
            assert(w[j] > cs[j].min_width);
        }
    }
}

// the initial (proportional) width of one column, as the property sees it: never more than its content,
// never below its minimum when the content allows it, zero only for an empty column
spec fn init_ok(sz: SizeEstimate, w: usize) -> bool {
    &&& w <= sz.size
    &&& (sz.size == 0 ==> w == 0)
    &&& (sz.size >= sz.min_width ==> w >= sz.min_width)
    &&& (sz.size > 0 && sz.min_width > 0 ==> w > 0)
}

//@slice src/lib.rs :: fn render_table_tree :: /let tot_size: usize =/ .. /let table_width = if vert_row/
//@name alloc_slice
//@auto C01 C06 C02
//@sub /col_sizes\.iter\(\)\.map\(\|est\| est\.size\)\.sum\(\)/ ==> sum_sizes(&col_sizes)
//@sub /col_sizes\.iter\(\)\.map\(\|est\| est\.min_width\)\.sum::<usize>\(\)/ ==> sum_mins(&col_sizes)
//@sub /renderer\.width\(\)/ ==> width_in
//@sub /renderer\.options\.raw/ ==> raw
//@sub /col_sizes\s*\.iter\(\)\s*\.map\(\|sz\| \{/ ==> map_collect(&col_sizes, |sz: &SizeEstimate| -> (w: usize) requires width > 0, sz.size <= tot_size, sz.size > 0 ==> tot_size > 0 ensures init_ok(*sz, w) {
//@sub /\}\)\s*\.collect\(\)\s*\} else \{/ ==> })\n    } else {
//@sub /col_sizes\.iter\(\)\.map\(\|_\| width\)\.collect\(\)/ ==> map_collect(&col_sizes, |_p0: &SizeEstimate| -> (w: usize) ensures w == width { width })
//@sub /col_widths\.iter\(\)\.sum::<usize>\(\)/ ==> vsum(&col_widths)
//@sub /let \(i, _\) = col_widths\s*\.iter\(\)\s*\.enumerate\(\)\s*\.max_by_key\(\|&\(colno, width\)\| \{/ ==> let keyf = |p: &(usize, &usize)| -> (k: (usize, usize, usize)) requires p.0 < col_sizes.len() ensures k.0 == (if *p.1 >= col_sizes[p.0 as int].min_width { *p.1 - col_sizes[p.0 as int].min_width } else { 0 }) as usize {\n                    let colno = p.0; let width = *p.1;
//@sub /\}\)\s*\.unwrap\(\);/ ==> };\n                let (i, _p1) = enum_max_by_key(&col_widths, keyf).unwrap();
fn alloc_slice(col_sizes: Vec<SizeEstimate>, width_in: usize, raw: bool) -> (r: (Vec<usize>, bool)) //@w
    requires //@w
        // A5 / A6 boundary: accumulated sizes stay far below usize::MAX //@w
        ssum(sizes(col_sizes@)) <= 0x1000_0000_0000_0000, ssum(mins(col_sizes@)) <= 0x1000_0000_0000_0000, col_sizes@.len() <= 0x1000_0000_0000_0000, //@w
    ensures //@w
        r.0@.len() == col_sizes@.len(), //@w
        // the side-by-side / stacked decision (C05, C06): stacked iff raw mode, or the minimum widths plus separators do not fit //@w
        r.1 == (raw || width_in == 0 || ssum(mins(col_sizes@)) + (if col_sizes@.len() > 0 { col_sizes@.len() - 1 } else { 0 }) > width_in), //@w @C05 @C06 @C11 #vertical_decision
        // stacked: every cell gets the full width //@w
        r.1 ==> forall|i: int| 0 <= i < r.0@.len() ==> #[trigger] r.0@[i] == width_in, //@w @C05 @C02 #stacked_full_width
        // side by side: column widths plus one separator between columns never exceed the width given to the table //@w
        !r.1 && col_sizes@.len() > 0 ==> ssum(r.0@) + (col_sizes@.len() - 1) <= width_in, //@w @C02 @C06 #columns_fit_width
        // a column never gets more than its content needs, zero only if it is empty, and never less than its minimum //@w
        !r.1 ==> forall|i: int| 0 <= i < r.0@.len() ==> init_ok(col_sizes@[i], #[trigger] r.0@[i]), //@w @C06 @C03 #column_keeps_min_width
{ //@w
    proof { //@w
        assert(sizes(col_sizes@).len() == col_sizes@.len()); //@w
        assert forall|i: int| 0 <= i < col_sizes@.len() implies (#[trigger] col_sizes@[i]).size <= ssum(sizes(col_sizes@)) by { lemma_ssum_ge(sizes(col_sizes@), i); } //@w
    } //@w
    let tot_size: usize = sum_sizes(&col_sizes);
    let min_size: usize = sum_mins(&col_sizes)
        + col_sizes.len().saturating_sub(1);
    let width = width_in;

    let vert_row = raw || (min_size > width || width == 0);

    let mut col_widths: Vec<usize> = if !vert_row {
        map_collect(&col_sizes, |sz: &SizeEstimate| -> (w: usize) requires width > 0, sz.size <= tot_size, sz.size > 0 ==> tot_size > 0 ensures init_ok(*sz, w) {
                if sz.size == 0 {
                    0
                } else {
                    proof { //@w
                        // (width / tot_size) * size <= width   because size <= tot_size //@w
                        lemma_mul_inequality(sz.size as int, tot_size as int, (width / tot_size) as int); //@w
                        lemma_mul_is_commutative(sz.size as int, (width / tot_size) as int); //@w
                        lemma_mul_is_commutative(tot_size as int, (width / tot_size) as int); //@w
                        lemma_fundamental_div_mod(width as int, tot_size as int); //@w
                        // size < usize::MAX / width  ==>  size * width <= usize::MAX //@w
                        if usize::MAX / width > sz.size { //@w
                            lemma_mul_inequality(sz.size as int, (usize::MAX / width) as int, width as int); //@w
                            lemma_fundamental_div_mod(usize::MAX as int, width as int); //@w
                            lemma_mul_is_commutative(width as int, (usize::MAX / width) as int); //@w
                        } //@w
                    } //@w
                    min(
                        sz.size,
                        if usize::MAX / width <= sz.size {
                            // The provided width is too large to multiply by width,
                            // so do it the other way around.
                            max((width / tot_size) * sz.size, sz.min_width)
                        } else {
                            max(sz.size * width / tot_size, sz.min_width)
                        },
                    )
                }
            })
    } else {
        map_collect(&col_sizes, |_p0: &SizeEstimate| -> (w: usize) ensures w == width { width })
    };
    proof { //@w
        if !vert_row { //@w
            assert forall|i: int| 0 <= i < col_widths@.len() implies col_widths@[i] <= sizes(col_sizes@)[i] by { assert(init_ok(col_sizes@[i], col_widths@[i])); } //@w
            lemma_ssum_pointwise_le(col_widths@, sizes(col_sizes@)); //@w
        } //@w
    } //@w

    if !vert_row {
        let num_cols = col_widths.len();
        if num_cols > 0 {
            loop
                invariant //@w
                    col_widths.len() == col_sizes.len(), num_cols == col_sizes.len(), num_cols > 0, //@w
                    ssum(col_widths@) <= 0x1000_0000_0000_0000, col_sizes@.len() <= 0x1000_0000_0000_0000, //@w
                    ssum(mins(col_sizes@)) + (col_sizes.len() - 1) <= width, //@w
                    forall|j: int| 0 <= j < col_widths@.len() ==> init_ok(col_sizes@[j], #[trigger] col_widths@[j]), //@w
                ensures //@w
                    ssum(col_widths@) + (num_cols - 1) <= width, col_widths.len() == col_sizes.len(), //@w
                    forall|j: int| 0 <= j < col_widths@.len() ==> init_ok(col_sizes@[j], #[trigger] col_widths@[j]), //@w
                decreases ssum(col_widths@), //@w
            {
                let cur_width = vsum(&col_widths) + num_cols - 1;
                if cur_width <= width {
                    break;
                }
                proof { lemma_exists_slack(col_widths@, col_sizes@); } //@w
                let ghost cw0 = col_widths@; //@w
                let keyf = |p: &(usize, &usize)| -> (k: (usize, usize, usize)) requires p.0 < col_sizes.len() ensures k.0 == (if *p.1 >= col_sizes[p.0 as int].min_width { *p.1 - col_sizes[p.0 as int].min_width } else { 0 }) as usize {
                    let colno = p.0; let width = *p.1;
                        (
                            width.saturating_sub(col_sizes[colno].min_width),
                            width,
                            usize::MAX - colno,
                        )
                    };
                let (i, _p1) = enum_max_by_key(&col_widths, keyf).unwrap();
                proof { //@w
                    let j = choose|j: int| 0 <= j < cw0.len() && cw0[j] > col_sizes@[j].min_width; //@w
                    let ki = choose|ki: (usize, usize, usize)| #[trigger] call_ensures(keyf, (&(i, _p1),), ki) //@w
                        && forall|j: usize| #[trigger] in_range(cw0, j) ==> exists|kj: (usize, usize, usize)| #[trigger] call_ensures(keyf, (&(j, &cw0[j as int]),), kj) && key_le(kj, ki); //@w
                    assert(in_range(cw0, j as usize)); //@w
                    let kj = choose|kj: (usize, usize, usize)| #[trigger] call_ensures(keyf, (&(j as usize, &cw0[j]),), kj) && key_le(kj, ki); //@w
                    assert(kj.0 >= 1); //@w
                    assert(ki.0 >= 1); //@w
                    assert(cw0[i as int] >= 1 + col_sizes@[i as int].min_width); //@w
                    lemma_ssum_update_dec(cw0, i as int); //@w
                } //@w
                col_widths[i] -= 1;
            }
        }
    }
    (col_widths, vert_row) //@w
} //@w
//@end


// ---------------------------------------------------------------------------------------------
// Table rows and cells.  R10: ComputedStyle, the cell content (Vec<RenderNode>) and the Cell<Option<SizeEstimate>>
// cache are opaque here; RenderNode/RenderNodeInfo are reduced to the constructor this code uses.
struct ComputedStyle { x: u8 }
impl Clone for ComputedStyle { fn clone(&self) -> (r: Self) ensures r == *self { ComputedStyle { x: self.x } } }
struct Content { x: u8 }
struct CellOpt { x: u8 }
enum RenderNodeInfo { TableCell(RenderTableCell), Other }
struct RenderNode { info: RenderNodeInfo, style: ComputedStyle }
impl RenderNode {
    fn new_styled(info: RenderNodeInfo, style: ComputedStyle) -> (r: RenderNode) ensures r.info == info, r.style == style { RenderNode { info, style } }
}
// R7: `col_sizes[a..b].iter().sum::<usize>()`: slicing panics unless a <= b <= len (the requires), sum of the range
spec fn rsum(s: Seq<usize>, a: int, b: int) -> nat decreases b - a { if a >= b { 0 } else { rsum(s, a, b - 1) + s[b - 1] as nat } }
fn range_sum(v: &Vec<usize>, a: usize, b: usize) -> (r: usize)
    requires a <= b <= v@.len(), rsum(v@, a as int, b as int) <= usize::MAX,
    ensures r == rsum(v@, a as int, b as int),
{
    let mut acc = 0usize;
    let mut k = a;
    while k < b
        invariant a <= k <= b <= v@.len(), acc == rsum(v@, a as int, k as int), rsum(v@, a as int, b as int) <= usize::MAX,
        decreases b - k,
    {
        proof { lemma_rsum_mono(v@, a as int, k as int + 1, b as int); }
        acc += v[k];
        k += 1;
    }
    acc
}
proof fn lemma_rsum_le_ssum(s: Seq<usize>, a: int, b: int)
    requires 0 <= a <= b <= s.len(),
    ensures rsum(s, a, b) <= ssum(s),
    decreases s.len()
{
    if b < s.len() { lemma_rsum_le_ssum(s.drop_last(), a, b); lemma_rsum_drop(s, a, b); }
    else if a < b { lemma_rsum_le_ssum(s.drop_last(), a, b - 1); lemma_rsum_drop(s, a, b - 1); }
}
proof fn lemma_rsum_drop(s: Seq<usize>, a: int, b: int)
    requires 0 <= a <= b < s.len(),
    ensures rsum(s.drop_last(), a, b) == rsum(s, a, b),
    decreases b - a
{ if a < b { lemma_rsum_drop(s, a, b - 1); } }
proof fn lemma_rsum_mono(s: Seq<usize>, a: int, k: int, b: int)
    requires a <= k <= b,
    ensures rsum(s, a, k) <= rsum(s, a, b),
    decreases b - k
{ if k < b { lemma_rsum_mono(s, a, k, b - 1); } }

//@item src/lib.rs :: struct RenderTableCell
//@sub /content: Vec<RenderNode>/ ==> content: Content
//@sub /size_estimate: Cell<Option<SizeEstimate>>/ ==> size_estimate: CellOpt
struct RenderTableCell {
    colspan: usize,
    content: Content,
    size_estimate: CellOpt,
    col_width: Option<usize>, // Actual width to use
    style: ComputedStyle,
}
//@end

//@item src/lib.rs :: struct RenderTableRow
struct RenderTableRow {
    cells: Vec<RenderTableCell>,
    col_sizes: Option<Vec<usize>>,
    style: ComputedStyle,
}
//@end

// column index reached after the first k cells
spec fn colno_upto(cells: Seq<RenderTableCell>, k: int) -> nat decreases k { if k <= 0 { 0 } else { colno_upto(cells, k - 1) + cells[k - 1].colspan as nat } }
// number of columns in [a, b) that are drawn (a column without width is not drawn and has no separator)
spec fn drawn(cs: Seq<usize>, a: int, b: int) -> nat decreases b - a { if b <= a { 0 } else { drawn(cs, a, b - 1) + if cs[b - 1] > 0 { 1nat } else { 0nat } } }
proof fn lemma_drawn_le(cs: Seq<usize>, a: int, b: int) ensures drawn(cs, a, b) <= (if b >= a { b - a } else { 0 }) decreases b - a { if b > a { lemma_drawn_le(cs, a, b - 1); } }
// the width a cell is given (C05/C06: every line of the table has the same width, bars in the same columns): stacked rows give
// every cell the full width; side by side a cell gets the widths of the columns it spans plus the separators between the DRAWN ones
spec fn cell_width(cs: Seq<usize>, colno: int, colspan: int, vertical: bool) -> nat {
    if vertical { cs[colno] as nat } else { (rsum(cs, colno, colno + colspan) + drawn(cs, colno, colno + colspan) - 1) as nat }
}
// every spanned column is drawn (D15: the code counts one separator per spanned column, drawn or not)
spec fn all_drawn(cs: Seq<usize>, colno: int, colspan: int) -> bool { drawn(cs, colno, colno + colspan) == colspan }
spec fn cell_kept(cs: Seq<usize>, colno: int, colspan: int, vertical: bool) -> bool {
    if vertical { cs[colno] > 0 } else { rsum(cs, colno, colno + colspan) > 0 }
}
// indices (into the row) of the cells that are emitted after the first k cells
spec fn kept_upto(cells: Seq<RenderTableCell>, cs: Seq<usize>, vertical: bool, k: int) -> Seq<int> decreases k {
    if k <= 0 { Seq::empty() } else {
        let p = kept_upto(cells, cs, vertical, k - 1);
        if cell_kept(cs, colno_upto(cells, k - 1) as int, cells[k - 1].colspan as int, vertical) { p.push(k - 1) } else { p }
    }
}

proof fn lemma_colno_mono(cells: Seq<RenderTableCell>, a: int, b: int)
    requires 0 <= a <= b,
    ensures colno_upto(cells, a) <= colno_upto(cells, b),
    decreases b - a
{ if a < b { lemma_colno_mono(cells, a, b - 1); } }
impl RenderTableRow {
//@item src/lib.rs :: impl RenderTableRow :: fn into_cells
//@auto C01 C03 C06
//@sub /-> Vec<RenderNode>/ ==> -> (result: Vec<RenderNode>)
//@sub /let mut result = Vec::new\(\);/ ==> let mut result: Vec<RenderNode> = Vec::new();
//@sub /for mut cell in self\.cells/ ==> let cells = self.cells;\n        for cell0 in it: cells
//@sub /col_sizes\[colno\.\.colno \+ cell\.colspan\]\.iter\(\)\.sum::<usize>\(\)/ ==> range_sum(&col_sizes, colno, colno + cell.colspan)
    fn into_cells(self, vertical: bool) -> (result: Vec<RenderNode>)
        requires //@w
            self.col_sizes.is_some(), //@w
            // boundary (established by RenderTable::new and the allocation slice): every colspan >= 1, spans stay inside the columns //@w
            forall|j: int| 0 <= j < self.cells@.len() ==> (#[trigger] self.cells@[j]).colspan >= 1, //@w
            colno_upto(self.cells@, self.cells@.len() as int) <= self.col_sizes.unwrap()@.len(), //@w
            ssum(self.col_sizes.unwrap()@) + self.col_sizes.unwrap()@.len() <= 0x2000_0000_0000_0000, //@w
        ensures //@w
            // exactly the cells with a non-zero allocation are emitted, in row order (C06, C03) //@w
            result@.len() == kept_upto(self.cells@, self.col_sizes.unwrap()@, vertical, self.cells@.len() as int).len(), //@w @C06 @C03 #cells_kept_in_order
            forall|t: int| 0 <= t < result@.len() ==> { //@w @C06 @C05 @C02 #cell_gets_its_columns
                let j = kept_upto(self.cells@, self.col_sizes.unwrap()@, vertical, self.cells@.len() as int)[t]; //@w @C06 @C05 @C02 #cell_gets_its_columns
                &&& (#[trigger] result@[t]).info matches RenderNodeInfo::TableCell(c) //@w @C06 @C05 @C02 #cell_gets_its_columns
                &&& c.colspan == self.cells@[j].colspan && c.content == self.cells@[j].content //@w @C06 @C05 @C02 #cell_gets_its_columns
                &&& (vertical || all_drawn(self.col_sizes.unwrap()@, colno_upto(self.cells@, j) as int, self.cells@[j].colspan as int)) ==> c.col_width == Some(cell_width(self.col_sizes.unwrap()@, colno_upto(self.cells@, j) as int, self.cells@[j].colspan as int, vertical) as usize) //@w @C06 @C05 @C02 kf=D15 #cell_gets_its_columns
                &&& c.col_width == Some(cell_width(self.col_sizes.unwrap()@, colno_upto(self.cells@, j) as int, self.cells@[j].colspan as int, vertical) as usize) //@w @C06 @C05 kf=!D15 #cell_width_counts_drawn_separators_only
            }, //@w @C06 @C05 @C02 #cell_gets_its_columns
    {
        let mut result: Vec<RenderNode> = Vec::new();
        let mut colno = 0;
        let col_sizes = self.col_sizes.unwrap();
        let cells = self.cells;
        for cell0 in it: cells
            invariant //@w
                it.seq() == cells@, cells@ == self.cells@, col_sizes@ == self.col_sizes.unwrap()@, //@w
                forall|j: int| 0 <= j < cells@.len() ==> (#[trigger] cells@[j]).colspan >= 1, //@w
                colno_upto(cells@, cells@.len() as int) <= col_sizes@.len(), //@w
                ssum(col_sizes@) + col_sizes@.len() <= 0x2000_0000_0000_0000, //@w
                colno == colno_upto(cells@, it.index@), //@w
                result@.len() == kept_upto(cells@, col_sizes@, vertical, it.index@).len(), //@w @C03 @C06 #cells_kept_in_order_so_far
                forall|t: int| 0 <= t < result@.len() ==> { //@w
                    let j = kept_upto(cells@, col_sizes@, vertical, it.index@)[t]; //@w
                    &&& 0 <= j < it.index@ //@w
                    &&& (#[trigger] result@[t]).info matches RenderNodeInfo::TableCell(c) //@w
                    &&& c.colspan == cells@[j].colspan && c.content == cells@[j].content //@w
                    &&& (vertical || all_drawn(col_sizes@, colno_upto(cells@, j) as int, cells@[j].colspan as int)) ==> c.col_width == Some(cell_width(col_sizes@, colno_upto(cells@, j) as int, cells@[j].colspan as int, vertical) as usize) //@w kf=D15
                    &&& c.col_width == Some(cell_width(col_sizes@, colno_upto(cells@, j) as int, cells@[j].colspan as int, vertical) as usize) //@w kf=!D15
                }, //@w
        {
            let mut cell = cell0; //@w
            proof { //@w
                let k = it.index@; //@w
                lemma_colno_mono(cells@, k + 1, cells@.len() as int); //@w
                lemma_rsum_le_ssum(col_sizes@, colno as int, colno + cell.colspan); //@w
            } //@w
            let colspan = cell.colspan;
            let col_width = if vertical {
                col_sizes[colno]
            } else {
                range_sum(&col_sizes, colno, colno + cell.colspan)
            };
            // Skip any zero-width columns
            if col_width > 0 {
                // Side by side, the cell also covers the separators between
                // the columns it spans; stacked cells are just the full width.
                cell.col_width = Some(if vertical {
                    col_width
                } else {
                    col_width + cell.colspan - 1
                });
                let style = cell.style.clone();
                result.push(RenderNode::new_styled(
                    RenderNodeInfo::TableCell(cell),
                    style,
                ));
            }
            colno += colspan;
        }
        result
    }
//@end
}

// ---------------------------------------------------------------------------------------------
// The loop of render_table_tree that spreads cell estimates over the spanned columns (src/lib.rs:2226-2243).
// R10: cell.get_size_estimate() is the cached estimate of the cell's content: opaque function of the cell.
struct RenderTable { rows: Vec<RenderTableRow>, num_columns: usize }
spec fn cell_estimate(c: RenderTableCell) -> SizeEstimate;
impl RenderTableCell {
    #[verifier::external_body]
    fn get_size_estimate(&self) -> (r: SizeEstimate) ensures r == cell_estimate(*self) { unimplemented!() }
}
impl SizeEstimate {
//@item src/lib.rs :: impl SizeEstimate :: fn max
//@sub /-> SizeEstimate/ ==> -> (r: SizeEstimate)
//@auto C01 C06
    fn max(self, other: SizeEstimate) -> (r: SizeEstimate)
        ensures r.size == (if self.size >= other.size { self.size } else { other.size }) && r.min_width == (if self.min_width >= other.min_width { self.min_width } else { other.min_width }) && r.prefix_size == 0, //@w @C06 #estimate_max
    {
        SizeEstimate {
            size: max(self.size, other.size),
            min_width: max(self.min_width, other.min_width),
            prefix_size: 0,
        }
    }
//@end
}
spec fn row_ok(row: RenderTableRow, ncols: int) -> bool {
    (forall|j: int| 0 <= j < row.cells@.len() ==> (#[trigger] row.cells@[j]).colspan >= 1) && colno_upto(row.cells@, row.cells@.len() as int) <= ncols
}

//@slice src/lib.rs :: fn render_table_tree :: /for row in table\.rows\(\) \{/ .. /let tot_size: usize =/
//@name spread_slice
//@auto C01 C06
//@sub /for row in table\.rows\(\)/ ==> for row in itr: &table.rows
//@sub /for cell in row\.cells\(\)/ ==> for cell in itc: &row.cells
//@sub /let mut colno = 0;/ ==> let mut colno: usize = 0;
fn spread_slice(table: &RenderTable, col_sizes0: Vec<SizeEstimate>) -> (r: Vec<SizeEstimate>) //@w
    requires //@w
        // established by RenderTable::new (boundary, A6): every colspan >= 1 and every row stays inside num_columns //@w
        col_sizes0@.len() == table.num_columns, //@w
        forall|k: int| 0 <= k < table.rows@.len() ==> row_ok(#[trigger] table.rows@[k], table.num_columns as int), //@w
    ensures //@w
        r@.len() == col_sizes0@.len(), //@w @C06 #one_estimate_per_column
        // estimates only grow (each column is the max over the cells that span it) //@w
        forall|c: int| 0 <= c < r@.len() ==> (#[trigger] r@[c]).size >= col_sizes0@[c].size && r@[c].min_width >= col_sizes0@[c].min_width, //@w @C06 #estimates_only_grow
{ //@w
    let mut col_sizes = col_sizes0; //@w
    for row in itr: &table.rows
        invariant //@w
            col_sizes@.len() == col_sizes0@.len(), col_sizes0@.len() == table.num_columns, //@w
            forall|k: int| 0 <= k < table.rows@.len() ==> row_ok(#[trigger] table.rows@[k], table.num_columns as int), //@w
            forall|c: int| 0 <= c < col_sizes@.len() ==> (#[trigger] col_sizes@[c]).size >= col_sizes0@[c].size && col_sizes@[c].min_width >= col_sizes0@[c].min_width, //@w
    {
        proof { assert(row_ok(table.rows@[itr.index@], table.num_columns as int)); assert(*row == table.rows@[itr.index@]); } //@w
        let mut colno: usize = 0;
        for cell in itc: &row.cells
            invariant //@w
                col_sizes@.len() == col_sizes0@.len(), col_sizes0@.len() == table.num_columns, //@w
                row_ok(*row, table.num_columns as int), //@w
                colno == colno_upto(row.cells@, itc.index@), //@w
                forall|c: int| 0 <= c < col_sizes@.len() ==> (#[trigger] col_sizes@[c]).size >= col_sizes0@[c].size && col_sizes@[c].min_width >= col_sizes0@[c].min_width, //@w
        {
            proof { //@w
                let k = itc.index@; //@w
                assert(*cell == row.cells@[k]); //@w
                lemma_colno_mono(row.cells@, k + 1, row.cells@.len() as int); //@w
            } //@w
            // FIXME: get_size_estimate is still recursive.
            let mut estimate = cell.get_size_estimate();

            // If the cell has a colspan>1, then spread its size between the
            // columns.
            estimate.size /= cell.colspan;
            estimate.min_width /= cell.colspan;
            for i in 0..cell.colspan
                invariant //@w
                    col_sizes@.len() == col_sizes0@.len(), colno + cell.colspan <= col_sizes@.len(), i <= cell.colspan, col_sizes@.len() <= usize::MAX, //@w
                    forall|c: int| 0 <= c < col_sizes@.len() ==> (#[trigger] col_sizes@[c]).size >= col_sizes0@[c].size && col_sizes@[c].min_width >= col_sizes0@[c].min_width, //@w
            {
                col_sizes[colno + i] = (col_sizes[colno + i]).max(estimate);
            }
            colno += cell.colspan;
        }
    }
    col_sizes //@w
} //@w
    // TODO: remove empty columns
//@end

// ---------------------------------------------------------------------------------------------
// colspan="0" replacement in tbody_to_render_tree (src/lib.rs:1096-1108).  Free variables: rows, num_columns (per row: has a zero
// colspan?, sum of max(colspan,1)), max_columns (the largest of those sums) — computed by the iterator chain just above the slice.
// sum of max(colspan, 1) over the first k cells
spec fn span1_upto(cells: Seq<RenderTableCell>, k: int) -> nat decreases k { if k <= 0 { 0 } else { span1_upto(cells, k - 1) + (if cells[k - 1].colspan >= 1 { cells[k - 1].colspan as nat } else { 1 }) } }
proof fn lemma_span1_ge(cells: Seq<RenderTableCell>, k: int)
    requires 0 <= k,
    ensures span1_upto(cells, k) >= k,
    decreases k
{ if k > 0 { lemma_span1_ge(cells, k - 1); } }
//@slice src/lib.rs :: fn tbody_to_render_tree :: /for \(i, &\(has_zero, num_cols\)\) in num_columns\.iter\(\)\.enumerate\(\) \{/ .. /Some\(RenderNode::new_styled\(\s*RenderNodeInfo::TableBody\(rows\),/
//@name colspan0_slice
//@auto C01 C06
//@sub /for \(i, &\(has_zero, num_cols\)\) in num_columns\.iter\(\)\.enumerate\(\)/ ==> for i in 0..num_columns.len()
//@sub /for cell in rows\[i\]\.cells_mut\(\)/ ==> for ci in itc2: 0..rows[i].cells.len()
fn colspan0_slice(rows0: Vec<RenderTableRow>, num_columns: Vec<(bool, usize)>, max_columns: &usize) -> (r: Vec<RenderTableRow>) //@w
    requires //@w
        // what the iterator chain above the slice computes (A6): per row, whether it has a zero colspan and the sum of max(colspan, 1); //@w
        // max_columns is at least every such sum //@w
        num_columns@.len() == rows0@.len(), //@w
        forall|k: int| 0 <= k < rows0@.len() ==> (#[trigger] num_columns@[k]).1 == span1_upto(rows0@[k].cells@, rows0@[k].cells@.len() as int) && num_columns@[k].1 <= *max_columns, //@w
        forall|k: int| 0 <= k < rows0@.len() ==> (#[trigger] num_columns@[k]).0 == (exists|j: int| 0 <= j < rows0@[k].cells@.len() && (#[trigger] rows0@[k].cells@[j]).colspan == 0), //@w
    ensures //@w
        r@.len() == rows0@.len(), //@w
        // afterwards no cell has colspan 0 (C01: later code divides by the colspan), and non-zero colspans are untouched (C06) //@w
        forall|k: int, j: int| 0 <= k < r@.len() && 0 <= j < r@[k].cells@.len() ==> (#[trigger] r@[k].cells@[j]).colspan >= 1, //@w @C01 @C06 #no_zero_colspan_left
        forall|k: int| 0 <= k < r@.len() ==> (#[trigger] r@[k]).cells@.len() == rows0@[k].cells@.len(), //@w @C03 @C06 #colspan0_keeps_cells
{ //@w
    let mut rows = rows0; //@w
        for i in 0..num_columns.len()
            invariant //@w
                rows@.len() == rows0@.len(), num_columns@.len() == rows0@.len(), //@w
                forall|k: int| 0 <= k < rows@.len() ==> (#[trigger] rows@[k]).cells@.len() == rows0@[k].cells@.len(), //@w
                forall|k: int, j: int| 0 <= k < i && 0 <= j < rows@[k].cells@.len() ==> (#[trigger] rows@[k].cells@[j]).colspan >= 1, //@w
                forall|k: int| i <= k < rows@.len() ==> #[trigger] rows@[k] == rows0@[k], //@w
                forall|k: int| 0 <= k < rows0@.len() ==> (#[trigger] num_columns@[k]).1 == span1_upto(rows0@[k].cells@, rows0@[k].cells@.len() as int) && num_columns@[k].1 <= *max_columns, //@w
                forall|k: int| 0 <= k < rows0@.len() ==> (#[trigger] num_columns@[k]).0 == (exists|j: int| 0 <= j < rows0@[k].cells@.len() && (#[trigger] rows0@[k].cells@[j]).colspan == 0), //@w
        {
            let (has_zero, num_cols) = num_columns[i]; //@w
            proof { lemma_span1_ge(rows0@[i as int].cells@, rows0@[i as int].cells@.len() as int); assert(rows@[i as int] == rows0@[i as int]); } //@w
            // Note this won't be sensible if more than one column has colspan=0,
            // but that's not very well defined anyway.
            if has_zero {
                for ci in itc2: 0..rows[i].cells.len()
                    invariant //@w
                        i < rows@.len(), rows@.len() == rows0@.len(), num_columns@.len() == rows0@.len(), //@w
                        forall|k: int| 0 <= k < rows@.len() ==> (#[trigger] rows@[k]).cells@.len() == rows0@[k].cells@.len(), //@w
                        forall|k: int, j: int| 0 <= k < i && 0 <= j < rows@[k].cells@.len() ==> (#[trigger] rows@[k].cells@[j]).colspan >= 1, //@w
                        forall|k: int| i < k < rows@.len() ==> #[trigger] rows@[k] == rows0@[k], //@w
                        forall|j: int| 0 <= j < ci ==> (#[trigger] rows@[i as int].cells@[j]).colspan >= 1, //@w
                        forall|j: int| ci <= j < rows@[i as int].cells@.len() ==> #[trigger] rows@[i as int].cells@[j] == rows0@[i as int].cells@[j], //@w
                        num_cols == span1_upto(rows0@[i as int].cells@, rows0@[i as int].cells@.len() as int), num_cols <= *max_columns, //@w
                        rows@[i as int].cells@.len() == rows0@[i as int].cells@.len(), rows0@[i as int].cells@.len() >= 1 ==> num_cols >= 1, //@w
                        itc2.iter.end == rows0@[i as int].cells@.len(), //@w
                {
                    let cell = &mut rows[i].cells[ci]; //@w
                    if cell.colspan == 0 {
                        // +1 because we said it had 1 to start with
                        cell.colspan = max_columns - num_cols + 1;
                    }
                }
            }
        }
    rows //@w
} //@w
//@end
} // verus!
fn main() {}
