//@unit NC — :nth-child(an+b) arithmetic (tail of the NthChild arm of Selector::do_matches, src/css.rs:163-175)
//@verus-arg --cfg
//@verus-arg feature="css"
// Slice: from `let idx_offset = …;` to the end of the arm.  Free variables become parameters: idx (1-based position
// of the element among its matching siblings), a, b (pattern bindings by reference), and the value of
// `Self::do_matches(&comps[1..], node)` (the rest of the selector; no side effects) as `rest_matches`.
use vstd::prelude::*;
use vstd::arithmetic::div_mod::*;
use vstd::arithmetic::mul::*;
macro_rules! html_trace { ($($t:tt)*) => {} }
macro_rules! html_trace_quiet { ($($t:tt)*) => {} }
verus! {
//@export-begin

// the CSS definition, from the property (C20): the element matches iff idx = a*n + b for some integer n >= 0
spec fn nth_matches(a: int, b: int, idx: int) -> bool { exists|n: int| n >= 0 && idx == #[trigger] (a * n) + b }

// R20: `x % a` / `x / a` on i64 -> i64_rem / i64_div, trusted functions carrying the Rust reference semantics (A3).
// Their preconditions are Rust's panic conditions (division by zero, i64::MIN / -1), so those stay obligations (C01).
spec fn tdiv(x: int, a: int) -> int;
spec fn trem(x: int, a: int) -> int;
#[verifier::external_body]
fn i64_rem(x: i64, a: i64) -> (r: i64)
    requires a != 0, !(x == i64::MIN && a == -1),
    ensures r == trem(x as int, a as int),
{ x % a }
#[verifier::external_body]
fn i64_div(x: i64, a: i64) -> (r: i64)
    requires a != 0, !(x == i64::MIN && a == -1),
    ensures r == tdiv(x as int, a as int),
{ x / a }
// Rust reference semantics of `/` and `%` on signed integers (A3, trusted): truncated division,
// x == a * (x / a) + (x % a), |x % a| < |a|, and the remainder has the sign of the dividend (or is zero)
#[verifier::external_body]
proof fn axiom_rust_divrem(x: int, a: int)
    requires a != 0,
    ensures
        x == a * tdiv(x, a) + trem(x, a),
        a > 0 ==> -a < trem(x, a) < a,
        a < 0 ==> a < trem(x, a) < -a,
        x >= 0 ==> trem(x, a) >= 0,
        x <= 0 ==> trem(x, a) <= 0,
{}
// exists n >= 0 with idx == a*n + b   <=>   (a == 0 and idx == b), or (a != 0, a divides idx - b exactly and the quotient is >= 0)
proof fn lemma_nth(a: int, b: int, idx: int)
    ensures
        a == 0 ==> (nth_matches(a, b, idx) <==> idx == b),
        a != 0 ==> (nth_matches(a, b, idx) <==> (trem(idx - b, a) == 0 && tdiv(idx - b, a) >= 0)),
{
    let d = idx - b;
    if a == 0 {
        if idx == b { assert(idx == a * 0 + b); }
        assert forall|n: int| #[trigger] (a * n) == 0 by { lemma_mul_basics(n); }
    } else {
        axiom_rust_divrem(d, a);
        let q = tdiv(d, a);
        let m = trem(d, a);
        if m == 0 && q >= 0 {
            assert(idx == a * q + b);
        }
        if nth_matches(a, b, idx) {
            let n = choose|n: int| n >= 0 && idx == #[trigger] (a * n) + b;
            // d == a*n == a*q + m, |m| < |a|  ==>  a*(n - q) == m  ==>  n == q and m == 0
            assert(a * (n - q) == m) by (nonlinear_arith) requires d == a * n, d == a * q + m;
            assert(n - q == 0 && m == 0) by (nonlinear_arith) requires a * (n - q) == m, a != 0, (a > 0 ==> -a < m < a), (a < 0 ==> a < m < -a);
        }
    }
}

//@export-end
//@slice src/css.rs :: impl Selector :: fn do_matches :: /\/\* The selector matches if idx == a\*n \+ b/ .. /(?m)^                \}\n            \},\n        \}/
//@name nth_slice
//@auto C01 C20
//@sub * /Self::do_matches\(&comps\[1\.\.\], node\)/ ==> rest_matches
//@sub /\(idx_offset % a\)/ ==> (i64_rem(idx_offset, a))
//@sub /idx_offset \/ a;/ ==> i64_div(idx_offset, a);
fn nth_slice(idx: i32, a: &i32, b: &i32, rest_matches: bool) -> (r: bool) //@w
    requires idx >= 1, //@w
    ensures r == (nth_matches(*a as int, *b as int, idx as int) && rest_matches), //@w @C20 #nth_child_is_an_plus_b
{ //@w
    proof { lemma_nth(*a as int, *b as int, idx as int); } //@w
    let ghost a0 = *a as int; //@w
                    /* The selector matches if idx == a*n + b, where
                     * n >= 0
                     */
                    // Use wider arithmetic: a and b can be anywhere in the i32
                    // range, so idx - b doesn't always fit.
                    let idx_offset = idx as i64 - *b as i64;
                    let a = *a as i64;
                    if a == 0 {
                        return idx_offset == 0 && rest_matches;
                    }
                    if (i64_rem(idx_offset, a)) != 0 {
                        // Not a multiple
                        return false;
                    }
                    let n = i64_div(idx_offset, a);
                    n >= 0 && rest_matches
} //@w
//@end

} // verus!
fn main() {}
