//@unit TJ — table junction positions: the loops of SubRenderer::append_columns_with_borders that join the vertical bars of a
// row to the rule above and the rule below (src/render/text_renderer.rs:1536-1547).  Imports BorderHoriz (unit BH) under its contracts.
use vstd::prelude::*;
macro_rules! html_trace { ($($t:tt)*) => {} }
verus! {
//@import BH

// position of the separator after column k when the columns have widths w_0.. and one separator between neighbours (C05, C06)
spec fn sep_pos(ws: Seq<usize>, k: int) -> int decreases k + 1 { if k < 0 { -1 } else { sep_pos(ws, k - 1) + 1 + ws[k] as int } }
spec fn is_sep(ws: Seq<usize>, n: int, p: int) -> bool { exists|k: int| 0 <= k < n && sep_pos(ws, k) == p }
proof fn lemma_sep_mono(ws: Seq<usize>, a: int, b: int)
    requires -1 <= a <= b,
    ensures sep_pos(ws, a) <= sep_pos(ws, b),
    decreases b - a
{ if a < b { lemma_sep_mono(ws, a, b - 1); } }
// is_sep(ws, k+1, p) == is_sep(ws, k, p) || p == sep_pos(ws, k)
proof fn lemma_is_sep_step(ws: Seq<usize>, k: int)
    requires k >= 0,
    ensures forall|p: int| is_sep(ws, k + 1, p) == (is_sep(ws, k, p) || p == sep_pos(ws, k)),
            forall|p: int| is_sep(ws, k, p) ==> 0 <= p <= sep_pos(ws, k - 1),
{
    assert forall|p: int| is_sep(ws, k, p) implies 0 <= p <= sep_pos(ws, k - 1) by {
        let j = choose|j: int| 0 <= j < k && sep_pos(ws, j) == p;
        lemma_sep_mono(ws, j, k - 1); lemma_sep_mono(ws, -1, j - 1);
    }
    assert forall|p: int| is_sep(ws, k + 1, p) == (is_sep(ws, k, p) || p == sep_pos(ws, k)) by {
        if is_sep(ws, k + 1, p) {
            let j = choose|j: int| 0 <= j < k + 1 && sep_pos(ws, j) == p;
            if j < k { assert(is_sep(ws, k, p)); }
        }
        if is_sep(ws, k, p) {
            let j = choose|j: int| 0 <= j < k && sep_pos(ws, j) == p;
            assert(0 <= j < k + 1 && sep_pos(ws, j) == p);
        }
        if p == sep_pos(ws, k) { assert(0 <= k < k + 1 && sep_pos(ws, k) == p); }
    }
}
spec fn widths<X>(ls: Seq<(usize, X)>) -> Seq<usize> { ls.map(|i: int, e: (usize, X)| e.0) }

//@slice src/render/text_renderer.rs :: impl SubRenderer :: fn append_columns_with_borders :: /let mut pos = 0;\n\s*html_trace!\("Merging with last line/ .. /(?m)^        \}\n\n        \/\/ If we're collapsing bottom borders/
//@name join_slice
//@auto C01 C05
//@sub /for &\(w, _\) in &line_sets\[\.\.line_sets\.len\(\) - 1\]/ ==> for k in 0..line_sets.len() - 1
//@sub /let mut pos = 0;/ ==> let mut pos: usize = 0;
fn join_slice<T: Clone, X>(prev_border: &mut BorderHoriz<T>, next_border: &mut BorderHoriz<T>, line_sets: &Vec<(usize, X)>) //@w[
    requires
        line_sets@.len() >= 1,   // boundary (A6): a row is only laid out when it has at least one cell (guard in render_table_row)
        sep_pos(widths(line_sets@), line_sets@.len() - 1) < 0x4000_0000_0000_0000,   // A5
    ensures
        // exactly at the separator positions  P_k = w_0 + … + w_k + k  (k < n-1) the rule above gains a bar below and the
        // rule below gains a bar above (unless the position is a stacked-cell separator); nothing else changes (C05)
        forall|p: int| 0 <= p < final(prev_border).segments@.len() ==> //@w @C05 #bars_join_rule_above_at_separators
            down(#[trigger] final(prev_border).segments@[p]) == (down(at(old(prev_border).segments@, p)) || (is_sep(widths(line_sets@), line_sets@.len() - 1, p) && !vert(at(old(prev_border).segments@, p)))), //@w @C05 #bars_join_rule_above_at_separators
        forall|p: int| 0 <= p < final(next_border).segments@.len() ==> //@w @C05 #bars_join_rule_below_at_separators
            up(#[trigger] final(next_border).segments@[p]) == (up(at(old(next_border).segments@, p)) || (is_sep(widths(line_sets@), line_sets@.len() - 1, p) && !vert(at(old(next_border).segments@, p)))), //@w @C05 #bars_join_rule_below_at_separators
        forall|p: int| 0 <= p < final(prev_border).segments@.len() ==> up(#[trigger] final(prev_border).segments@[p]) == up(at(old(prev_border).segments@, p)) && vert(final(prev_border).segments@[p]) == vert(at(old(prev_border).segments@, p)), //@w @C05 #join_keeps_rest_of_rule_above
        forall|p: int| 0 <= p < final(next_border).segments@.len() ==> down(#[trigger] final(next_border).segments@[p]) == down(at(old(next_border).segments@, p)) && vert(final(next_border).segments@[p]) == vert(at(old(next_border).segments@, p)), //@w @C05 #join_keeps_rest_of_rule_below
        final(prev_border).segments@.len() >= old(prev_border).segments@.len() && final(next_border).segments@.len() >= old(next_border).segments@.len(), //@w @C05
{ //@w]
            let mut pos: usize = 0;
            html_trace!("Merging with last line:\n{}", prev_border.to_string());
            for k in 0..line_sets.len() - 1
                invariant //@w[
                    line_sets@.len() >= 1, sep_pos(widths(line_sets@), line_sets@.len() - 1) < 0x4000_0000_0000_0000,
                    pos == sep_pos(widths(line_sets@), k as int - 1) + 1,
                    k > 0 ==> prev_border.segments@.len() >= pos && next_border.segments@.len() >= pos,
                    prev_border.segments@.len() >= old(prev_border).segments@.len() && next_border.segments@.len() >= old(next_border).segments@.len(),
                    forall|p: int| 0 <= p < prev_border.segments@.len() ==>
                        down(#[trigger] prev_border.segments@[p]) == (down(at(old(prev_border).segments@, p)) || (is_sep(widths(line_sets@), k as int, p) && !vert(at(old(prev_border).segments@, p)))),
                    forall|p: int| 0 <= p < next_border.segments@.len() ==>
                        up(#[trigger] next_border.segments@[p]) == (up(at(old(next_border).segments@, p)) || (is_sep(widths(line_sets@), k as int, p) && !vert(at(old(next_border).segments@, p)))),
                    forall|p: int| 0 <= p < prev_border.segments@.len() ==> up(#[trigger] prev_border.segments@[p]) == up(at(old(prev_border).segments@, p)) && vert(prev_border.segments@[p]) == vert(at(old(prev_border).segments@, p)),
                    forall|p: int| 0 <= p < next_border.segments@.len() ==> down(#[trigger] next_border.segments@[p]) == down(at(old(next_border).segments@, p)) && vert(next_border.segments@[p]) == vert(at(old(next_border).segments@, p)),
                //@w]
            {
                let w = line_sets[k].0; //@w
                proof { lemma_sep_mono(widths(line_sets@), k as int, line_sets@.len() - 1); assert(widths(line_sets@)[k as int] == w); lemma_is_sep_step(widths(line_sets@), k as int); } //@w
                html_trace!("pos={}, w={}", pos, w);
                let ghost pb0 = prev_border.segments@; //@w
                prev_border.join_below(pos + w);
                proof { //@w[
                    assert(pos + w == sep_pos(widths(line_sets@), k as int));
                    assert forall|p: int| 0 <= p < prev_border.segments@.len() implies
                        down(#[trigger] prev_border.segments@[p]) == (down(at(old(prev_border).segments@, p)) || (is_sep(widths(line_sets@), k as int + 1, p) && !vert(at(old(prev_border).segments@, p)))) by {
                        let o = at(old(prev_border).segments@, p); let ws = widths(line_sets@);
                        if p == pos + w {
                            if p < pb0.len() { assert(vert(pb0[p]) == vert(o)); } else { assert(o is Straight); }
                            assert(is_sep(ws, k as int + 1, p));
                        } else {
                            assert(prev_border.segments@[p] == at(pb0, p));
                            assert(is_sep(ws, k as int + 1, p) == is_sep(ws, k as int, p));
                            if p < pb0.len() { assert(down(pb0[p]) == (down(o) || (is_sep(ws, k as int, p) && !vert(o)))); } else { assert(!is_sep(ws, k as int, p)); assert(o is Straight); }
                        }
                    }
                } //@w]
                let ghost nb0 = next_border.segments@; //@w
                next_border.join_above(pos + w);
                proof { //@w[
                    assert forall|p: int| 0 <= p < next_border.segments@.len() implies
                        up(#[trigger] next_border.segments@[p]) == (up(at(old(next_border).segments@, p)) || (is_sep(widths(line_sets@), k as int + 1, p) && !vert(at(old(next_border).segments@, p)))) by {
                        let o = at(old(next_border).segments@, p); let ws = widths(line_sets@);
                        if p == pos + w {
                            if p < nb0.len() { assert(vert(nb0[p]) == vert(o)); } else { assert(o is Straight); }
                            assert(is_sep(ws, k as int + 1, p));
                        } else {
                            assert(next_border.segments@[p] == at(nb0, p));
                            assert(is_sep(ws, k as int + 1, p) == is_sep(ws, k as int, p));
                            if p < nb0.len() { assert(up(nb0[p]) == (up(o) || (is_sep(ws, k as int, p) && !vert(o)))); } else { assert(!is_sep(ws, k as int, p)); assert(o is Straight); }
                        }
                    }
                } //@w]
                pos += w + 1;
            }
} //@w
//@end

} // verus!
fn main() {}
