//@unit TJ — table junction positions: the loops of SubRenderer::append_columns_with_borders that join the vertical bars of a
// row to the rule above and the rule below (src/render/text_renderer.rs:1536-1547).  Imports BorderHoriz (unit BH) under its contracts.
use vstd::prelude::*;
macro_rules! html_trace { ($($t:tt)*) => {} }
verus! {
//@import BH

// position of the separator after column k when the columns have widths w_0.. and one separator between neighbours (C05, C06)
spec fn sep_pos(ws: Seq<usize>, k: int) -> int decreases k + 1 { if k < 0 { -1 } else { sep_pos(ws, k - 1) + 1 + ws[k] as int } }
spec fn is_sep(ws: Seq<usize>, n: int, p: int) -> bool { exists|k: int| 0 <= k < n && sep_pos(ws, k) == p }
proof fn lemma_sep_mono(ws: Seq<usize>, a: int, b: int)
    requires -1 <= a <= b,
    ensures sep_pos(ws, a) <= sep_pos(ws, b),
    decreases b - a
{ if a < b { lemma_sep_mono(ws, a, b - 1); } }
// is_sep(ws, k+1, p) == is_sep(ws, k, p) || p == sep_pos(ws, k)
proof fn lemma_is_sep_step(ws: Seq<usize>, k: int)
    requires k >= 0,
    ensures forall|p: int| is_sep(ws, k + 1, p) == (is_sep(ws, k, p) || p == sep_pos(ws, k)),
            forall|p: int| is_sep(ws, k, p) ==> 0 <= p <= sep_pos(ws, k - 1),
{
    assert forall|p: int| is_sep(ws, k, p) implies 0 <= p <= sep_pos(ws, k - 1) by {
        let j = choose|j: int| 0 <= j < k && sep_pos(ws, j) == p;
        lemma_sep_mono(ws, j, k - 1); lemma_sep_mono(ws, -1, j - 1);
    }
    assert forall|p: int| is_sep(ws, k + 1, p) == (is_sep(ws, k, p) || p == sep_pos(ws, k)) by {
        if is_sep(ws, k + 1, p) {
            let j = choose|j: int| 0 <= j < k + 1 && sep_pos(ws, j) == p;
            if j < k { assert(is_sep(ws, k, p)); }
        }
        if is_sep(ws, k, p) {
            let j = choose|j: int| 0 <= j < k && sep_pos(ws, j) == p;
            assert(0 <= j < k + 1 && sep_pos(ws, j) == p);
        }
        if p == sep_pos(ws, k) { assert(0 <= k < k + 1 && sep_pos(ws, k) == p); }
    }
}
spec fn widths<X>(ls: Seq<(usize, X)>) -> Seq<usize> { ls.map(|i: int, e: (usize, X)| e.0) }

//@slice src/render/text_renderer.rs :: impl SubRenderer :: fn append_columns_with_borders :: /let mut pos = 0;\n\s*html_trace!\("Merging with last line/ .. /(?m)^        \}\n\n        \/\/ If we're collapsing bottom borders/
//@name join_slice
//@auto C01 C05
//@sub /for &\(w, _\) in &line_sets\[\.\.line_sets\.len\(\) - 1\]/ ==> for k in 0..line_sets.len() - 1
//@sub /let mut pos = 0;/ ==> let mut pos: usize = 0;
fn join_slice<T: Clone, X>(prev_border: &mut BorderHoriz<T>, next_border: &mut BorderHoriz<T>, line_sets: &Vec<(usize, X)>) //@w
    requires //@w
        line_sets@.len() >= 1,   // boundary (A6): a row is only laid out when it has at least one cell (guard in render_table_row) //@w
        sep_pos(widths(line_sets@), line_sets@.len() - 1) < 0x4000_0000_0000_0000,   // A5 //@w
    ensures //@w
        // exactly at the separator positions  P_k = w_0 + … + w_k + k  (k < n-1) the rule above gains a bar below and the //@w
        // rule below gains a bar above (unless the position is a stacked-cell separator); nothing else changes (C05) //@w
        forall|p: int| 0 <= p < final(prev_border).segments@.len() ==> //@w @C05 #bars_join_rule_above_at_separators
            down(#[trigger] final(prev_border).segments@[p]) == (down(at(old(prev_border).segments@, p)) || (is_sep(widths(line_sets@), line_sets@.len() - 1, p) && !vert(at(old(prev_border).segments@, p)))), //@w @C05 #bars_join_rule_above_at_separators
        forall|p: int| 0 <= p < final(next_border).segments@.len() ==> //@w @C05 #bars_join_rule_below_at_separators
            up(#[trigger] final(next_border).segments@[p]) == (up(at(old(next_border).segments@, p)) || (is_sep(widths(line_sets@), line_sets@.len() - 1, p) && !vert(at(old(next_border).segments@, p)))), //@w @C05 #bars_join_rule_below_at_separators
        forall|p: int| 0 <= p < final(prev_border).segments@.len() ==> up(#[trigger] final(prev_border).segments@[p]) == up(at(old(prev_border).segments@, p)) && vert(final(prev_border).segments@[p]) == vert(at(old(prev_border).segments@, p)), //@w @C05 #join_keeps_rest_of_rule_above
        forall|p: int| 0 <= p < final(next_border).segments@.len() ==> down(#[trigger] final(next_border).segments@[p]) == down(at(old(next_border).segments@, p)) && vert(final(next_border).segments@[p]) == vert(at(old(next_border).segments@, p)), //@w @C05 #join_keeps_rest_of_rule_below
        final(prev_border).segments@.len() >= old(prev_border).segments@.len() && final(next_border).segments@.len() >= old(next_border).segments@.len(), //@w @C05
{ //@w
            let mut pos: usize = 0;
            html_trace!("Merging with last line:\n{}", prev_border.to_string());
            for k in 0..line_sets.len() - 1
                invariant //@w
                    line_sets@.len() >= 1, sep_pos(widths(line_sets@), line_sets@.len() - 1) < 0x4000_0000_0000_0000, //@w
                    pos == sep_pos(widths(line_sets@), k as int - 1) + 1, //@w
                    k > 0 ==> prev_border.segments@.len() >= pos && next_border.segments@.len() >= pos, //@w
                    prev_border.segments@.len() >= old(prev_border).segments@.len() && next_border.segments@.len() >= old(next_border).segments@.len(), //@w
                    forall|p: int| 0 <= p < prev_border.segments@.len() ==> //@w
                        down(#[trigger] prev_border.segments@[p]) == (down(at(old(prev_border).segments@, p)) || (is_sep(widths(line_sets@), k as int, p) && !vert(at(old(prev_border).segments@, p)))), //@w
                    forall|p: int| 0 <= p < next_border.segments@.len() ==> //@w
                        up(#[trigger] next_border.segments@[p]) == (up(at(old(next_border).segments@, p)) || (is_sep(widths(line_sets@), k as int, p) && !vert(at(old(next_border).segments@, p)))), //@w
                    forall|p: int| 0 <= p < prev_border.segments@.len() ==> up(#[trigger] prev_border.segments@[p]) == up(at(old(prev_border).segments@, p)) && vert(prev_border.segments@[p]) == vert(at(old(prev_border).segments@, p)), //@w
                    forall|p: int| 0 <= p < next_border.segments@.len() ==> down(#[trigger] next_border.segments@[p]) == down(at(old(next_border).segments@, p)) && vert(next_border.segments@[p]) == vert(at(old(next_border).segments@, p)), //@w
            {
                let w = line_sets[k].0; //@w
                proof { lemma_sep_mono(widths(line_sets@), k as int, line_sets@.len() - 1); assert(widths(line_sets@)[k as int] == w); lemma_is_sep_step(widths(line_sets@), k as int); } //@w
                html_trace!("pos={}, w={}", pos, w);
                let ghost pb0 = prev_border.segments@; //@w
                prev_border.join_below(pos + w);
                proof { //@w
                    assert(pos + w == sep_pos(widths(line_sets@), k as int)); //@w
                    assert forall|p: int| 0 <= p < prev_border.segments@.len() implies //@w
                        down(#[trigger] prev_border.segments@[p]) == (down(at(old(prev_border).segments@, p)) || (is_sep(widths(line_sets@), k as int + 1, p) && !vert(at(old(prev_border).segments@, p)))) by { //@w
                        let o = at(old(prev_border).segments@, p); let ws = widths(line_sets@); //@w
                        if p == pos + w { //@w
                            if p < pb0.len() { assert(vert(pb0[p]) == vert(o)); } else { assert(o is Straight); } //@w
                            assert(is_sep(ws, k as int + 1, p)); //@w
                        } else { //@w
                            assert(prev_border.segments@[p] == at(pb0, p)); //@w
                            assert(is_sep(ws, k as int + 1, p) == is_sep(ws, k as int, p)); //@w
                            if p < pb0.len() { assert(down(pb0[p]) == (down(o) || (is_sep(ws, k as int, p) && !vert(o)))); } else { assert(!is_sep(ws, k as int, p)); assert(o is Straight); } //@w
                        } //@w
                    } //@w
                } //@w
                let ghost nb0 = next_border.segments@; //@w
                next_border.join_above(pos + w);
                proof { //@w
                    assert forall|p: int| 0 <= p < next_border.segments@.len() implies //@w
                        up(#[trigger] next_border.segments@[p]) == (up(at(old(next_border).segments@, p)) || (is_sep(widths(line_sets@), k as int + 1, p) && !vert(at(old(next_border).segments@, p)))) by { //@w
                        let o = at(old(next_border).segments@, p); let ws = widths(line_sets@); //@w
                        if p == pos + w { //@w
                            if p < nb0.len() { assert(vert(nb0[p]) == vert(o)); } else { assert(o is Straight); } //@w
                            assert(is_sep(ws, k as int + 1, p)); //@w
                        } else { //@w
                            assert(next_border.segments@[p] == at(nb0, p)); //@w
                            assert(is_sep(ws, k as int + 1, p) == is_sep(ws, k as int, p)); //@w
                            if p < nb0.len() { assert(up(nb0[p]) == (up(o) || (is_sep(ws, k as int, p) && !vert(o)))); } else { assert(!is_sep(ws, k as int, p)); assert(o is Straight); } //@w
                        } //@w
                    } //@w
                } //@w
                pos += w + 1;
            }
} //@w
//@end


// R10: the text lines of a cell are not touched by the border loops
#[verifier::external_body] #[verifier::accept_recursive_types(T)] struct TaggedLine<T> { x: std::marker::PhantomData<T> }
//@item src/render/text_renderer.rs :: enum RenderLine
enum RenderLine<T> {
    /// Some rendered text
    Text(TaggedLine<T>),
    /// A table border line
    Line(BorderHoriz<T>),
}
//@end
spec fn ends_border<T>(ls: Seq<RenderLine<T>>) -> bool { ls.len() > 0 && ls.last() is Line }
spec fn bot<T>(ls: Seq<RenderLine<T>>) -> Seq<BorderSegHoriz> { ls.last()->Line_0.segments@ }
spec fn col_start<T>(lsets: Seq<(usize, Vec<RenderLine<T>>)>, k: int) -> int { sep_pos(widths(lsets), k - 1) + 1 }
// some column k < n ends in a (nested table's) bottom border that has a junction at position i of the row
spec fn merged_up<T>(lsets: Seq<(usize, Vec<RenderLine<T>>)>, n: int, i: int) -> bool {
    exists|k: int| 0 <= k < n && ends_border((#[trigger] lsets[k]).1@) && col_start(lsets, k) <= i < col_start(lsets, k) + bot(lsets[k].1@).len() && joined(bot(lsets[k].1@)[i - col_start(lsets, k)])
}
// merged_up(ls, k+1, i) == merged_up(ls, k, i) || (column k ends in a border with a junction at i - col_start(k))
proof fn lemma_merged_step<T>(ls: Seq<(usize, Vec<RenderLine<T>>)>, k: int)
    requires 0 <= k < ls.len(),
    ensures forall|i: int| (#[trigger] merged_up(ls, k + 1, i)) == (merged_up(ls, k, i)
        || (ends_border(ls[k].1@) && col_start(ls, k) <= i < col_start(ls, k) + bot(ls[k].1@).len() && joined(bot(ls[k].1@)[i - col_start(ls, k)]))),
{
    assert forall|i: int| (#[trigger] merged_up(ls, k + 1, i)) == (merged_up(ls, k, i)
        || (ends_border(ls[k].1@) && col_start(ls, k) <= i < col_start(ls, k) + bot(ls[k].1@).len() && joined(bot(ls[k].1@)[i - col_start(ls, k)]))) by {
        if merged_up(ls, k + 1, i) {
            let j = choose|j: int| 0 <= j < k + 1 && ends_border((#[trigger] ls[j]).1@) && col_start(ls, j) <= i < col_start(ls, j) + bot(ls[j].1@).len() && joined(bot(ls[j].1@)[i - col_start(ls, j)]);
            if j < k { assert(merged_up(ls, k, i)); }
        }
        if merged_up(ls, k, i) {
            let j = choose|j: int| 0 <= j < k && ends_border((#[trigger] ls[j]).1@) && col_start(ls, j) <= i < col_start(ls, j) + bot(ls[j].1@).len() && joined(bot(ls[j].1@)[i - col_start(ls, j)]);
            assert(0 <= j < k + 1 && ends_border(ls[j].1@));
        }
        if ends_border(ls[k].1@) && col_start(ls, k) <= i < col_start(ls, k) + bot(ls[k].1@).len() && joined(bot(ls[k].1@)[i - col_start(ls, k)]) {
            assert(0 <= k < k + 1 && ends_border(ls[k].1@));
        }
    }
}
// every junction merged so far lies inside the rule
spec fn covered<T>(ls: Seq<(usize, Vec<RenderLine<T>>)>, k: int, len: int) -> bool { forall|i: int| (#[trigger] merged_up(ls, k, i)) ==> i < len }
spec fn is_bars(s: Seq<char>, b: Seq<BorderSegHoriz>) -> bool { s.len() == b.len() && forall|i: int| 0 <= i < b.len() ==> #[trigger] s[i] == (if up(b[i]) { '│' } else { ' ' }) }

//@slice src/render/text_renderer.rs :: impl SubRenderer :: fn append_columns_with_borders :: /\/\* Collapse any bottom border \*\// .. /(?m)^        \}\n\n        let cell_height/
//@name collapse_bottom_slice
//@auto C01 C05
//@sub /let mut pos = 0;/ ==> let mut pos: usize = 0;
//@sub /for \(col_no, &mut \(w, ref mut sublines\)\) in line_sets\.iter_mut\(\)\.enumerate\(\)/ ==> for col_no in 0..line_sets.len()
fn collapse_bottom_slice<T: Clone>(line_sets: &mut Vec<(usize, Vec<RenderLine<T>>)>, next_border: &mut BorderHoriz<T>, column_padding: &mut Vec<Option<String>>) //@w
    requires //@w
        old(column_padding)@.len() == old(line_sets)@.len(),     // `vec![None; line_sets.len()]` just before //@w
        sep_pos(widths(old(line_sets)@), old(line_sets)@.len() - 1) < 0x4000_0000_0000_0000,   // A5 //@w
        forall|k: int| 0 <= k < old(line_sets)@.len() && ends_border((#[trigger] old(line_sets)@[k]).1@) ==> bot(old(line_sets)@[k].1@).len() < 0x4000_0000_0000_0000,   // A5 //@w
    ensures //@w
        final(line_sets)@.len() == old(line_sets)@.len(), final(column_padding)@.len() == old(column_padding)@.len(), //@w
        // a column that ends in a border loses exactly that line, and its filler line is the border's bars above (C05); other columns are untouched //@w
        forall|k: int| 0 <= k < old(line_sets)@.len() ==> (#[trigger] final(line_sets)@[k]).0 == old(line_sets)@[k].0 //@w @C05 #collapse_bottom_keeps_widths
            && final(line_sets)@[k].1@ == (if ends_border(old(line_sets)@[k].1@) { old(line_sets)@[k].1@.drop_last() } else { old(line_sets)@[k].1@ }), //@w @C03 @C05 #collapse_bottom_removes_only_the_border
        forall|k: int| 0 <= k < old(line_sets)@.len() ==> (if ends_border(old(line_sets)@[k].1@) { //@w @C05 #filler_is_bars_of_collapsed_border
                (#[trigger] final(column_padding)@[k]) matches Some(s) && is_bars(s@, bot(old(line_sets)@[k].1@)) } else { final(column_padding)@[k] == old(column_padding)@[k] }), //@w @C05 #filler_is_bars_of_collapsed_border
        // the rule below gets a bar above exactly where a collapsed border has a junction, at the column's own offset (C05) //@w
        forall|i: int| 0 <= i < final(next_border).segments@.len() ==> //@w @C05 #collapsed_junctions_at_column_offset
            up(#[trigger] final(next_border).segments@[i]) == (up(at(old(next_border).segments@, i)) || (merged_up(old(line_sets)@, old(line_sets)@.len() as int, i) && !vert(at(old(next_border).segments@, i)))), //@w @C05 #collapsed_junctions_at_column_offset
        forall|i: int| 0 <= i < final(next_border).segments@.len() ==> down(#[trigger] final(next_border).segments@[i]) == down(at(old(next_border).segments@, i)) && vert(final(next_border).segments@[i]) == vert(at(old(next_border).segments@, i)), //@w @C05 #collapse_bottom_keeps_rest
        final(next_border).segments@.len() >= old(next_border).segments@.len(), //@w
{ //@w
            /* Collapse any bottom border */
            let mut pos: usize = 0;
            let ghost ls0 = line_sets@; //@w
            let ghost n = line_sets@.len(); //@w
            assert forall|i: int| !(#[trigger] merged_up(ls0, 0, i)) by {} //@w
            for col_no in 0..line_sets.len()
                invariant //@w
                    ls0 == old(line_sets)@, n == ls0.len(), line_sets@.len() == n, column_padding@.len() == n, //@w
                    sep_pos(widths(ls0), n - 1) < 0x4000_0000_0000_0000, //@w
                    forall|k: int| 0 <= k < n && ends_border((#[trigger] ls0[k]).1@) ==> bot(ls0[k].1@).len() < 0x4000_0000_0000_0000, //@w
                    pos == col_start(ls0, col_no as int), //@w
                    forall|k: int| col_no <= k < n ==> #[trigger] line_sets@[k] == ls0[k], //@w
                    forall|k: int| col_no <= k < n ==> #[trigger] column_padding@[k] == old(column_padding)@[k], //@w
                    forall|k: int| 0 <= k < col_no ==> (#[trigger] line_sets@[k]).0 == ls0[k].0 //@w
                        && line_sets@[k].1@ == (if ends_border(ls0[k].1@) { ls0[k].1@.drop_last() } else { ls0[k].1@ }), //@w
                    forall|k: int| 0 <= k < col_no ==> (if ends_border(ls0[k].1@) { //@w
                            (#[trigger] column_padding@[k]) matches Some(s) && is_bars(s@, bot(ls0[k].1@)) } else { column_padding@[k] == old(column_padding)@[k] }), //@w
                    next_border.segments@.len() >= old(next_border).segments@.len(), //@w
                    covered(ls0, col_no as int, next_border.segments@.len() as int), //@w
                    forall|i: int| 0 <= i < next_border.segments@.len() ==> //@w
                        up(#[trigger] next_border.segments@[i]) == (up(at(old(next_border).segments@, i)) || (merged_up(ls0, col_no as int, i) && !vert(at(old(next_border).segments@, i)))), //@w
                    forall|i: int| 0 <= i < next_border.segments@.len() ==> down(#[trigger] next_border.segments@[i]) == down(at(old(next_border).segments@, i)) && vert(next_border.segments@[i]) == vert(at(old(next_border).segments@, i)), //@w
            {
                let w = line_sets[col_no].0; //@w
                let ghost nb0 = next_border.segments@; //@w
                proof { lemma_sep_mono(widths(ls0), col_no as int, n - 1); assert(widths(ls0)[col_no as int] == w); } //@w
                let sublines = &mut line_sets[col_no].1; //@w
                assert(sublines@ == ls0[col_no as int].1@); //@w
                proof { lemma_merged_step(ls0, col_no as int); } //@w
                if let Some(RenderLine::Line(line)) = sublines.last() {
                    let ghost b = line.segments@; //@w
                    assert(ends_border(ls0[col_no as int].1@) && b == bot(ls0[col_no as int].1@)); //@w
                    html_trace!("Ends border");
                    next_border.merge_from_above(line, pos);
                    column_padding[col_no] = Some(line.to_vertical_lines_above());
                    sublines.pop();
                    proof { //@w
                        let k = col_no as int; //@w
                        assert forall|i: int| (#[trigger] merged_up(ls0, k + 1, i)) implies i < next_border.segments@.len() by { //@w
                            if !merged_up(ls0, k, i) { assert(joined(b[i - pos])); assert((i - pos) + pos < next_border.segments@.len()); } //@w
                        } //@w
                        assert forall|i: int| 0 <= i < next_border.segments@.len() implies //@w
                            up(#[trigger] next_border.segments@[i]) == (up(at(old(next_border).segments@, i)) || (merged_up(ls0, k + 1, i) && !vert(at(old(next_border).segments@, i)))) by { //@w
                            let o = at(old(next_border).segments@, i); //@w
                            if i < nb0.len() { assert(up(nb0[i]) == (up(o) || (merged_up(ls0, k, i) && !vert(o)))); assert(vert(nb0[i]) == vert(o)); } //@w
                            else { assert(!merged_up(ls0, k, i)); assert(o is Straight); } //@w
                        } //@w
                    } //@w
                }
                pos += w + 1;
            }
} //@w
//@end

spec fn begins_border<T>(ls: Seq<RenderLine<T>>) -> bool { ls.len() > 0 && ls[0] is Line }
spec fn top<T>(ls: Seq<RenderLine<T>>) -> Seq<BorderSegHoriz> { ls[0]->Line_0.segments@ }
// some column k < n starts with a (nested table's) top border that has a junction at position i of the row
spec fn merged_down<T>(lsets: Seq<(usize, Vec<RenderLine<T>>)>, n: int, i: int) -> bool {
    exists|k: int| 0 <= k < n && begins_border((#[trigger] lsets[k]).1@) && col_start(lsets, k) <= i < col_start(lsets, k) + top(lsets[k].1@).len() && joined(top(lsets[k].1@)[i - col_start(lsets, k)])
}
spec fn covered_d<T>(ls: Seq<(usize, Vec<RenderLine<T>>)>, k: int, len: int) -> bool { forall|i: int| (#[trigger] merged_down(ls, k, i)) ==> i < len }
proof fn lemma_merged_down_step<T>(ls: Seq<(usize, Vec<RenderLine<T>>)>, k: int)
    requires 0 <= k < ls.len(),
    ensures forall|i: int| (#[trigger] merged_down(ls, k + 1, i)) == (merged_down(ls, k, i)
        || (begins_border(ls[k].1@) && col_start(ls, k) <= i < col_start(ls, k) + top(ls[k].1@).len() && joined(top(ls[k].1@)[i - col_start(ls, k)]))),
{
    assert forall|i: int| (#[trigger] merged_down(ls, k + 1, i)) == (merged_down(ls, k, i)
        || (begins_border(ls[k].1@) && col_start(ls, k) <= i < col_start(ls, k) + top(ls[k].1@).len() && joined(top(ls[k].1@)[i - col_start(ls, k)]))) by {
        if merged_down(ls, k + 1, i) {
            let j = choose|j: int| 0 <= j < k + 1 && begins_border((#[trigger] ls[j]).1@) && col_start(ls, j) <= i < col_start(ls, j) + top(ls[j].1@).len() && joined(top(ls[j].1@)[i - col_start(ls, j)]);
            if j < k { assert(merged_down(ls, k, i)); }
        }
        if merged_down(ls, k, i) {
            let j = choose|j: int| 0 <= j < k && begins_border((#[trigger] ls[j]).1@) && col_start(ls, j) <= i < col_start(ls, j) + top(ls[j].1@).len() && joined(top(ls[j].1@)[i - col_start(ls, j)]);
            assert(0 <= j < k + 1 && begins_border(ls[j].1@));
        }
        if begins_border(ls[k].1@) && col_start(ls, k) <= i < col_start(ls, k) + top(ls[k].1@).len() && joined(top(ls[k].1@)[i - col_start(ls, k)]) {
            assert(0 <= k < k + 1 && begins_border(ls[k].1@));
        }
    }
}

//@slice src/render/text_renderer.rs :: impl SubRenderer :: fn append_columns_with_borders :: /\/\* Collapse any top border \*\// .. /\/\* Collapse any bottom border \*\//
//@name collapse_top_slice
//@auto C01 C05
//@sub /let mut pos = 0;/ ==> let mut pos: usize = 0;
//@sub /for &mut \(w, ref mut sublines\) in &mut line_sets/ ==> for col_no in 0..line_sets.len()
//@sub /if let &mut RenderLine::Line\(ref mut prev_border\) =\s*self\.lines\.back_mut\(\)\.expect\("No previous line"\)/ ==> if let RenderLine::Line(prev_border) = &mut *prev_line
fn collapse_top_slice<T: Clone>(line_sets: &mut Vec<(usize, Vec<RenderLine<T>>)>, prev_line: &mut RenderLine<T>) //@w[
    requires
        // boundary (A6, call history): the line before a table row is the rule drawn by render_table_tree or by the previous row,
        // and border lines only exist when borders are drawn
        *old(prev_line) is Line,
        sep_pos(widths(old(line_sets)@), old(line_sets)@.len() - 1) < 0x4000_0000_0000_0000,   // A5
        forall|k: int| 0 <= k < old(line_sets)@.len() && begins_border((#[trigger] old(line_sets)@[k]).1@) ==> top(old(line_sets)@[k].1@).len() < 0x4000_0000_0000_0000,   // A5
    ensures
        final(line_sets)@.len() == old(line_sets)@.len(), *final(prev_line) is Line,
        // a column that starts with a border loses exactly that line; other columns are untouched
        forall|k: int| 0 <= k < old(line_sets)@.len() ==> (#[trigger] final(line_sets)@[k]).0 == old(line_sets)@[k].0 //@w @C05 #collapse_top_keeps_widths
            && final(line_sets)@[k].1@ == (if begins_border(old(line_sets)@[k].1@) { old(line_sets)@[k].1@.subrange(1, old(line_sets)@[k].1@.len() as int) } else { old(line_sets)@[k].1@ }), //@w @C03 @C05 #collapse_top_removes_only_the_border
        // the rule above gets a bar below exactly where a collapsed border has a junction, at the column's own offset (C05)
        forall|i: int| 0 <= i < final(prev_line)->Line_0.segments@.len() ==> //@w @C05 #collapsed_top_junctions_at_column_offset
            down(#[trigger] final(prev_line)->Line_0.segments@[i]) == (down(at(old(prev_line)->Line_0.segments@, i)) || (merged_down(old(line_sets)@, old(line_sets)@.len() as int, i) && !vert(at(old(prev_line)->Line_0.segments@, i)))), //@w @C05 #collapsed_top_junctions_at_column_offset
        forall|i: int| 0 <= i < final(prev_line)->Line_0.segments@.len() ==> up(#[trigger] final(prev_line)->Line_0.segments@[i]) == up(at(old(prev_line)->Line_0.segments@, i)) && vert(final(prev_line)->Line_0.segments@[i]) == vert(at(old(prev_line)->Line_0.segments@, i)), //@w @C05 #collapse_top_keeps_rest
        final(prev_line)->Line_0.segments@.len() >= old(prev_line)->Line_0.segments@.len(),
{ //@w]
            /* Collapse any top border */
            let mut pos: usize = 0;
            let ghost ls0 = line_sets@; //@w
            let ghost n = line_sets@.len(); //@w
            let ghost pb0 = prev_line->Line_0.segments@; //@w
            assert forall|i: int| !(#[trigger] merged_down(ls0, 0, i)) by {} //@w
            for col_no in 0..line_sets.len()
                invariant //@w[
                    ls0 == old(line_sets)@, n == ls0.len(), line_sets@.len() == n, *prev_line is Line, pb0 == old(prev_line)->Line_0.segments@,
                    sep_pos(widths(ls0), n - 1) < 0x4000_0000_0000_0000,
                    forall|k: int| 0 <= k < n && begins_border((#[trigger] ls0[k]).1@) ==> top(ls0[k].1@).len() < 0x4000_0000_0000_0000,
                    pos == col_start(ls0, col_no as int),
                    forall|k: int| col_no <= k < n ==> #[trigger] line_sets@[k] == ls0[k],
                    forall|k: int| 0 <= k < col_no ==> (#[trigger] line_sets@[k]).0 == ls0[k].0
                        && line_sets@[k].1@ == (if begins_border(ls0[k].1@) { ls0[k].1@.subrange(1, ls0[k].1@.len() as int) } else { ls0[k].1@ }),
                    prev_line->Line_0.segments@.len() >= pb0.len(),
                    covered_d(ls0, col_no as int, prev_line->Line_0.segments@.len() as int),
                    forall|i: int| 0 <= i < prev_line->Line_0.segments@.len() ==>
                        down(#[trigger] prev_line->Line_0.segments@[i]) == (down(at(pb0, i)) || (merged_down(ls0, col_no as int, i) && !vert(at(pb0, i)))),
                    forall|i: int| 0 <= i < prev_line->Line_0.segments@.len() ==> up(#[trigger] prev_line->Line_0.segments@[i]) == up(at(pb0, i)) && vert(prev_line->Line_0.segments@[i]) == vert(at(pb0, i)),
                //@w]
            {
                let w = line_sets[col_no].0; //@w
                let ghost nb0 = prev_line->Line_0.segments@; //@w
                proof { lemma_sep_mono(widths(ls0), col_no as int, n - 1); assert(widths(ls0)[col_no as int] == w); } //@w
                let sublines = &mut line_sets[col_no].1; //@w
                assert(sublines@ == ls0[col_no as int].1@); //@w
                proof { lemma_merged_down_step(ls0, col_no as int); } //@w
                let starts_border = matches!(sublines.first(), Some(RenderLine::Line(_)));
                if starts_border {
                    html_trace!("Starts border");
                    if let RenderLine::Line(prev_border) = &mut *prev_line
                    {
                        if let RenderLine::Line(line) = sublines.remove(0) {
                            html_trace!(
                                "prev border:\n{}\n, pos={}, line:\n{}",
                                prev_border.to_string(),
                                pos,
                                line.to_string()
                            );
                            let ghost b = line.segments@; //@w
                            assert(begins_border(ls0[col_no as int].1@) && b == top(ls0[col_no as int].1@)); //@w
                            prev_border.merge_from_below(&line, pos);
                            proof { //@w[
                                let k = col_no as int;
                                let pbn = prev_border.segments@;
                                assert forall|i: int| (#[trigger] merged_down(ls0, k + 1, i)) implies i < pbn.len() by {
                                    if !merged_down(ls0, k, i) { assert(joined(b[i - pos])); assert((i - pos) + pos < pbn.len()); }
                                }
                                assert forall|i: int| 0 <= i < pbn.len() implies
                                    down(#[trigger] pbn[i]) == (down(at(pb0, i)) || (merged_down(ls0, k + 1, i) && !vert(at(pb0, i)))) by {
                                    let o = at(pb0, i);
                                    if i < nb0.len() { assert(down(nb0[i]) == (down(o) || (merged_down(ls0, k, i) && !vert(o)))); assert(vert(nb0[i]) == vert(o)); }
                                    else { assert(!merged_down(ls0, k, i)); assert(o is Straight); }
                                }
                            } //@w]
                        }
                    } else {
                        unreachable!();
                    }
                }
                pos += w + 1;
            }
} //@w
//@end
} // verus!
fn main() {}
