//@unit TD — table row drawing: the line-composition loop of SubRenderer::append_columns_with_borders (src/render/text_renderer.rs)
// and the per-line padding step of its collection phase.  Imports TaggedLine (unit TE) and BorderHoriz (unit BH) under their contracts.
use vstd::prelude::*;
use std::fmt::Debug;
macro_rules! html_trace { ($($t:tt)*) => {} }
macro_rules! html_trace_quiet { ($($t:tt)*) => {} }
verus! {
//@import TE
//@import BH
use self::TaggedLineElement::Str;

//@item src/render/text_renderer.rs :: enum RenderLine
enum RenderLine<T> {
    /// Some rendered text
    Text(TaggedLine<T>),
    /// A table border line
    Line(BorderHoriz<T>),
}
//@end

// display width of a finished line
spec fn rl_w<T>(l: RenderLine<T>) -> int { match l { RenderLine::Text(t) => t.len as int, RenderLine::Line(b) => b.segments@.len() as int } }
spec fn rl_wf<T>(l: RenderLine<T>) -> bool { match l { RenderLine::Text(t) => t.wf() && all_some(t.v@), RenderLine::Line(b) => true } }
spec fn widths<X>(ls: Seq<(usize, X)>) -> Seq<usize> { ls.map(|i: int, e: (usize, X)| e.0) }
// start column of cell k in a row whose cells have widths ws and one separator column between neighbours
spec fn col_start(ws: Seq<usize>, k: int) -> int decreases k + 1 { if k <= 0 { 0 } else { col_start(ws, k - 1) + ws[k - 1] as int + 1 } }
proof fn lemma_col_mono(ws: Seq<usize>, a: int, b: int)
    requires 0 <= a <= b,
    ensures col_start(ws, a) <= col_start(ws, b),
    decreases b - a
{ if a < b { lemma_col_mono(ws, a, b - 1); } }
// A2 (trusted): the box-drawing characters used for borders are one column wide
#[verifier::external_body]
proof fn axiom_cw_box() ensures cw('─') == Some(1usize), cw('┬') == Some(1usize), cw('┴') == Some(1usize), cw('┼') == Some(1usize), cw('│') == Some(1usize), cw('/') == Some(1usize) {}
spec fn box_char(c: char) -> bool { c == '─' || c == '┬' || c == '┴' || c == '┼' || c == '│' || c == '/' || c == ' ' }
proof fn lemma_sw_box(s: Seq<char>)
    requires forall|i: int| 0 <= i < s.len() ==> box_char(#[trigger] s[i]),
    ensures sw(s) == s.len(), str_some(s),
    decreases s.len()
{
    axiom_cw_box(); axiom_cw_space();
    if s.len() > 0 { lemma_sw_box(s.drop_last()); assert(box_char(s[s.len() - 1])); }
}
// R6/R11 lowered expression `p.clone().unwrap_or_else(|| spaces[0..width].to_string())` (trusted): the stored filler, or `width`
// leading characters of `spaces`; the slice panics beyond the end of the string (ASCII: byte offsets are character offsets)
#[verifier::external_body]
fn filler_or_spaces(p: &Option<String>, spaces: &String, width: usize) -> (r: String)
    requires *p is None ==> width <= spaces@.len() && forall|i: int| 0 <= i < spaces@.len() ==> #[trigger] spaces@[i] == ' ',
    ensures r@ == (match *p { Some(s) => s@, None => spaces@.subrange(0, width as int) }),
{ unimplemented!() }
// R12: `self.add_line(l)` (contract proved in unit SR: exactly one line is appended; a text line only gains zero-width markers in front)
#[verifier::external_body]
fn add_line_stub<T>(lines: &mut Vec<RenderLine<T>>, l: RenderLine<T>)
    ensures final(lines)@.len() == old(lines)@.len() + 1, final(lines)@.drop_last() == old(lines)@, rl_w(final(lines)@.last()) == rl_w(l), final(lines)@.last() is Text == l is Text,
{ unimplemented!() }

//@slice src/render/text_renderer.rs :: impl SubRenderer :: fn append_columns_with_borders :: /let last_cellno = line_sets\.len\(\) - 1;/ .. /(?m)^        if self\.options\.draw_borders \{\n\s*self\.add_line\(RenderLine::Line\(next_border\)\);/
//@name draw_slice
//@auto C01 C05
//@sub /for \(cellno, &mut \(width, ref mut ls\)\) in line_sets\.iter_mut\(\)\.enumerate\(\)/ ==> for cellno in itc: 0..line_sets.len()
//@sub /match ls\.get_mut\(i\) \{/ ==> match (if i < ls.len() { Some(&mut ls[i]) } else { None }) {
//@sub * /self\.ann_stack\.clone\(\)/ ==> ann_stack.clone()
//@sub /&self\.ann_stack/ ==> ann_stack
//@sub /self\.options\.draw_borders/ ==> draw_borders
//@sub /column_padding\[cellno\]\s*\.clone\(\)\s*\.unwrap_or_else\(\|\| spaces\[0\.\.width\]\.to_string\(\)\)/ ==> filler_or_spaces(&column_padding[cellno], &spaces, width)
//@sub /self\.add_line\(RenderLine::Text\(line\)\);/ ==> add_line_stub(lines, RenderLine::Text(line));
spec fn cell_ok<T>(c: (usize, Vec<RenderLine<T>>), from: int) -> bool { forall|r: int| from <= r < c.1@.len() ==> rl_wf(#[trigger] c.1@[r]) && rl_w(c.1@[r]) == c.0 } //@w
spec fn pad_ok(p: Option<String>, w: usize) -> bool { p matches Some(s) ==> s@.len() == w && forall|i: int| 0 <= i < s@.len() ==> box_char(#[trigger] s@[i]) } //@w
fn draw_slice<T: Debug + Eq + PartialEq + Clone + Default>(line_sets: &mut Vec<(usize, Vec<RenderLine<T>>)>, cell_height: usize, spaces: String, column_padding: &Vec<Option<String>>, //@w
        ann_stack: &T, draw_borders: bool, lines: &mut Vec<RenderLine<T>>) //@w
    requires //@w
        tag_ok::<T>(), //@w
        old(line_sets)@.len() >= 1,     // boundary (A6): a row is only drawn when it has at least one cell (guard in render_table_row) //@w
        column_padding@.len() == old(line_sets)@.len(), //@w
        col_start(widths(old(line_sets)@), old(line_sets)@.len() as int) < 0x4000_0000_0000_0000,   // A5 //@w
        forall|k: int| 0 <= k < old(line_sets)@.len() ==> cell_ok(#[trigger] old(line_sets)@[k], 0), //@w
        forall|k: int| 0 <= k < old(line_sets)@.len() ==> pad_ok(#[trigger] column_padding@[k], old(line_sets)@[k].0), //@w
        // `spaces` is tot_width spaces, tot_width = sum of the cell widths + separators //@w
        spaces@.len() == col_start(widths(old(line_sets)@), old(line_sets)@.len() as int) - 1, forall|i: int| 0 <= i < spaces@.len() ==> #[trigger] spaces@[i] == ' ', //@w
    ensures //@w
        // one output line per row of the tallest cell; every one of them is a text line exactly as wide as the row: //@w
        // the cells at their widths, one separator column between neighbours (C05: equal widths, bars in the same columns; C02) //@w
        final(lines)@.len() == old(lines)@.len() + cell_height, //@w @C05 #one_line_per_cell_row
        forall|j: int| 0 <= j < old(lines)@.len() ==> #[trigger] final(lines)@[j] == old(lines)@[j], //@w @C03 #draw_keeps_earlier_lines
        forall|j: int| old(lines)@.len() <= j < final(lines)@.len() ==> (#[trigger] final(lines)@[j]) is Text //@w @C05 @C02 #row_lines_have_the_row_width
            && rl_w(final(lines)@[j]) == col_start(widths(old(line_sets)@), old(line_sets)@.len() as int) - 1, //@w @C05 @C02 #row_lines_have_the_row_width
{ //@w
        let ghost ls0 = line_sets@; //@w
        let ghost ws = widths(line_sets@); //@w
        let ghost n = line_sets@.len() as int; //@w
        let ghost l0 = lines@; //@w
        let last_cellno = line_sets.len() - 1;
        let mut line = TaggedLine::new();
        for i in 0..cell_height
            invariant //@w
                tag_ok::<T>(), n >= 1, n == ls0.len(), line_sets@.len() == n, column_padding@.len() == n, ws == widths(ls0), last_cellno == n - 1, //@w
                col_start(ws, n) < 0x4000_0000_0000_0000, //@w
                forall|k: int| 0 <= k < n ==> (#[trigger] line_sets@[k]).0 == ws[k] && line_sets@[k].1@.len() == ls0[k].1@.len(), //@w
                forall|k: int| 0 <= k < n ==> cell_ok(#[trigger] line_sets@[k], i as int), //@w
                forall|k: int| 0 <= k < n ==> pad_ok(#[trigger] column_padding@[k], ws[k]), //@w
                spaces@.len() == col_start(ws, n) - 1, forall|q: int| 0 <= q < spaces@.len() ==> #[trigger] spaces@[q] == ' ', //@w
                line.wf(), line.len == 0, all_some(line.v@), //@w
                lines@.len() == l0.len() + i, forall|j: int| 0 <= j < l0.len() ==> #[trigger] lines@[j] == l0[j], //@w
                forall|j: int| l0.len() <= j < lines@.len() ==> (#[trigger] lines@[j]) is Text && rl_w(lines@[j]) == col_start(ws, n) - 1, //@w
        {
            for cellno in itc: 0..line_sets.len()
                invariant //@w
                    itc.iter.end == n, //@w
                    tag_ok::<T>(), n >= 1, n == ls0.len(), line_sets@.len() == n, column_padding@.len() == n, ws == widths(ls0), last_cellno == n - 1, //@w
                    col_start(ws, n) < 0x4000_0000_0000_0000, //@w
                    forall|k: int| 0 <= k < n ==> (#[trigger] line_sets@[k]).0 == ws[k] && line_sets@[k].1@.len() == ls0[k].1@.len(), //@w
                    forall|k: int| 0 <= k < cellno ==> cell_ok(#[trigger] line_sets@[k], i as int + 1), //@w
                    forall|k: int| cellno <= k < n ==> cell_ok(#[trigger] line_sets@[k], i as int), //@w
                    forall|k: int| 0 <= k < n ==> pad_ok(#[trigger] column_padding@[k], ws[k]), //@w
                    spaces@.len() == col_start(ws, n) - 1, forall|q: int| 0 <= q < spaces@.len() ==> #[trigger] spaces@[q] == ' ', //@w
                    line.wf(), all_some(line.v@), //@w
                    // the line built so far ends exactly where cell `cellno` starts: cells and separators sit in the same columns on every line (C05) //@w
                    line.len == col_start(ws, cellno as int) - (if cellno as int == n { 1int } else { 0int }), //@w
            {
                let width = line_sets[cellno].0; //@w
                proof { lemma_col_mono(ws, cellno as int + 1, n); assert(ws[cellno as int] == width); } //@w
                proof { //@w
                    assert forall|s: Seq<char>| (forall|q: int| 0 <= q < s.len() ==> box_char(#[trigger] s[q])) implies #[trigger] sw(s) == s.len() && str_some(s) by { lemma_sw_box(s); } //@w
                    lemma_col_mono(ws, 0, cellno as int); //@w
                    assert(cell_ok(line_sets@[cellno as int], i as int)); //@w
                    assert(pad_ok(column_padding@[cellno as int], ws[cellno as int])); //@w
                } //@w
                let ghost cell0 = line_sets@[cellno as int]; //@w
                let ls = &mut line_sets[cellno].1; //@w
                match (if i < ls.len() { Some(&mut ls[i]) } else { None }) {
                    Some(RenderLine::Text(tline)) => line.consume(tline),
                    Some(RenderLine::Line(bord)) => line.push(Str(TaggedString {
                        s: bord.to_string(),
                        tag: ann_stack.clone(),
                    })),
                    None => line.push(Str(TaggedString {
                        s: filler_or_spaces(&column_padding[cellno], &spaces, width),
                        tag: ann_stack.clone(),
                    })),
                }
                assert(line.len == col_start(ws, cellno as int) + width); //@w @C05 #cell_occupies_its_width
                proof { axiom_cw_box(); axiom_cw_space(); assert(col_start(ws, cellno as int + 1) == col_start(ws, cellno as int) + ws[cellno as int] + 1); } //@w
                if cellno != last_cellno {
                    line.push_char(
                        if draw_borders {
                            '│'
                        } else {
                            ' '
                        },
                        ann_stack,
                    );
                }
            }
            let ghost lines_before = lines@; //@w
            add_line_stub(lines, RenderLine::Text(line));
            proof { //@w
                assert forall|j: int| 0 <= j < lines_before.len() implies #[trigger] lines@[j] == lines_before[j] by { assert(lines@.drop_last()[j] == lines@[j]); } //@w
            } //@w
            line = TaggedLine::new();
        }
} //@w
//@end

//@slice src/render/text_renderer.rs :: impl SubRenderer :: fn append_columns_with_borders :: /(?<=\.map\(\|mut line\| \{\n) +\S/ .. /(?m)^ +line\n +\}\)/
//@name pad_cell_line_slice
//@rule R21
//@auto C01 C05
//@sub /&self\.ann_stack/ ==> ann_stack
fn pad_cell_line_slice<T: Debug + Eq + PartialEq + Clone + Default>(line: RenderLine<T>, width: usize, ann_stack: &T) -> (r: RenderLine<T>) //@w[
    requires tag_ok::<T>(), rl_wf(line),
    ensures
        // every line of a cell is brought to the cell's width before the row is drawn: text padded, nested rules stretched (C05)
        rl_w(r) == (if rl_w(line) <= width { width as int } else { rl_w(line) }), //@w @C05 @C02 #cell_lines_brought_to_cell_width
        rl_wf(r), r is Text == line is Text, //@w @C05
{
    let mut line = line; //@w]
                            match &mut line {
                                RenderLine::Text(tline) => {
                                    tline.pad_to(width, ann_stack);
                                }
                                RenderLine::Line(border) => {
                                    border.stretch_to(width);
                                }
                            }
    line //@w
} //@w
//@end
} // verus!
fn main() {}
