//@unit TN — RenderTable::new: remapping of column positions (src/lib.rs:471-524).  Establishes what the allocation (TB) and the
// estimate (SE) take as boundary conditions: every colspan is at least 1 and every row stays inside num_columns; cells that started at
// the same column still do.  R10: BTreeSet / HashMap are opaque; the sorted enumeration `into_iter().enumerate().map(..).collect()`
// is one trusted function (rank_map).  RenderNode content is opaque here.
use vstd::prelude::*;
macro_rules! html_trace { ($($t:tt)*) => {} }
macro_rules! html_trace_quiet { ($($t:tt)*) => {} }
verus! {
global size_of usize == 8;
struct ComputedStyle { x: u8 }
struct RenderNode { x: u8 }
struct CellOpt { x: u8 }
impl CellOpt { #[verifier::external_body] fn new_none() -> (r: CellOpt) { unimplemented!() } }      // Cell::new(None)
#[verifier::external_body] struct BTreeSet { x: u8 }
impl BTreeSet {
    uninterp spec fn view(&self) -> Set<usize>;
    #[verifier::external_body] fn new() -> (r: BTreeSet) ensures r@ == Set::<usize>::empty() { unimplemented!() }
    #[verifier::external_body] fn insert(&mut self, x: usize) -> (b: bool) ensures final(self)@ == old(self)@.insert(x) { unimplemented!() }
}
// R7 (trusted, std semantics): `set.into_iter().enumerate().map(|(i, pos)| (pos, i)).collect::<HashMap<_, _>>()`: BTreeSet iterates in
// ascending order, so each member is mapped to its rank
#[verifier::external_body] struct RankMap { x: u8 }
impl RankMap {
    uninterp spec fn dom(&self) -> Set<usize>;
    uninterp spec fn rk(&self, p: usize) -> usize;
    #[verifier::external_body] fn get(&self, k: &usize) -> (r: Option<&usize>) ensures self.dom().contains(*k) ==> r == Some(&self.rk(*k)), !self.dom().contains(*k) ==> r is None { unimplemented!() }
}
#[verifier::external_body]
fn rank_map(s: BTreeSet) -> (m: RankMap)
    ensures rank_ok(m, s@),
{ unimplemented!() }
spec fn rank_ok(m: RankMap, s: Set<usize>) -> bool {
    &&& m.dom() == s
    &&& forall|p: usize, q: usize| s.contains(p) && s.contains(q) && p < q ==> #[trigger] m.rk(p) < #[trigger] m.rk(q)     // ascending order
    &&& forall|p: usize| s.contains(p) ==> (#[trigger] m.rk(p)) < 0x1_0000_0000_0000                                              // A5: fewer than 2^48 positions
    &&& (s.contains(0) ==> m.rk(0) == 0)                                                                                          // the smallest member has rank 0
}
spec fn sat(a: int, b: int) -> int { if a + b > usize::MAX { usize::MAX as int } else { a + b } }

//@item src/lib.rs :: struct RenderTableCell
//@sub /size_estimate: Cell<Option<SizeEstimate>>/ ==> size_estimate: CellOpt
struct RenderTableCell {
    colspan: usize,
    content: Vec<RenderNode>,
    size_estimate: CellOpt,
    col_width: Option<usize>, // Actual width to use
    style: ComputedStyle,
}
//@end
//@item src/lib.rs :: struct RenderTableRow
struct RenderTableRow {
    cells: Vec<RenderTableCell>,
    col_sizes: Option<Vec<usize>>,
    style: ComputedStyle,
}
//@end
//@item src/lib.rs :: struct RenderTable
//@sub /size_estimate: Cell<Option<SizeEstimate>>/ ==> size_estimate: CellOpt
struct RenderTable {
    rows: Vec<RenderTableRow>,
    num_columns: usize,
    size_estimate: CellOpt,
}
//@end

spec fn same_seq<T>(a: Seq<&T>, b: Seq<T>) -> bool { a.len() == b.len() && forall|i: int| 0 <= i < b.len() ==> *(#[trigger] a[i]) == b[i] }
// saturating prefix sums of the ORIGINAL colspans: the column position at which cell k of a row starts
spec fn pos_of(cells: Seq<RenderTableCell>, k: int) -> int decreases k { if k <= 0 { 0 } else { sat(pos_of(cells, k - 1), cells[k - 1].colspan as int) } }
// number of columns a row takes (RenderTableRow::num_cells)
spec fn ncells(cells: Seq<RenderTableCell>, k: int) -> int decreases k { if k <= 0 { 0 } else { ncells(cells, k - 1) + (if cells[k - 1].colspan >= 1 { cells[k - 1].colspan as int } else { 1 }) } }
spec fn same_cell(a: RenderTableCell, b: RenderTableCell) -> bool { a.content == b.content && a.size_estimate == b.size_estimate && a.col_width == b.col_width && a.style == b.style }
proof fn lemma_pos_mono(cells: Seq<RenderTableCell>, a: int, b: int) requires 0 <= a <= b ensures pos_of(cells, a) <= pos_of(cells, b) <= usize::MAX decreases b - a { if a < b { lemma_pos_mono(cells, a, b - 1); } else { lemma_pos_bound(cells, a); } }
proof fn lemma_pos_bound(cells: Seq<RenderTableCell>, k: int) ensures 0 <= pos_of(cells, k) <= usize::MAX decreases k { if k > 0 { lemma_pos_bound(cells, k - 1); } }
// R7: `.iter().map(|cell| cell.colspan.max(1)).sum()` as a proved accumulator; the sum must not overflow (C01)
fn sum_spans(cells: &Vec<RenderTableCell>) -> (r: usize)
    requires ncells(cells@, cells@.len() as int) <= usize::MAX,
    ensures r == ncells(cells@, cells@.len() as int),
{
    let mut acc: usize = 0;
    for k in 0..cells.len()
        invariant acc == ncells(cells@, k as int), ncells(cells@, cells@.len() as int) <= usize::MAX,
    { proof { lemma_ncells_mono(cells@, k as int + 1, cells@.len() as int); } acc += cells[k].colspan.max(1); }
    acc
}
proof fn lemma_ncells_mono(cells: Seq<RenderTableCell>, a: int, b: int) requires 0 <= a <= b ensures 0 <= ncells(cells, a) <= ncells(cells, b) decreases b - a { if a < b { lemma_ncells_mono(cells, a, b - 1); } else { lemma_ncells_nonneg(cells, a); } }
proof fn lemma_ncells_nonneg(cells: Seq<RenderTableCell>, k: int) ensures 0 <= ncells(cells, k) decreases k { if k > 0 { lemma_ncells_nonneg(cells, k - 1); } }
impl RenderTableRow {
//@item src/lib.rs :: impl RenderTableRow :: fn num_cells
//@auto C01 C06
//@sub /-> usize/ ==> -> (r: usize)
//@sub /self\.cells\.iter\(\)\.map\(\|cell\| cell\.colspan\.max\(1\)\)\.sum\(\)/ ==> sum_spans(&self.cells)
    fn num_cells(&self) -> (r: usize)
        requires ncells(self.cells@, self.cells@.len() as int) <= usize::MAX, //@w
        ensures r == ncells(self.cells@, self.cells@.len() as int), //@w @C06 #num_cells_is_sum_of_spans
    {
        sum_spans(&self.cells)
    }
//@end
}
// R7: `rows.iter().map(|r| r.num_cells()).max().unwrap_or(0)` as a proved loop
fn max_num_cells(rows: &Vec<RenderTableRow>) -> (r: usize)
    requires forall|i: int| 0 <= i < rows@.len() ==> ncells((#[trigger] rows@[i]).cells@, rows@[i].cells@.len() as int) <= usize::MAX,
    ensures forall|i: int| 0 <= i < rows@.len() ==> ncells((#[trigger] rows@[i]).cells@, rows@[i].cells@.len() as int) <= r,
        rows@.len() == 0 ==> r == 0,
{
    let mut m: usize = 0;
    for k in 0..rows.len()
        invariant forall|i: int| 0 <= i < k ==> ncells((#[trigger] rows@[i]).cells@, rows@[i].cells@.len() as int) <= m, k == 0 ==> m == 0,
            forall|i: int| 0 <= i < rows@.len() ==> ncells((#[trigger] rows@[i]).cells@, rows@[i].cells@.len() as int) <= usize::MAX,
    { let c = rows[k].num_cells(); if c > m { m = c; } }
    m
}
// the new colspan of cell j of a row under the position ranking m: the number of distinct positions it covers, at least 1
spec fn new_span(m: RankMap, cells: Seq<RenderTableCell>, j: int) -> int {
    let d = m.rk(pos_of(cells, j + 1) as usize) - m.rk(pos_of(cells, j) as usize);
    if d >= 1 { d } else { 1 }
}
spec fn row_done(m: RankMap, old_cells: Seq<RenderTableCell>, new_cells: Seq<RenderTableCell>, upto: int) -> bool {
    new_cells.len() == old_cells.len()
    && forall|j: int| 0 <= j < upto ==> same_cell(old_cells[j], #[trigger] new_cells[j]) && new_cells[j].colspan == new_span(m, old_cells, j)
}
// positions known to the set: 0 and every cell boundary of the first `nrows` rows
spec fn has_positions(s: Set<usize>, rows: Seq<RenderTableRow>, nrows: int) -> bool {
    s.contains(0) && forall|i: int, k: int| 0 <= i < nrows && 0 <= k <= rows[i].cells@.len() ==> s.contains(#[trigger] pos_of(rows[i].cells@, k) as usize)
}
// the columns a remapped row takes: at most the rank of its last position plus one per cell (each cell takes max(rank difference, 1))
proof fn lemma_ncells_bound(m: RankMap, s: Set<usize>, oc: Seq<RenderTableCell>, nc: Seq<RenderTableCell>, k: int)
    requires rank_ok(m, s), 0 <= k <= oc.len(), row_done(m, oc, nc, oc.len() as int), forall|j: int| 0 <= j <= oc.len() ==> s.contains(#[trigger] pos_of(oc, j) as usize),
    ensures 0 <= ncells(nc, k) <= m.rk(pos_of(oc, k) as usize) + k,
    decreases k
{
    if k > 0 {
        lemma_ncells_bound(m, s, oc, nc, k - 1);
        lemma_pos_mono(oc, k - 1, k); lemma_pos_bound(oc, k - 1);
        assert(s.contains(pos_of(oc, k - 1) as usize) && s.contains(pos_of(oc, k) as usize));
        assert(nc[k - 1].colspan == new_span(m, oc, k - 1));
    }
}
// without saturation a remapped row is the image of the old one under the ranking: cell k starts at column rk(old start of cell k)
proof fn lemma_ncells_exact(m: RankMap, s: Set<usize>, oc: Seq<RenderTableCell>, nc: Seq<RenderTableCell>, k: int)
    requires rank_ok(m, s), s.contains(0), 0 <= k <= oc.len(), row_done(m, oc, nc, oc.len() as int), forall|j: int| 0 <= j <= oc.len() ==> s.contains(#[trigger] pos_of(oc, j) as usize),
        forall|j: int| 0 <= j < oc.len() ==> (#[trigger] oc[j]).colspan >= 1, pos_of(oc, oc.len() as int) < usize::MAX,
    ensures ncells(nc, k) == m.rk(pos_of(oc, k) as usize),
    decreases k
{
    if k > 0 {
        lemma_ncells_exact(m, s, oc, nc, k - 1);
        lemma_pos_mono(oc, k, oc.len() as int); lemma_pos_bound(oc, k - 1);
        assert(oc[k - 1].colspan >= 1);
        assert(pos_of(oc, k) == pos_of(oc, k - 1) + oc[k - 1].colspan);
        assert(s.contains(pos_of(oc, k - 1) as usize) && s.contains(pos_of(oc, k) as usize));
        assert(nc[k - 1].colspan == new_span(m, oc, k - 1));
    }
}
// cells never leave their columns (C06): there is a strictly increasing renumbering of the old column positions such that, in every
// row whose spans do not saturate, cell k starts at the renumbered old start of cell k — equal starts stay equal, left-of stays left-of
spec fn aligned(old_rows: Seq<RenderTableRow>, new_rows: Seq<RenderTableRow>) -> bool {
    exists|m: RankMap| #[trigger] order_preserving(m, old_rows)
        && forall|i: int, k: int| 0 <= i < old_rows.len() && 0 <= k <= old_rows[i].cells@.len() && pos_of(old_rows[i].cells@, old_rows[i].cells@.len() as int) < usize::MAX
            ==> #[trigger] ncells(new_rows[i].cells@, k) == m.rk(pos_of(old_rows[i].cells@, k) as usize)
}
spec fn order_preserving(m: RankMap, old_rows: Seq<RenderTableRow>) -> bool {
    forall|i1: int, k1: int, i2: int, k2: int| 0 <= i1 < old_rows.len() && 0 <= k1 <= old_rows[i1].cells@.len() && 0 <= i2 < old_rows.len() && 0 <= k2 <= old_rows[i2].cells@.len()
        && #[trigger] pos_of(old_rows[i1].cells@, k1) < #[trigger] pos_of(old_rows[i2].cells@, k2) ==> m.rk(pos_of(old_rows[i1].cells@, k1) as usize) < m.rk(pos_of(old_rows[i2].cells@, k2) as usize)
}
impl RenderTable {
//@item src/lib.rs :: impl RenderTable :: fn new
//@auto C01 C06
//@sub /fn new\(mut rows: Vec<RenderTableRow>\) -> RenderTable/ ==> fn new(rows: Vec<RenderTableRow>) -> (r: RenderTable)
//@sub /for row in &rows/ ==> for row in itr: &rows
//@sub /for cell in row\.cells\(\)/ ==> for cell in itc: &row.cells
//@sub /let colmap: HashMap<_, _> = col_positions\s*\.into_iter\(\)\s*\.enumerate\(\)\s*\.map\(\|\(i, pos\)\| \(pos, i\)\)\s*\.collect\(\);/ ==> let colmap = rank_map(col_positions);
//@sub /for row in &mut rows/ ==> for ri in itr2: 0..rows.len()
//@sub /for cell in row\.cells_mut\(\)/ ==> for ci in itc2: 0..rows[ri].cells.len()
//@sub /let mut mapped_pos = 0;/ ==> let mut mapped_pos: usize = 0;
//@sub /rows\.iter\(\)\.map\(\|r\| r\.num_cells\(\)\)\.max\(\)\.unwrap_or\(0\)/ ==> max_num_cells(&rows)
//@sub /Cell::new\(None\)/ ==> CellOpt::new_none()
    fn new(rows: Vec<RenderTableRow>) -> (r: RenderTable)
        requires //@w
            // boundary: zero colspans have been replaced before (tbody_to_render_tree, proved in unit TB: colspan0_slice) //@w
            forall|i: int, j: int| 0 <= i < rows@.len() && 0 <= j < rows@[i].cells@.len() ==> (#[trigger] rows@[i].cells@[j]).colspan >= 1, //@w
            rows@.len() <= 0x1_0000_0000 && forall|i: int| 0 <= i < rows@.len() ==> (#[trigger] rows@[i]).cells@.len() <= 0x10000,    // A5 //@w
        ensures //@w
            r.rows@.len() == rows@.len(), //@w
            // cells keep their content; every colspan is at least 1 and every row stays inside the columns (what TB and SE assume) //@w
            forall|i: int| 0 <= i < rows@.len() ==> (#[trigger] r.rows@[i]).cells@.len() == rows@[i].cells@.len() && r.rows@[i].col_sizes == rows@[i].col_sizes && r.rows@[i].style == rows@[i].style, //@w @C03 @C06 #remap_keeps_rows
            forall|i: int, j: int| 0 <= i < rows@.len() && 0 <= j < rows@[i].cells@.len() ==> same_cell(rows@[i].cells@[j], #[trigger] r.rows@[i].cells@[j]) && r.rows@[i].cells@[j].colspan >= 1, //@w @C03 @C06 @C01 #remap_keeps_cells_and_spans_positive
            forall|i: int| 0 <= i < rows@.len() ==> ncells((#[trigger] r.rows@[i]).cells@, r.rows@[i].cells@.len() as int) <= r.num_columns, //@w @C06 @C01 #rows_inside_the_columns
            aligned(rows@, r.rows@), //@w @C06 @C05 #cells_keep_their_columns
    {
        let mut rows = rows; /* R19: `mut rows` parameter */ //@w
        let ghost rows0 = rows@; //@w
        // We later on want to allocate a vector sized by the column count,
        // but occasionally we see something like colspan="1000000000".  We
        // handle this by remapping the column ids to the smallest values
        // possible.
        //
        // Tables with no explicit colspan will be unchanged, but if there
        // are multiple columns each covered by a single <td> on every row,
        // they will be collapsed into a single column.  For example:
        //
        //    <td><td colspan=1000><td>
        //    <td colspan=1000><td><td>
        //
        //  becomes the equivalent:
        //    <td><td colspan=2><td>
        //    <td colspan=2><td><td>

        // This will include 0 and the index after the last colspan.
        let mut col_positions = BTreeSet::new();
        col_positions.insert(0);
        for row in itr: &rows
            invariant rows@ == rows0, same_seq(itr.seq(), rows0), has_positions(col_positions@, rows0, itr.index@), //@w @C03 @C05 @C06 #new_loop_invariant
        {
            let ghost ri = itr.index@; //@w
            let mut col = 0usize;
            for cell in itc: &row.cells
                invariant //@w
                    rows@ == rows0, 0 <= ri < rows0.len(), *row == rows0[ri], same_seq(itc.seq(), row.cells@), //@w @C03 @C05 @C06 #new_loop_invariant
                    has_positions(col_positions@, rows0, ri), col == pos_of(row.cells@, itc.index@), //@w @C03 @C05 @C06 #new_loop_invariant
                    forall|k: int| 0 <= k <= itc.index@ ==> col_positions@.contains(#[trigger] pos_of(row.cells@, k) as usize), //@w @C03 @C05 @C06 #new_loop_invariant
            {
                proof { lemma_pos_bound(row.cells@, itc.index@ + 1); } //@w
                // Huge colspans (e.g. usize::MAX) must not overflow.
                col = col.saturating_add(cell.colspan);
                col_positions.insert(col);
            }
        }
        let ghost posset = col_positions@; //@w

        let colmap = rank_map(col_positions);
        let ghost n = rows0.len(); //@w

        for ri in itr2: 0..rows.len()
            invariant //@w
                itr2.iter.end == n, rows@.len() == n, n == rows0.len(), rank_ok(colmap, posset), has_positions(posset, rows0, n as int), //@w @C03 @C05 @C06 #new_loop_invariant
                forall|i: int, j: int| 0 <= i < n && 0 <= j < rows0[i].cells@.len() ==> (#[trigger] rows0[i].cells@[j]).colspan >= 1, //@w @C03 @C05 @C06 #new_loop_invariant
                forall|i: int| 0 <= i < n ==> (#[trigger] rows0[i]).cells@.len() <= 0x10000, //@w @C03 @C05 @C06 #new_loop_invariant
                forall|i: int| ri <= i < n ==> #[trigger] rows@[i] == rows0[i], //@w @C03 @C05 @C06 #new_loop_invariant
                forall|i: int| 0 <= i < ri ==> (#[trigger] rows@[i]).col_sizes == rows0[i].col_sizes && rows@[i].style == rows0[i].style && row_done(colmap, rows0[i].cells@, rows@[i].cells@, rows0[i].cells@.len() as int), //@w @C03 @C05 @C06 #new_loop_invariant
        {
            let mut pos = 0usize;
            let mut mapped_pos: usize = 0;
            let ghost oc = rows0[ri as int].cells@; //@w
            for ci in itc2: 0..rows[ri].cells.len()
                invariant //@w
                    itc2.iter.end == oc.len(), oc == rows0[ri as int].cells@, 0 <= ri < n, //@w @C03 @C05 @C06 #new_loop_invariant
                    itr2.iter.end == n, rows@.len() == n, n == rows0.len(), rank_ok(colmap, posset), has_positions(posset, rows0, n as int), //@w @C03 @C05 @C06 #new_loop_invariant
                    forall|i: int, j: int| 0 <= i < n && 0 <= j < rows0[i].cells@.len() ==> (#[trigger] rows0[i].cells@[j]).colspan >= 1, //@w @C03 @C05 @C06 #new_loop_invariant
                    forall|i: int| 0 <= i < n ==> (#[trigger] rows0[i]).cells@.len() <= 0x10000, //@w @C03 @C05 @C06 #new_loop_invariant
                    forall|i: int| ri < i < n ==> #[trigger] rows@[i] == rows0[i], //@w @C03 @C05 @C06 #new_loop_invariant
                    forall|i: int| 0 <= i < ri ==> (#[trigger] rows@[i]).col_sizes == rows0[i].col_sizes && rows@[i].style == rows0[i].style && row_done(colmap, rows0[i].cells@, rows@[i].cells@, rows0[i].cells@.len() as int), //@w @C03 @C05 @C06 #new_loop_invariant
                    rows@[ri as int].col_sizes == rows0[ri as int].col_sizes && rows@[ri as int].style == rows0[ri as int].style, //@w @C03 @C05 @C06 #new_loop_invariant
                    row_done(colmap, oc, rows@[ri as int].cells@, ci as int), //@w @C03 @C05 @C06 #new_loop_invariant
                    forall|j: int| ci <= j < oc.len() ==> #[trigger] rows@[ri as int].cells@[j] == oc[j], //@w @C03 @C05 @C06 #new_loop_invariant
                    pos == pos_of(oc, ci as int), mapped_pos == colmap.rk(pos), //@w @C03 @C05 @C06 #new_loop_invariant
            {
                proof { //@w
                    lemma_pos_bound(oc, ci as int + 1); lemma_pos_mono(oc, ci as int, ci as int + 1); //@w
                    assert(posset.contains(pos_of(oc, ci as int) as usize)); assert(posset.contains(pos_of(oc, ci as int + 1) as usize)); //@w
                    assert(oc[ci as int].colspan >= 1); //@w
                } //@w
                let cell = &mut rows[ri].cells[ci]; /* R7: iter_mut -> index */ //@w
                let nextpos = pos.saturating_add(cell.colspan.max(1));
                let next_mapped_pos = *colmap.get(&nextpos).unwrap();
                // Positions can coincide once the sums above have saturated.
                cell.colspan = (next_mapped_pos - mapped_pos).max(1);
                pos = nextpos;
                mapped_pos = next_mapped_pos;
            }
        }
        proof { //@w
            assert forall|i: int| 0 <= i < rows@.len() implies ncells((#[trigger] rows@[i]).cells@, rows@[i].cells@.len() as int) <= usize::MAX by { //@w
                lemma_ncells_bound(colmap, posset, rows0[i].cells@, rows@[i].cells@, rows0[i].cells@.len() as int); //@w
                assert(posset.contains(pos_of(rows0[i].cells@, rows0[i].cells@.len() as int) as usize)); //@w
            } //@w
        } //@w

        proof { //@w[
            lemma_pos_bound(rows0[0].cells@, 0);
            assert forall|i1: int, k1: int, i2: int, k2: int| 0 <= i1 < n && 0 <= k1 <= rows0[i1].cells@.len() && 0 <= i2 < n && 0 <= k2 <= rows0[i2].cells@.len()
                && #[trigger] pos_of(rows0[i1].cells@, k1) < #[trigger] pos_of(rows0[i2].cells@, k2) implies colmap.rk(pos_of(rows0[i1].cells@, k1) as usize) < colmap.rk(pos_of(rows0[i2].cells@, k2) as usize) by {
                lemma_pos_bound(rows0[i1].cells@, k1); lemma_pos_bound(rows0[i2].cells@, k2);
                assert(posset.contains(pos_of(rows0[i1].cells@, k1) as usize) && posset.contains(pos_of(rows0[i2].cells@, k2) as usize));
            }
            assert(order_preserving(colmap, rows0));
            assert forall|i: int, k: int| 0 <= i < n && 0 <= k <= rows0[i].cells@.len() && pos_of(rows0[i].cells@, rows0[i].cells@.len() as int) < usize::MAX
                implies #[trigger] ncells(rows@[i].cells@, k) == colmap.rk(pos_of(rows0[i].cells@, k) as usize) by {
                lemma_ncells_exact(colmap, posset, rows0[i].cells@, rows@[i].cells@, k);
            }
            assert(aligned(rows0, rows@));
        } //@w]
        let num_columns = max_num_cells(&rows);
        RenderTable {
            rows,
            num_columns,
            size_estimate: CellOpt::new_none(),
        }
    }
//@end
}
} // verus!
fn main() {}
