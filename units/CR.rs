//@unit CR — which rules take part in the cascade: the rule loop of StyleData::computed_style (src/css.rs:467-486).
// Imports selector matching (unit SM) under its proved contract.  merge_computed_style and Selector::specificity are abstract here
// (the cascade comparison itself and the counting are proved in unit CS).
//@verus-arg --cfg
//@verus-arg feature="css"
use vstd::prelude::*;
use vstd::arithmetic::mul::*;
use std::rc::Rc;
macro_rules! html_trace { ($($t:tt)*) => {} }
macro_rules! html_trace_quiet { ($($t:tt)*) => {} }
verus! {
//@import SM

// R10: opaque here
struct Style { x: u8 }
struct ComputedStyle { x: u8 }
struct Specificity { x: u8 }
#[derive(Copy, Clone)]
enum StyleOrigin { None, Agent, User, Author }      // src/lib.rs:135 (declaration order as there)
#[derive(Copy, Clone)]
enum Importance { Default, Important }                // src/css/types.rs:2
//@item src/css.rs :: struct StyleDecl
struct StyleDecl {
    style: Style,
    importance: Importance,
}
//@end
//@item src/css.rs :: struct Ruleset
struct Ruleset {
    selector: Selector,
    styles: Vec<StyleDecl>,
}
//@end
//@item src/css.rs :: struct StyleData
struct StyleData {
    agent_rules: Vec<Ruleset>,
    user_rules: Vec<Ruleset>,
    author_rules: Vec<Ruleset>,
}
//@end

// Selector::specificity (contract proved in unit CS: the id / class / element counts)
uninterp spec fn spec_of(s: Selector) -> Specificity;
impl Selector { #[verifier::external_body] fn specificity(&self) -> (r: Specificity) ensures r == spec_of(*self) { unimplemented!() } }
// R13: `style.importance == Importance::Important` (derived PartialEq)
fn is_important(style: &StyleDecl) -> (r: bool) ensures r == (style.importance is Important) { match style.importance { Importance::Important => true, Importance::Default => false } }
// merge_computed_style (src/css.rs:547-620) as an abstract state transformer; which value wins inside it is WithSpec::maybe_update (unit CS)
uninterp spec fn merged(cs: ComputedStyle, important: bool, origin: StyleOrigin, spec: Specificity, pseudo: Option<PseudoElement>, decl: StyleDecl) -> ComputedStyle;
spec fn deref_opt(p: Option<&PseudoElement>) -> Option<PseudoElement> { match p { Some(x) => Some(*x), None => None } }
#[verifier::external_body]
fn merge_computed_style(result: &mut ComputedStyle, important: bool, origin: StyleOrigin, specificity: Specificity, pseudo_selectors: Option<&PseudoElement>, style: &StyleDecl)
    ensures *final(result) == merged(*old(result), important, origin, specificity, deref_opt(pseudo_selectors), *style),
{ unimplemented!() }

// ---- the cascade input, from the property (C19, C20): every declaration of every rule whose selector matches the element, from all
// three origins in the order agent, user, author, each with its own importance, its rule's specificity and pseudo-element; rules that do
// not match take no part
spec fn styles_applied(cs: ComputedStyle, rule: Ruleset, origin: StyleOrigin, k: int) -> ComputedStyle decreases k {
    if k <= 0 { cs } else {
        merged(styles_applied(cs, rule, origin, k - 1), rule.styles@[k - 1].importance is Important, origin, spec_of(rule.selector), rule.selector.pseudo_element, rule.styles@[k - 1])
    }
}
spec fn rules_applied(cs: ComputedStyle, rules: Seq<Ruleset>, origin: StyleOrigin, node: Handle, k: int) -> ComputedStyle decreases k {
    if k <= 0 { cs } else {
        let p = rules_applied(cs, rules, origin, node, k - 1);
        if m(rules[k - 1].selector.components@, 0, node) { styles_applied(p, rules[k - 1], origin, rules[k - 1].styles@.len() as int) } else { p }
    }
}
spec fn same_seq2<T>(a: Seq<&T>, b: Seq<T>) -> bool { a.len() == b.len() && forall|i: int| 0 <= i < b.len() ==> *(#[trigger] a[i]) == b[i] }

//@slice src/css.rs :: impl StyleData :: fn computed_style :: /for \(origin, ruleset\) in \[/ .. /(?m)^        #\[cfg\(feature = "css"\)\]\n        if _use_doc_css \{/
//@name rules_slice
//@auto C01 C19 C20 C18
//@sub /for \(origin, ruleset\) in (\[[^\]]*\])/ ==> let origins = \1;\n        for oi in 0..3usize
//@sub * /&self\./ ==> &this.
//@sub /for rule in ruleset/ ==> for rule in itr: ruleset
//@sub /for style in rule\.styles\.iter\(\)/ ==> for style in its: rule.styles.iter()
//@sub /Self::merge_computed_style\(/ ==> merge_computed_style(
//@sub /&mut result,/ ==> &mut *result,
//@sub /style\.importance == Importance::Important/ ==> is_important(style)
spec fn all_applied(cs: ComputedStyle, d: StyleData, node: Handle, upto: int) -> ComputedStyle { //@w[
    let a = if upto >= 1 { rules_applied(cs, d.agent_rules@, StyleOrigin::Agent, node, d.agent_rules@.len() as int) } else { cs };
    let u = if upto >= 2 { rules_applied(a, d.user_rules@, StyleOrigin::User, node, d.user_rules@.len() as int) } else { a };
    if upto >= 3 { rules_applied(u, d.author_rules@, StyleOrigin::Author, node, d.author_rules@.len() as int) } else { u }
}
fn rules_slice(this: &StyleData, handle: &Handle, result: &mut ComputedStyle)
    requires node_ok(*handle),      // computed_style is called on element handles (process_dom_node)
    ensures *final(result) == all_applied(*old(result), *this, *handle, 3), //@w @C18 @C19 @C20 #every_matching_rule_of_every_origin_takes_part
{ //@w]
        let origins = [
            (StyleOrigin::Agent, &this.agent_rules),
            (StyleOrigin::User, &this.user_rules),
            (StyleOrigin::Author, &this.author_rules),
        ];
        for oi in 0..3usize
            invariant //@w[
                node_ok(*handle), *result == all_applied(*old(result), *this, *handle, oi as int),
                origins@.len() == 3, origins@[0] == (StyleOrigin::Agent, &this.agent_rules), origins@[1] == (StyleOrigin::User, &this.user_rules), origins@[2] == (StyleOrigin::Author, &this.author_rules),
            //@w]
        {
            let (origin, ruleset) = origins[oi]; //@w
            let ghost base = *result; //@w
            for rule in itr: ruleset
                invariant node_ok(*handle), same_seq2(itr.seq(), ruleset@), *result == rules_applied(base, ruleset@, origin, *handle, itr.index@), //@w @C18 @C19 @C20 #every_matching_rule_of_every_origin_takes_part
            {
                let ghost rbase = *result; //@w
                let ghost ri = itr.index@; //@w
                assert(*rule == ruleset@[ri]); //@w
                if rule.selector.matches(handle) {
                    for style in its: rule.styles.iter()
                        invariant same_seq2(its.seq(), rule.styles@), *result == styles_applied(rbase, *rule, origin, its.index@), //@w @C18 @C19 @C20 #every_matching_rule_of_every_origin_takes_part
                    {
                        assert(*style == rule.styles@[its.index@]); //@w
                        merge_computed_style(
                            &mut *result,
                            is_important(style),
                            origin,
                            rule.selector.specificity(),
                            rule.selector.pseudo_element.as_ref(),
                            style,
                        );
                    }
                }
            }
        }
} //@w
//@end

// ---- the element's own attributes (C19: inline declarations are author declarations of inline specificity, each with ITS importance;
// the presentational colour attributes are never important) ------------------------------------------------------------------
struct Colour { x: u8 }
uninterp spec fn spec_inline() -> Specificity;
impl Specificity { #[verifier::external_body] fn inline() -> (r: Specificity) ensures r == spec_inline() { unimplemented!() } }
// parse_style_attribute(&attr.value).unwrap_or_default() / parser::parse_color_attribute(&attr.value) (nom grammar: trusted, A7)
uninterp spec fn style_attr_decls(v: Seq<char>) -> Seq<StyleDecl>;
uninterp spec fn colour_attr(v: Seq<char>) -> Option<Colour>;
#[verifier::external_body] fn parse_style_attribute_or_default(v: &StrTendril) -> (r: Vec<StyleDecl>) ensures r@ == style_attr_decls(tendril_str(*v)) { unimplemented!() }
#[verifier::external_body] fn parse_color_attribute(v: &StrTendril) -> (r: Result<Colour, ()>) ensures (r matches Ok(c) ==> colour_attr(tendril_str(*v)) == Some(c)), (r is Err ==> colour_attr(tendril_str(*v)) is None) { unimplemented!() }
uninterp spec fn style_colour(c: Colour) -> Style;
uninterp spec fn style_bgcolour(c: Colour) -> Style;
#[verifier::external_body] fn mk_colour(c: Colour) -> (r: Style) ensures r == style_colour(c) { unimplemented!() }       // Style::Colour(colour.into())
#[verifier::external_body] fn mk_bgcolour(c: Colour) -> (r: Style) ensures r == style_bgcolour(c) { unimplemented!() }   // Style::BgColour(colour.into())
spec fn decls_applied(cs: ComputedStyle, decls: Seq<StyleDecl>, k: int) -> ComputedStyle decreases k {
    if k <= 0 { cs } else { merged(decls_applied(cs, decls, k - 1), decls[k - 1].importance is Important, StyleOrigin::Author, spec_inline(), None, decls[k - 1]) }
}
spec fn attr_applied(cs: ComputedStyle, a: Attribute) -> ComputedStyle {
    let v = tendril_str(a.value);
    if local_name(a.name) == "style"@ { decls_applied(cs, style_attr_decls(v), style_attr_decls(v).len() as int) }
    else if local_name(a.name) == "color"@ { match colour_attr(v) { Some(c) => merged(cs, false, StyleOrigin::Author, spec_inline(), None, StyleDecl { style: style_colour(c), importance: Importance::Default }), None => cs } }
    else if local_name(a.name) == "bgcolor"@ { match colour_attr(v) { Some(c) => merged(cs, false, StyleOrigin::Author, spec_inline(), None, StyleDecl { style: style_bgcolour(c), importance: Importance::Default }), None => cs } }
    else { cs }
}
spec fn attrs_applied(cs: ComputedStyle, attrs: Seq<Attribute>, k: int) -> ComputedStyle decreases k {
    if k <= 0 { cs } else { attr_applied(attrs_applied(cs, attrs, k - 1), attrs[k - 1]) }
}

//@slice src/css.rs :: impl StyleData :: fn computed_style :: /if let Element \{ attrs, \.\. \} = &handle\.data \{/ .. /(?m)^        \}\n\n        result\n/
//@name inline_slice
//@auto C01 C19 C18
//@sub /for attr in borrowed\.iter\(\)/ ==> for attr in ita: borrowed.iter()
//@sub /&attr\.name\.local == "style"/ ==> local_is(&attr.name, "style")
//@sub /&\*attr\.name\.local == "color"/ ==> local_is(&attr.name, "color")
//@sub /&\*attr\.name\.local == "bgcolor"/ ==> local_is(&attr.name, "bgcolor")
//@sub /parse_style_attribute\(&attr\.value\)\.unwrap_or_default\(\)/ ==> parse_style_attribute_or_default(&attr.value)
//@sub /for style in rules/ ==> for style in itd: rules
//@sub * /parser::parse_color_attribute\(/ ==> parse_color_attribute(
//@sub * /Self::merge_computed_style\(/ ==> merge_computed_style(
//@sub * /&mut result,/ ==> &mut *result,
//@sub /style\.importance == Importance::Important/ ==> is_important(&style)
//@sub /Style::Colour\(colour\.into\(\)\)/ ==> mk_colour(colour)
//@sub /Style::BgColour\(colour\.into\(\)\)/ ==> mk_bgcolour(colour)
fn inline_slice(handle: &Handle, result: &mut ComputedStyle) //@w[
    ensures
        // every declaration of the style attribute takes part as an author declaration of inline specificity with its own importance;
        // color / bgcolor attributes as unimportant ones; attributes are taken in document order; nothing else changes the style
        (handle.data matches NodeData::Element { attrs, .. } ==> *final(result) == attrs_applied(*old(result), attrs.val()@, attrs.val()@.len() as int)), //@w @C18 @C19 #inline_declarations_keep_their_importance
        !(handle.data is Element) ==> *final(result) == *old(result), //@w @C18 @C19 #only_elements_have_inline_style
{ //@w]
            if let Element { attrs, .. } = &handle.data {
                let borrowed = attrs.borrow();
                for attr in ita: borrowed.iter()
                    invariant same_seq2(ita.seq(), borrowed@), *borrowed == attrs.val(), *result == attrs_applied(*old(result), borrowed@, ita.index@), //@w @C18 @C19 #inline_declarations_keep_their_importance
                {
                    let ghost abase = *result; //@w
                    assert(*attr == borrowed@[ita.index@]); //@w
                    proof { reveal_strlit("style"); reveal_strlit("color"); reveal_strlit("bgcolor"); } //@w
                    if local_is(&attr.name, "style") {
                        let rules = parse_style_attribute_or_default(&attr.value);
                        for style in itd: rules
                            invariant itd.seq() == rules@, rules@ == style_attr_decls(tendril_str(attr.value)), *result == decls_applied(abase, rules@, itd.index@), //@w @C18 @C19 #inline_declarations_keep_their_importance
                        {
                            assert(style == rules@[itd.index@]); //@w
                            merge_computed_style(
                                &mut *result,
                                is_important(&style),
                                StyleOrigin::Author,
                                Specificity::inline(),
                                None,
                                &style,
                            );
                        }
                    } else if local_is(&attr.name, "color") {
                        if let Ok(colour) = parse_color_attribute(&attr.value) {
                            merge_computed_style(
                                &mut *result,
                                false,
                                StyleOrigin::Author,
                                Specificity::inline(),
                                None,
                                &StyleDecl {
                                    style: mk_colour(colour),
                                    importance: Importance::Default,
                                },
                            );
                        }
                    } else if local_is(&attr.name, "bgcolor") {
                        if let Ok(colour) = parse_color_attribute(&attr.value) {
                            merge_computed_style(
                                &mut *result,
                                false,
                                StyleOrigin::Author,
                                Specificity::inline(),
                                None,
                                &StyleDecl {
                                    style: mk_bgcolour(colour),
                                    importance: Importance::Default,
                                },
                            );
                        }
                    }
                }
            }
} //@w
//@end
} // verus!
fn main() {}
