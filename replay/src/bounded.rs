//! Bounded stand-ins (labelled `bounded` in the evidence, never counted as proved): the driver functions that no verifier
//! here can ingest — `process_dom_node`, the closures of `do_render_node`, `render_tree_to_string`, `tree_map_reduce` — are
//! exercised through the public API of the real crate over an enumerated family of documents, with the oracle taken from
//! the property statement.  Output: `FOUND <json>` per violating input (at most 5), then one line `BOUNDED <json>`.
use html2text::config;
use html2text::render::{RichAnnotation, TaggedLine, TaggedLineElement};
use std::collections::HashSet;
use std::panic;

fn esc(s: &str) -> String { s.replace('\\', "\\\\").replace('"', "\\\"").replace('\n', "\\n").replace('\t', "\\t") }

pub struct Report { mode: &'static str, cases: u64, distinct: HashSet<u64>, found: u32, bound: String, sample: Vec<String> }
impl Report {
    fn new(mode: &'static str, bound: &str) -> Report { Report { mode, cases: 0, distinct: HashSet::new(), found: 0, bound: bound.to_string(), sample: vec![] } }
    fn case(&mut self, input: &str) {
        self.cases += 1;
        let mut h: u64 = 0xcbf29ce484222325;
        for b in input.bytes() { h ^= b as u64; h = h.wrapping_mul(0x100000001b3); }
        self.distinct.insert(h);
        if self.sample.len() < 3 { self.sample.push(input.to_string()); }
    }
    fn found(&mut self, input: &str, detail: &str) {
        self.found += 1;
        if self.found <= 100 || std::env::var("VERIF_SHOW_ALL").is_ok() {
            println!("FOUND {{\"mode\":\"{}\",\"input\":\"{}\",\"detail\":\"{}\"}}", self.mode, esc(input), esc(detail));
        }
    }
    fn finish(&self) {
        let samples: Vec<String> = self.sample.iter().map(|s| format!("\"{}\"", esc(s))).collect();
        println!("BOUNDED {{\"mode\":\"{}\",\"cases\":{},\"distinct\":{},\"violations\":{},\"bound\":\"{}\",\"samples\":[{}]}}",
                 self.mode, self.cases, self.distinct.len(), self.found, esc(&self.bound), samples.join(","));
    }
}

pub(crate) fn thorough() -> bool { std::env::var("VERIF_TIER").map(|t| t == "thorough").unwrap_or(false) }

// ------------------------------------------------------------------------------------------------------------------------------
// C08: link footnotes are numbered consistently with their references, wherever the links occur.
const CONTAINERS: [(&str, &str); 8] = [
    ("<p>", "</p>"), ("<ul><li>", "</li></ul>"), ("<ol><li>", "</li></ol>"), ("<blockquote>", "</blockquote>"), ("<h2>", "</h2>"),
    ("<table><tr><td>", "</td><td>x</td></tr></table>"), ("<table><tr><td><table><tr><td>", "</td></tr></table></td></tr></table>"),
    ("<dl><dt>t</dt><dd>", "</dd></dl>"),
];

fn markers(s: &str) -> Vec<usize> {
    // every "[digits]" that is not the head of a footnote line "[k]: "
    let b = s.as_bytes();
    let mut out = vec![];
    let mut i = 0;
    while i < b.len() {
        if b[i] == b'[' {
            let mut j = i + 1;
            while j < b.len() && b[j].is_ascii_digit() { j += 1; }
            if j > i + 1 && j < b.len() && b[j] == b']' {
                let is_head = j + 1 < b.len() && b[j + 1] == b':' && (i == 0 || b[i - 1] == b'\n');
                if !is_head { out.push(s[i + 1..j].parse().unwrap_or(0)); }
                i = j;
            }
        }
        i += 1;
    }
    out
}

pub fn bnd_c08() {
    let max_blocks = if thorough() { 3 } else { 2 };
    let mut rep = Report::new("bnd_c08", &format!("documents of 1..={} blocks from 8 containers (p, ul, ol, blockquote, h2, table cell, nested table cell, dd), 0..=2 links per block, \
        href modes unique/equal/empty-for-even, optional content-less link in front; widths 30 and 60; plain and rich decorators; footnotes on and off; 2 documents with targets of 19/20 columns at widths 8..=30 (entries hard-wrapped at the width)", max_blocks));
    // a block = (container, number of links)
    let mut block_opts = vec![];
    for c in 0..CONTAINERS.len() { for n in 0..=2usize { block_opts.push((c, n)); } }
    let mut docs: Vec<Vec<(usize, usize)>> = vec![];
    for nb in 1..=max_blocks {
        let mut idx = vec![0usize; nb];
        loop {
            let d: Vec<(usize, usize)> = idx.iter().map(|&i| block_opts[i]).collect();
            if d.iter().map(|x| x.1).sum::<usize>() >= 1 { docs.push(d); }
            let mut k = 0;
            while k < nb { idx[k] += 1; if idx[k] < block_opts.len() { break; } idx[k] = 0; k += 1; }
            if k == nb { break; }
        }
    }
    for d in &docs { for href_mode in 0..3 { for lead_empty in [false, true] {
        if lead_empty && href_mode != 0 { continue; }
        let mut html = String::new();
        let mut hrefs: Vec<String> = vec![];
        if lead_empty { html.push_str("<p><a href=\"e\"></a>start</p>"); }
        for &(c, n) in d {
            html.push_str(CONTAINERS[c].0);
            html.push_str("w ");
            for _ in 0..n {
                let k = hrefs.len() + 1;
                let href = match href_mode { 0 => format!("u{}", k), 1 => "u".to_string(), _ => if k % 2 == 0 { String::new() } else { format!("u{}", k) } };
                html.push_str(&format!("<a href=\"{}\">L{}</a> ", href, k));
                hrefs.push(href);
            }
            html.push_str("v");
            html.push_str(CONTAINERS[c].1);
        }
        let n = hrefs.len();
        for width in [30usize, 60] { for rich in [false, true] { for on in [true, false] {
            let input = format!("width={} rich={} footnotes={} html={}", width, rich, on, html);
            rep.case(&input);
            let h = html.clone();
            let r = panic::catch_unwind(move || if rich { config::rich().link_footnotes(on).string_from_read(h.as_bytes(), width) } else { config::plain().link_footnotes(on).string_from_read(h.as_bytes(), width) });
            let out = match r { Ok(Ok(s)) => s, Ok(Err(_)) => continue, Err(_) => { rep.found(&input, "panic"); continue; } };
            let ms = markers(&out);
            let heads: Vec<(usize, String)> = out.lines().filter_map(|l| {
                let l = l.trim_end();
                if l.starts_with('[') { if let Some(p) = l.find("]:") { if let Ok(k) = l[1..p].parse::<usize>() { return Some((k, l[p + 2..].trim().to_string())); } } }
                None }).collect();
            if !on {
                if !ms.is_empty() || !heads.is_empty() { rep.found(&input, &format!("footnotes disabled but output has references/list: {:?}", out)); }
                continue;
            }
            let flat: String = out.split_whitespace().collect::<Vec<_>>().join(" ");
            let want: Vec<usize> = (1..=n).collect();
            if ms != want { rep.found(&input, &format!("reference markers {:?}, expected {:?}; output {:?}", ms, want, out)); continue; }
            let mut ok = true;
            for k in 1..=n { if !flat.contains(&format!("L{}[{}]", k, k)) && !flat.contains(&format!("L{}][{}]", k, k)) { ok = false; } }
            if !ok { rep.found(&input, &format!("some link text is not followed by its own number; output {:?}", out)); continue; }
            let want_heads: Vec<(usize, String)> = (1..=n).map(|k| (k, hrefs[k - 1].clone())).collect();
            if heads != want_heads { rep.found(&input, &format!("footnote list {:?}, expected {:?}; output {:?}", heads, want_heads, out)); continue; }
            // the list is at the end: no content line after the first footnote line
            let lines: Vec<&str> = out.lines().collect();
            if let Some(first) = lines.iter().position(|l| l.starts_with("[1]:")) {
                if lines[first..].iter().any(|l| !l.trim().is_empty() && !(l.starts_with('[') && l.contains("]:"))) {
                    rep.found(&input, &format!("content after the footnote list; output {:?}", out));
                }
            }
        }}}
    }}}
    // footnote entries longer than the width are hard-wrapped at the width: every physical line of an entry but its last is full
    for (html, hrefs) in [("<p>see <a href=\"http://a.example/x1\">one</a> and <a href=\"http://b.example/yy2\">two</a></p>", vec!["http://a.example/x1", "http://b.example/yy2"]),
                          ("<table><tr><td><a href=\"http://a.example/x1\">c</a></td><td>d</td></tr></table>", vec!["http://a.example/x1"])] {
        for width in 8..=30usize {
            use unicode_width::UnicodeWidthStr;
            let input = format!("width={} rich=false footnotes=true html={}", width, html);
            rep.case(&input);
            let h = html.to_string();
            let out = match panic::catch_unwind(move || config::plain().link_footnotes(true).string_from_read(h.as_bytes(), width)) { Ok(Ok(s)) => s, Ok(Err(_)) => continue, Err(_) => { rep.found(&input, "panic"); continue; } };
            let lines: Vec<&str> = out.lines().collect();
            let start = match lines.iter().position(|l| l.starts_with("[1]:")) { Some(p) => p, None => { rep.found(&input, &format!("no footnote list: {:?}", out)); continue; } };
            let joined: String = lines[start..].iter().flat_map(|l| l.chars()).filter(|c| *c != ' ').collect();
            let want: String = hrefs.iter().enumerate().map(|(k, h)| format!("[{}]:{}", k + 1, h)).collect();
            if joined != want { rep.found(&input, &format!("footnote list {:?}, expected the entries {:?}", &lines[start..], want)); continue; }
            // line structure: a line that is not the last of its entry is full (up to the blank after the colon)
            for k in start..lines.len() {
                let last_of_entry = k + 1 == lines.len() || lines[k + 1].starts_with('[');
                let lw = UnicodeWidthStr::width(lines[k]);
                if !last_of_entry && lw != width && !(lw + 1 == width && lines[k].ends_with(':')) { rep.found(&input, &format!("footnote line {:?} is broken before the width; list {:?}", lines[k], &lines[start..])); break; }
            }
        }
    }
    rep.finish();
}

// ------------------------------------------------------------------------------------------------------------------------------
// C13: output does not depend on the source formatting of collapsible white space.
// `\u{2423}` marks a run of collapsible white space in an inline context, `\u{b6}` one between block elements.
const C13_DOCS: [&str; 18] = [
    "<p>see<a href=\"u\">\u{2423}the\u{2423}site\u{2423}</a>now\u{2423}and <a href=\"v\">x\u{2423}</a>\u{2423}then</p>",
    "<p><em>\u{2423}lead\u{2423}in</em>\u{2423}and\u{2423}<strong>out\u{2423}</strong>end</p>",
    "<ol>\u{b6}<li>a1</li>\u{b6}<li>a2</li>\u{b6}<li>a3</li>\u{b6}<li>a4</li>\u{b6}<li>a5\u{2423}x</li>\u{b6}</ol>",
    "<ul>\u{b6}<li>u1</li>\u{b6}<li>u2<ol>\u{b6}<li>n1</li>\u{b6}<li>n2</li>\u{b6}<li>n3</li>\u{b6}<li>n4</li>\u{b6}</ol></li>\u{b6}</ul>",
    "<dl>\u{b6}<dt>t1</dt>\u{b6}<dd>d1\u{2423}d2</dd>\u{b6}<dt>t2</dt>\u{b6}<dd>d3</dd>\u{b6}</dl>",
    "<div>alpha\u{2423}beta<p>para</p></div>",
    "<div><p>first</p>\u{b6}gamma\u{2423}<em>delta</em>\u{2423}eps</div>",
    "<blockquote>one\u{2423}two<ul>\u{b6}<li>item</li>\u{b6}</ul>three\u{2423}four</blockquote>",
    "<p>Hello\u{2423}world\u{2423}foo</p>",
    "<p>Hello\u{2423}<em>big\u{2423}world</em>\u{2423}end</p>",
    "<p><b>Name:</b>\u{2423}<i>value</i></p>",
    "<ul>\u{b6}<li>one\u{2423}two</li>\u{b6}<li>three\u{2423}<em>four</em></li>\u{b6}</ul>",
    "<div>aa\u{2423}bb</div>\u{b6}<div>cc</div>",
    "<blockquote>quoted\u{2423}text\u{2423}<a href=\"u\">link\u{2423}text</a>\u{2423}more</blockquote>",
    "<h1>Title\u{2423}here</h1>\u{b6}<p>para\u{2423}text</p>",
    "<p>x\u{2423}<span>y\u{2423}z</span>\u{2423}w</p>",
    "<ol>\u{b6}<li>first\u{2423}<strong>item</strong></li>\u{b6}<li>second</li>\u{b6}</ol>\u{b6}<p>after\u{2423}list</p>",
    "<div><p>nested\u{2423}para</p>\u{b6}<blockquote>\u{b6}<p>deep\u{2423}<code>code\u{2423}here</code></p>\u{b6}</blockquote></div>",
];
const INLINE_ALTS: [&str; 9] = ["\n", "  ", "\t", " \n\t ", " <!--c-->", "<!--c--> ", " <!--c--> ", "<span> </span>", " <span></span>"];
const BLOCK_ALTS: [&str; 6] = ["", "\n", "  \n  ", "\t", "<!--c-->", "\n<!--c-->\n"];

fn subst(doc: &str, which: Option<usize>, inline_alt: &str, block_alt: &str) -> String {
    // which == None: replace every marker; Some(k): only the k-th marker, the others get the base form
    let mut out = String::new();
    let mut k = 0;
    for ch in doc.chars() {
        if ch == '\u{2423}' || ch == '\u{b6}' {
            let change = which.map(|w| w == k).unwrap_or(true);
            if ch == '\u{2423}' { out.push_str(if change { inline_alt } else { " " }); } else { out.push_str(if change { block_alt } else { "\n" }); }
            k += 1;
        } else { out.push(ch); }
    }
    out
}

pub fn bnd_c13() {
    let widths: Vec<usize> = if thorough() { (1..=100).collect() } else { (1..=30).chain([40, 60, 80, 100]).collect() };
    let mut rep = Report::new("bnd_c13", &format!("18 table-free, pre-free documents; every word wrapped in a span; each collapsible white-space run replaced (one at a time and all at once) by 9 inline / 6 block-level \
        alternatives (newlines, tabs, runs, adjacent comments, a span around the white space, an empty span); {} widths; plain decorator; an error on one side only is not compared below 8 columns (finding D21)", widths.len()));
    for doc in C13_DOCS {
        let nmark = doc.chars().filter(|&c| c == '\u{2423}' || c == '\u{b6}').count();
        let base = subst(doc, None, " ", "\n");
        let mut variants: Vec<String> = vec![];
        for ia in INLINE_ALTS { variants.push(subst(doc, None, ia, "\n")); }
        for ba in BLOCK_ALTS { variants.push(subst(doc, None, " ", ba)); }
        for k in 0..nmark { for ia in INLINE_ALTS { for ba in [BLOCK_ALTS[0], BLOCK_ALTS[4]] { variants.push(subst(doc, Some(k), ia, ba)); } } }
        // the span-wrapping rewrite applied to every word: <span>word</span>
        {
            let mut o = String::new(); let mut intag = false; let mut word = String::new();
            for ch in base.chars() {
                if !intag && ch.is_ascii_alphanumeric() { word.push(ch); continue; }
                if !word.is_empty() { o.push_str(&format!("<span>{}</span>", word)); word.clear(); }
                if ch == '<' { intag = true; } else if ch == '>' { intag = false; }
                o.push(ch);
            }
            variants.push(o);
        }
        variants.sort(); variants.dedup();
        for &w in &widths {
            let b = base.clone();
            let want = match panic::catch_unwind(move || config::plain().string_from_read(b.as_bytes(), w)) { Ok(Ok(s)) => Some(s), Ok(Err(_)) => None, Err(_) => { rep.found(&format!("width={} html={}", w, base), "panic"); continue; } };
            for v in &variants {
                if *v == base { continue; }
                let input = format!("width={} html={}", w, v);
                rep.case(&input);
                let vv = v.clone();
                let got = match panic::catch_unwind(move || config::plain().string_from_read(vv.as_bytes(), w)) { Ok(Ok(s)) => Some(s), Ok(Err(_)) => None, Err(_) => { rep.found(&input, "panic"); continue; } };
                // recorded finding D21: below 8 columns a prefixed block may be refused (TooNarrow) or not depending on how its text is split into nodes
                if w < 8 && got.is_some() != want.is_some() { continue; }
                if got != want { rep.found(&input, &format!("differs from the rendering of {:?}: {:?} vs {:?}", base, got, want)); }
            }
        }
    }
    rep.finish();
}

// Finding D21 (C13): the smallest documents that show it.
pub fn c13_minwrap() {
    let mut rep = Report::new("c13_minwrap", "2 list items with two short words, with and without a comment between the words, widths 3..=6: same result (text or error)");
    for (a, b) in [("<ul><li>a5 x</li></ul>", "<ul><li>a5 <!--c-->x</li></ul>"), ("<ol><li>a5 x</li></ol>", "<ol><li>a5 <!--c-->x</li></ol>")] {
        for w in 3..=6usize {
            let input = format!("width={} html={} vs {}", w, a, b);
            rep.case(&input);
            let ra = config::plain().string_from_read(a.as_bytes(), w).ok();
            let rb = config::plain().string_from_read(b.as_bytes(), w).ok();
            if ra != rb { rep.found(&input, &format!("{:?} vs {:?}", ra, rb)); }
        }
    }
    rep.finish();
}

// ------------------------------------------------------------------------------------------------------------------------------
// C18: display:none hides exactly the matched subtrees: rendering with the rule == rendering the document with those subtrees deleted.
// The skeleton has hideable elements written as {k|open-tag-without->|rest}; variant A gives them class=h (hidden by `.h{display:none;}`),
// variant B deletes them.
struct Piece { open: &'static str, body: &'static str, close: &'static str }
fn skeleton() -> Vec<Result<&'static str, Piece>> {
    vec![
        Ok("<div>"),
        Err(Piece { open: "<p id=\"a\"", body: ">one para</p", close: ">" }),
        Ok("<ul><li>i1</li>"),
        Err(Piece { open: "<li id=\"b\"", body: ">i2 <a href=\"u1\">lnk</a></li", close: ">" }),
        Ok("<li>i3 "),
        Err(Piece { open: "<a href=\"u2\"", body: ">l2</a", close: ">" }),
        Ok(" <a href=\"u3\">l3</a></li></ul><ol>"),
        Err(Piece { open: "<li", body: ">n1</li", close: ">" }),
        Ok("<li>n2</li></ol><p>mid "),
        Err(Piece { open: "<span id=\"d\"", body: ">sp</span", close: ">" }),
        Ok(" end <em>em "),
        Err(Piece { open: "<b", body: ">bold</b", close: ">" }),
        Ok("</em></p>"),
        Err(Piece { open: "<h2 id=\"e\"", body: ">heading</h2", close: ">" }),
        Ok("<blockquote>q1 "),
        Err(Piece { open: "<p", body: ">q2</p", close: ">" }),
        Ok("</blockquote><table><tr><td>c1</td><td>c2</td></tr>"),
        Err(Piece { open: "<tr id=\"r\"", body: "><td>c3</td><td>c4</td></tr", close: ">" }),
        Ok("</table>"),
        Err(Piece { open: "<table id=\"t\"", body: "><tr><td>x1</td><td>x2</td></tr></table", close: ">" }),
        Ok("<p>last</p></div>"),
    ]
}

fn lines_dbg(ls: &[TaggedLine<Vec<RichAnnotation>>]) -> String {
    let mut s = String::new();
    for l in ls {
        for e in l.iter() {
            match e {
                TaggedLineElement::Str(ts) => s.push_str(&format!("{:?}{:?}", ts.s, ts.tag)),
                TaggedLineElement::FragmentStart(f) => s.push_str(&format!("#{}#", f)),
            }
        }
        s.push('\n');
    }
    s
}

pub fn bnd_c18() {
    let sk = skeleton();
    let nh = sk.iter().filter(|p| p.is_err()).count();
    let max_hidden = if thorough() { 4 } else { 3 };
    let mut rep = Report::new("bnd_c18", &format!("one skeleton document with {} hideable elements (p, li, a, span, b, h2, p in blockquote, tr, table; several carrying ids); every subset of at most {} of them \
        hidden by `.h{{display:none;}}` (and, for single elements, by an inline style with document CSS enabled); widths 20/40/80; rich lines (fragment markers visible) and plain string with footnotes; plus 7 documents hidden through structural selectors (child/descendant combinators with nested candidates, nth-child, id, selector list, universal); 11 pairs of competing display declarations (style attribute against sheet rules incl. !important, element+class / id against class selectors), the sheet as a style element and through add_css: the winner of the cascade decides", nh, max_hidden));
    let mut subsets: Vec<Vec<usize>> = vec![];
    for a in 0..nh { subsets.push(vec![a]); for b in a + 1..nh { subsets.push(vec![a, b]); if max_hidden >= 3 { for c in b + 1..nh { subsets.push(vec![a, b, c]); if max_hidden >= 4 { for d in c + 1..nh { subsets.push(vec![a, b, c, d]); } } } } } }
    for hs in &subsets { for inline_style in [false, true] {
        if inline_style && hs.len() != 1 { continue; }
        let mut hidden = String::new();
        let mut deleted = String::new();
        let mut k = 0;
        for p in &sk {
            match p {
                Ok(t) => { hidden.push_str(t); deleted.push_str(t); }
                Err(pc) => {
                    let h = hs.contains(&k);
                    hidden.push_str(pc.open);
                    if h { hidden.push_str(if inline_style { [" style=\"display:none\"", " style=\"display:none;\"", " style=\"color:#000000; display:none;\"", " style=\"height:0;overflow:hidden;\""][k % 4] } else { " class=\"h\"" }); }
                    hidden.push_str(pc.body); hidden.push_str(pc.close);
                    if !h { deleted.push_str(pc.open); deleted.push_str(pc.body); deleted.push_str(pc.close); }
                    k += 1;
                }
            }
        }
        for width in [20usize, 40, 80] {
            let input = format!("width={} inline_style={} html={}", width, inline_style, hidden);
            rep.case(&input);
            let (h1, d1) = (hidden.clone(), deleted.clone());
            let r = panic::catch_unwind(move || {
                let mk = || { let c = config::rich().add_css(".h{display:none;}").unwrap(); if inline_style { c.use_doc_css() } else { c } };
                let a = mk().lines_from_read(h1.as_bytes(), width).map(|l| lines_dbg(&l)).map_err(|e| format!("{:?}", e));
                let b = mk().lines_from_read(d1.as_bytes(), width).map(|l| lines_dbg(&l)).map_err(|e| format!("{:?}", e));
                (a, b)
            });
            match r {
                Err(_) => rep.found(&input, "panic"),
                Ok((a, b)) => if a != b { rep.found(&input, &format!("rich lines differ from the rendering with the hidden subtrees deleted ({}): {:?} vs {:?}", deleted, a, b)); },
            }
            let (h2, d2) = (hidden.clone(), deleted.clone());
            let r = panic::catch_unwind(move || {
                let mk = || { let c = config::plain().link_footnotes(true).add_css(".h{display:none;}").unwrap(); if inline_style { c.use_doc_css() } else { c } };
                (mk().string_from_read(h2.as_bytes(), width).map_err(|e| format!("{:?}", e)), mk().string_from_read(d2.as_bytes(), width).map_err(|e| format!("{:?}", e)))
            });
            match r {
                Err(_) => rep.found(&input, "panic"),
                Ok((a, b)) => if a != b { rep.found(&input, &format!("plain text with footnotes differs from the rendering with the hidden subtrees deleted: {:?} vs {:?}", a, b)); },
            }
        }
        // document styles have no effect unless document CSS is enabled
        if inline_style {
            let input = format!("width=40 use_doc_css=false html={}", hidden);
            rep.case(&input);
            let h3 = hidden.clone();
            let plain_doc = hidden.replace(" style=\"display:none\"", "").replace(" style=\"display:none;\"", "").replace(" style=\"color:#000000; display:none;\"", "").replace(" style=\"height:0;overflow:hidden;\"", "");
            let r = panic::catch_unwind(move || (config::plain().string_from_read(h3.as_bytes(), 40).ok(), config::plain().string_from_read(plain_doc.as_bytes(), 40).ok()));
            if let Ok((a, b)) = r { if a != b { rep.found(&input, "a style attribute changed the output although document CSS is not enabled"); } }
        }
    }}
    // the zero-height idiom hides like display:none; each half alone, a non-zero height, or a later display value does not
    {
        let body_hidden = "<p>keep1</p><p class=\"h\">gone</p><ul><li>keep2</li><li class=\"h\">gone2 <a href=\"u\">l</a></li></ul><table><tr class=\"h\"><td>gone3</td></tr><tr><td>keep3</td></tr></table>";
        let body_deleted = "<p>keep1</p><ul><li>keep2</li></ul><table><tr><td>keep3</td></tr></table>";
        for (sheet, hides) in [(".h{height:0;overflow:hidden;}", true), (".h{max-height:0;overflow-y:hidden;}", true), (".h{height:0px;overflow:hidden;}", true), (".h{overflow:hidden;height:0;}", true),
                               (".h{max-height:0;overflow:hidden;}", true), (".h{height:0;overflow-y:hidden;}", true), (".h{display:block;display:none;}", true),
                               (".h{height:0;}", false), (".h{overflow:hidden;}", false), (".h{height:5px;overflow:hidden;}", false), (".h{height:0;overflow:visible;}", false),
                               (".h{display:block;}", false), (".h{display:none;display:block;}", false), (".h{height:auto;overflow:hidden;}", false), (".x{display:none;}", false)] {
            for width in [20usize, 60] {
                let input = format!("width={} css={} html={}", width, sheet, body_hidden);
                rep.case(&input);
                let (h1, d1) = (body_hidden.to_string(), (if hides { body_deleted } else { body_hidden }).to_string());
                let r = panic::catch_unwind(move || {
                    let a = config::rich().add_css(sheet).unwrap().lines_from_read(h1.as_bytes(), width).map(|l| lines_dbg(&l)).map_err(|e| format!("{:?}", e));
                    let b = config::rich().lines_from_read(d1.as_bytes(), width).map(|l| lines_dbg(&l)).map_err(|e| format!("{:?}", e));
                    (a, b)
                });
                match r {
                    Err(_) => rep.found(&input, "panic"),
                    Ok((a, b)) => if a != b { rep.found(&input, &format!("expected the elements of class h to be {}: {:?} vs {:?}", if hides { "hidden" } else { "rendered" }, a, b)); },
                }
            }
        }
    }
    // "a *winning* display:none": display declarations competing through the cascade — inline style against sheet rules (inline wins unless the
    // rule is important), more against less specific selectors, important against later normal ones
    {
        let keep = "<p>keep1</p><p>keep2</p>";
        for (sheet, attr, hides) in [
            (".h{display:block;}", "style=\"display:none\"", true), (".h{display:none;}", "style=\"display:block\"", false),
            ("#i{display:block;} p.h{display:block;}", "style=\"display:none\"", true), (".h{display:block !important;}", "style=\"display:none\"", false),
            (".h{display:none !important;}", "style=\"display:block\"", true), ("p.h{display:none;} .h{display:block;}", "", true), (".h{display:none;} p.h{display:block;}", "", false),
            ("#i{display:none;} .h{display:block;}", "", true), ("p.h{display:block;} .h{display:none;}", "", false), (".h{display:none !important;} #i{display:block;}", "", true),
            (".h{height:5px;}", "style=\"height:0;overflow:hidden\"", true)] {
            let body = format!("<p>keep1</p><p class=\"h\" id=\"i\" {}>gone <b>gone2</b></p><p>keep2</p>", attr);
            // the sheet as a style element of the document (same origin as the style attribute) and through add_css
            for width in [20usize, 60] { for in_doc in [true, false] {
                let doc = if in_doc { format!("<style>{}</style>{}", sheet, body) } else { body.clone() };
                let input = format!("width={} css={} use_doc_css html={}", width, if in_doc { "" } else { sheet }, doc);
                rep.case(&input);
                let (h1, d1) = (doc.clone(), (if hides { keep.to_string() } else if attr.is_empty() { body.clone() } else { body.replace(&format!(" {}", attr), " ") }));
                let r = panic::catch_unwind(move || {
                    let cfg = if in_doc { config::rich() } else { config::rich().add_css(sheet).unwrap() };
                    let a = cfg.use_doc_css().lines_from_read(h1.as_bytes(), width).map(|l| lines_dbg(&l)).map_err(|e| format!("{:?}", e));
                    let b = config::rich().lines_from_read(d1.as_bytes(), width).map(|l| lines_dbg(&l)).map_err(|e| format!("{:?}", e));
                    (a, b)
                });
                match r {
                    Err(_) => rep.found(&input, "panic"),
                    Ok((a, b)) => if a != b { rep.found(&input, &format!("expected the element of class h to be {} (the winning display declaration): {:?} vs {:?}", if hides { "hidden" } else { "rendered" }, a, b)); },
                }
            }}
        }
    }
    // the same rule given as a document style sheet (in the head, at the start and in the middle of the body), with document CSS enabled
    for place in 0..4 { for width in [20usize, 60] {
        let sheet = if place == 3 { "<style>a:hover{color:#ffffff;} p::first-line{x:y;}</style><style>.h{display:none;}</style>" } else { "<style>.h{display:none;}</style>" };
        let body_hidden = "<p>keep1</p><p class=\"h\">gone</p><ul><li>keep2</li><li class=\"h\">gone2</li></ul>";
        let body_deleted = "<p>keep1</p><ul><li>keep2</li></ul>";
        let doc = match place { 0 => format!("<html><head>{}</head><body>{}</body></html>", sheet, body_hidden), 1 => format!("<html><body>{}{}</body></html>", sheet, body_hidden), _ => format!("<html><body><p>keep0</p>{}{}</body></html>", sheet, body_hidden) };
        let del = if place >= 2 { format!("<html><body><p>keep0</p>{}</body></html>", body_deleted) } else { format!("<html><body>{}</body></html>", body_deleted) };
        let input = format!("width={} use_doc_css=true html={}", width, doc);
        rep.case(&input);
        let (d1, d2) = (doc.clone(), del.clone());
        let r = panic::catch_unwind(move || (config::plain().use_doc_css().string_from_read(d1.as_bytes(), width).ok(), config::plain().string_from_read(d2.as_bytes(), width).ok()));
        match r { Err(_) => rep.found(&input, "panic"), Ok((a, b)) => if a != b { rep.found(&input, &format!("document style sheet not applied like the deletion {:?}: {:?} vs {:?}", del, a, b)); } }
        // and without document CSS the sheet has no effect
        let input2 = format!("width={} use_doc_css=false html={}", width, doc);
        rep.case(&input2);
        let (d3, d4) = (doc.clone(), doc.replace(sheet, ""));
        let r = panic::catch_unwind(move || (config::plain().string_from_read(d3.as_bytes(), width).ok(), config::plain().string_from_read(d4.as_bytes(), width).ok()));
        if let Ok((a, b)) = r { if a != b { rep.found(&input2, "a style element changed the output although document CSS is not enabled"); } }
    }}
    // hidden by structural selectors (combinators, nth-child) instead of a class on the element itself
    let structural: [(&str, &str, &str); 7] = [
        (".o > .m .t{display:none;}", "<div class=\"o\"><div class=\"m\">a <div class=\"m\">b <span class=\"t\">T</span> c</div> d</div></div>", "<div class=\"o\"><div class=\"m\">a <div class=\"m\">b  c</div> d</div></div>"),
        ("ul > li span{display:none;}", "<ul><li>a <ul><li>b <span>T</span> c</li></ul></li></ul>", "<ul><li>a <ul><li>b  c</li></ul></li></ul>"),
        ("div p:nth-child(2){display:none;}", "<div><p>one</p><p>two</p><p>three</p></div>", "<div><p>one</p><p>three</p></div>"),
        ("#top > div em{display:none;}", "<div id=\"top\"><div>a <em>T</em> b</div><p>c <em>keep</em></p></div>", "<div id=\"top\"><div>a  b</div><p>c <em>keep</em></p></div>"),
        ("li.x, h2{display:none;}", "<ul><li class=\"x\">T1</li><li>keep</li></ul><h2>T2</h2><p>after</p>", "<ul><li>keep</li></ul><p>after</p>"),
        ("blockquote *{display:none;}", "<blockquote>q <b>T</b> r <i>U</i></blockquote><p><b>keep</b></p>", "<blockquote>q  r </blockquote><p><b>keep</b></p>"),
        ("table td.h{display:none;}", "<table><tr><td>c1</td><td class=\"h\">T</td><td>c3</td></tr></table>", "<table><tr><td>c1</td><td>c3</td></tr></table>"),
    ];
    for (css, hid, del) in structural { for width in [10usize, 20, 40] {
        let input = format!("width={} css={} html={}", width, css, hid);
        rep.case(&input);
        let (c, h1, d1) = (css.to_string(), hid.to_string(), del.to_string());
        let r = panic::catch_unwind(move || {
            let a = config::rich().add_css(&c).unwrap().lines_from_read(h1.as_bytes(), width).map(|l| lines_dbg(&l)).map_err(|e| format!("{:?}", e));
            let b = config::rich().lines_from_read(d1.as_bytes(), width).map(|l| lines_dbg(&l)).map_err(|e| format!("{:?}", e));
            (a, b)
        });
        match r { Err(_) => rep.found(&input, "panic"), Ok((a, b)) => if a != b { rep.found(&input, &format!("differs from the rendering of {:?}: {:?} vs {:?}", del, a, b)); } }
    }}
    rep.finish();
}

// ------------------------------------------------------------------------------------------------------------------------------
// C09: rich annotations mirror element nesting exactly, across block boundaries.
fn ann(el: &str) -> Option<RichAnnotation> {
    match el {
        "em" => Some(RichAnnotation::Emphasis), "strong" => Some(RichAnnotation::Strong), "code" => Some(RichAnnotation::Code),
        "s" => Some(RichAnnotation::Strikeout), "a" => Some(RichAnnotation::Link("u".to_string())), _ => None,
    }
}
fn open(el: &str) -> String { if el == "a" { "<a href=\"u\">".to_string() } else { format!("<{}>", el) } }

pub fn bnd_c09() {
    let outer = [("<ul><li>", "</li></ul>"), ("<blockquote>", "</blockquote>"), ("<div>", "</div>"), ("<table><tr><td>", "</td></tr></table>"), ("<ol><li>", "</li></ol>"), ("<dl><dd>", "</dd></dl>")];
    let inner = [("<ul><li>", "</li></ul>"), ("<h2>", "</h2>"), ("<blockquote>", "</blockquote>"), ("<table><tr><td>", "</td></tr></table>"), ("<ol><li>", "</li></ol>"), ("<p>", "</p>"), ("<div>", "</div>")];
    let inl = ["em", "strong", "code", "s", "a"];
    let mut rep = Report::new("bnd_c09", "outer block (li, blockquote, div, td, ol li, dd) x one or two nested annotating inline elements (em, strong, code, s, a) x inner block \
        (ul li, h2, blockquote, td, ol li, p, div) with unique tokens before, inside and after the inner block; widths 4/8/13/20/80; rich decorator: every token carries exactly the annotations of its annotating ancestors, outermost first; plus 4 <pre> documents with inline elements, 3 documents with nested CSS colours across table cells, list items and quotes, and 3 documents whose cell / block padding must carry no inline annotation");
    for (oo, oc) in outer { for i1 in inl { for i2 in ["", "em", "strong", "code"] { for (io, ic) in inner {
        if i2 == i1 { continue; }
        // <outer> pre <i1> [<i2>] aa <inner> bb </inner> cc [</i2>] </i1> post </outer>
        let mut html = String::new();
        html.push_str(oo); html.push_str("pre "); html.push_str(&open(i1));
        if !i2.is_empty() { html.push_str(&open(i2)); }
        html.push_str("aa "); html.push_str(io); html.push_str("bb"); html.push_str(ic); html.push_str(" cc");
        if !i2.is_empty() { html.push_str(&format!("</{}>", i2)); }
        html.push_str(&format!("</{}>", i1)); html.push_str(" post"); html.push_str(oc);
        let mut inside: Vec<RichAnnotation> = vec![ann(i1).unwrap()];
        if !i2.is_empty() { inside.push(ann(i2).unwrap()); }
        for width in [4usize, 8, 13, 20, 80] {
            let input = format!("width={} html={}", width, html);
            rep.case(&input);
            let h = html.clone();
            let r = panic::catch_unwind(move || config::rich().lines_from_read(h.as_bytes(), width));
            let lines = match r { Ok(Ok(l)) => l, Ok(Err(_)) => continue, Err(_) => { rep.found(&input, "panic"); continue; } };
            // concatenating the pieces of each line gives the string output of the same configuration
            { let h2 = html.clone(); if let Ok(Ok(sout)) = panic::catch_unwind(move || config::rich().string_from_read(h2.as_bytes(), width)) {
                let joined: Vec<String> = lines.iter().map(|l| l.tagged_strings().map(|ts| ts.s.as_str()).collect::<String>()).collect();
                let want_lines: Vec<&str> = sout.lines().collect();
                if joined.iter().map(|s| s.trim_end()).collect::<Vec<_>>() != want_lines.iter().map(|s| s.trim_end()).collect::<Vec<_>>() { rep.found(&input, &format!("the pieces of the rich lines give {:?}, the string output is {:?}", joined, want_lines)); }
            } }
            for (tok, want) in [("pre", vec![]), ("aa", inside.clone()), ("bb", inside.clone()), ("cc", inside.clone()), ("post", vec![])] {
                let mut seen = false;
                for l in &lines { for ts in l.tagged_strings() {
                    if ts.s.contains(tok) {
                        seen = true;
                        // strike-through may interleave U+0336; the token test above uses plain letters which stay adjacent only without it
                        let got: Vec<RichAnnotation> = ts.tag.iter().filter(|a| !matches!(a, RichAnnotation::Preformat(_))).cloned().collect();
                        if got != want { rep.found(&input, &format!("token {:?} carries {:?}, expected {:?}", tok, got, want)); }
                    }
                }}
                let struck = i1 == "s";
                if !seen && !(struck && tok != "pre" && tok != "post") { rep.found(&input, &format!("token {:?} not found in the output", tok)); }
            }
        }
    }}}}
    // padding (table cells brought to their column width, pad_block_width) carries no annotation of an inline element
    for (html, pad) in [("<table><tr><td><em>alpha</em></td><td>b1</td></tr><tr><td>a much longer cell</td><td>c2</td></tr></table>", false),
                        ("<table><tr><td>x <a href=\"u\">lnk</a></td><td><strong>s1</strong></td></tr><tr><td>wider than that</td><td>also wider</td></tr></table>", false),
                        ("<p>one <em>two</em></p><p>three <code>four</code></p>", true)] {
        for width in [30usize, 60] {
            let input = format!("width={} pad_block_width={} html={}", width, pad, html);
            rep.case(&input);
            let h = html.to_string();
            let lines = match panic::catch_unwind(move || { let c = config::rich(); let c = if pad { c.pad_block_width() } else { c }; c.lines_from_read(h.as_bytes(), width) }) { Ok(Ok(l)) => l, Ok(Err(_)) => continue, Err(_) => { rep.found(&input, "panic"); continue; } };
            for l in &lines { for ts in l.tagged_strings() {
                if ts.s.ends_with("  ") && !ts.tag.is_empty() { rep.found(&input, &format!("padding spaces at the end of {:?} carry {:?}", ts.s, ts.tag)); }
            }}
        }
    }
    // CSS colours nest like elements do, across table cells, list items and quotes
    {
        use html2text::render::RichAnnotation as RA;
        let red = || RA::Colour(html2text::Colour { r: 255, g: 0, b: 0 });
        let green = || RA::Colour(html2text::Colour { r: 0, g: 255, b: 0 });
        let css = ".r{color:#ff0000;} .g{color:#00ff00;}";
        let docs: Vec<(&str, Vec<(&str, Vec<RA>)>)> = vec![
            ("<div class=\"r\">aa <table><tr><td class=\"g\">bb</td><td>cc</td></tr><tr><td>dd</td><td class=\"g\">ee</td></tr></table> ff</div>",
             vec![("aa", vec![red()]), ("bb", vec![red(), green()]), ("cc", vec![red()]), ("dd", vec![red()]), ("ee", vec![red(), green()]), ("ff", vec![red()])]),
            ("<ul class=\"r\"><li class=\"g\">aa</li><li>bb <span class=\"g\">cc</span> dd</li></ul><p>ee</p>",
             vec![("aa", vec![red(), green()]), ("bb", vec![red()]), ("cc", vec![red(), green()]), ("dd", vec![red()]), ("ee", vec![])]),
            ("<blockquote class=\"g\">aa <p class=\"r\">bb</p> cc</blockquote><p>dd</p>",
             vec![("aa", vec![green()]), ("bb", vec![green(), red()]), ("cc", vec![green()]), ("dd", vec![])]),
        ];
        for (html, toks) in docs { for width in [10usize, 30, 80] {
            let input = format!("width={} css={} html={}", width, css, html);
            rep.case(&input);
            let h = html.to_string();
            let lines = match panic::catch_unwind(move || config::rich().add_css(css).unwrap().lines_from_read(h.as_bytes(), width)) { Ok(Ok(l)) => l, Ok(Err(_)) => continue, Err(_) => { rep.found(&input, "panic"); continue; } };
            for (tok, want) in &toks { for l in &lines { for ts in l.tagged_strings() { if ts.s.contains(tok) {
                if ts.tag != *want { rep.found(&input, &format!("token {:?} carries {:?}, expected {:?}", tok, ts.tag, want)); }
            }}}}
        }}
    }
    // inline elements inside <pre> (the Preformat annotation itself is filtered out before comparing)
    let pres: [(&str, Vec<(&str, Vec<RichAnnotation>)>); 4] = [
        ("<pre><code>aa bb</code></pre>", vec![("aa", vec![RichAnnotation::Code])]),
        ("<pre>aa <em>bb</em> cc <strong>dd</strong></pre>", vec![("aa", vec![]), ("bb", vec![RichAnnotation::Emphasis]), ("cc", vec![]), ("dd", vec![RichAnnotation::Strong])]),
        ("<pre><em>aa</em><strong>bb</strong></pre>", vec![("aa", vec![RichAnnotation::Emphasis]), ("bb", vec![RichAnnotation::Strong])]),
        ("<ul><li><pre><code>aa</code>\n<a href=\"u\">bb</a></pre></li></ul>", vec![("aa", vec![RichAnnotation::Code]), ("bb", vec![RichAnnotation::Link("u".to_string())])]),
    ];
    for (html, toks) in pres { for width in [4usize, 20, 80] {
        let input = format!("width={} html={}", width, html);
        rep.case(&input);
        let h = html.to_string();
        let lines = match panic::catch_unwind(move || config::rich().lines_from_read(h.as_bytes(), width)) { Ok(Ok(l)) => l, Ok(Err(_)) => continue, Err(_) => { rep.found(&input, "panic"); continue; } };
        for (tok, want) in &toks {
            for l in &lines { for ts in l.tagged_strings() { if ts.s.contains(tok) {
                let got: Vec<RichAnnotation> = ts.tag.iter().filter(|a| !matches!(a, RichAnnotation::Preformat(_))).cloned().collect();
                if got != *want { rep.found(&input, &format!("token {:?} carries {:?}, expected {:?}", tok, got, want)); }
            }}}
        }
    }}
    rep.finish();
}

// ------------------------------------------------------------------------------------------------------------------------------
// Tables (C02, C03, C05, C06): render_table_tree, RenderTable::new, tbody_to_render_tree, render_table_row, append_columns_with_borders
// as wholes.  Regular tables (every row spans the same number of columns) from a seeded generator.
pub(crate) struct Lcg(pub(crate) u64);
impl Lcg {
    fn next(&mut self) -> u64 { self.0 = self.0.wrapping_mul(6364136223846793005).wrapping_add(1442695040888963407); self.0 >> 33 }
    pub(crate) fn below(&mut self, n: u64) -> u64 { self.next() % n }
}
pub(crate) fn seed() -> u64 { std::env::var("VERIF_SEED").ok().and_then(|s| s.parse().ok()).unwrap_or(0) }

const CELLS: [&str; 8] = ["", "aa", "bb cc", "longerword", "\u{4e2d}\u{6587}", "x1<br>y2", "dd ee ff gg", "q"];
fn gen_table(r: &mut Lcg, depth: u32, tok: &mut u32) -> String {
    if depth == 0 && r.below(10) == 0 {
        // every row has the same span pattern (the column boundaries inside a spanning cell exist in no row); cells may hold one character
        let pattern: Vec<usize> = match r.below(4) { 0 => vec![2], 1 => vec![2, 1], 2 => vec![1, 2], _ => vec![3, 1] };
        let mut s = String::from("<table>");
        for _ in 0..1 + r.below(3) { s.push_str("<tr>"); for &sp in &pattern { let c = ["z", "y", "xx", ""][r.below(4) as usize]; s.push_str(&format!("<td colspan={}>{}</td>", sp, c)); } s.push_str("</tr>"); }
        return s + "</table>";
    }
    let rows = 1 + r.below(3) as usize;
    let cols = 1 + r.below(3) as usize;
    let mut s = String::from("<table>");
    let mut col_has_single = vec![false; cols];
    let mut col_needs = vec![false; cols];     // spanned by an EMPTY multi-column cell
    let mut body = vec![];
    for _ in 0..rows {
        let mut row = vec![];
        let mut c = 0;
        while c < cols {
            let span = if c + 1 < cols && r.below(5) == 0 { 2 } else { 1 };
            let content = if depth == 0 && r.below(8) == 0 { gen_table(r, 1, tok) } else {
                let k = r.below(CELLS.len() as u64) as usize;
                if CELLS[k].is_empty() { String::new() } else { *tok += 1; format!("{}{}", CELLS[k], tok) }
            };
            // a nested table may render to nothing: it does not count as content of its column
            if span == 1 && !content.is_empty() && !content.starts_with("<table") { col_has_single[c] = true; }
            if span > 1 && content.is_empty() { for k in c..c + span { col_needs[k] = true; } }
            row.push((span, content));
            c += span;
        }
        body.push(row);
    }
    // a column under an empty multi-column cell gets at least one single-span cell with content (keeps clear of the recorded finding
    // D15; every cell with content is at least as wide as its colspan, which keeps clear of D8); other columns may be empty in every
    // row or be covered by spanning cells only
    for c in 0..cols { if col_needs[c] && !col_has_single[c] { *tok += 1; body.push((0..cols).map(|k| (1, if k == c { format!("f{}", tok) } else { String::new() })).collect()); col_has_single[c] = true; } }
    // row groups: none / thead + tbody / tbody only / thead + tbody + tfoot (rendered as plain rows, in source order)
    let sect = r.below(5);
    let nrows = body.len();
    for (ri, row) in body.into_iter().enumerate() {
        let cell = if (sect == 1 || sect == 3) && ri == 0 { "th" } else { "td" };
        if ri == 0 { match sect { 1 | 3 => s.push_str("<thead>"), 2 => s.push_str("<tbody>"), _ => {} } }
        if ri == 1 && (sect == 1 || sect == 3) { s.push_str("<tbody>"); }
        if sect == 3 && nrows >= 3 && ri == nrows - 1 { s.push_str("</tbody><tfoot>"); }
        s.push_str("<tr>");
        for (span, content) in row { if span > 1 { s.push_str(&format!("<{} colspan={}>{}</{}>", cell, span, content, cell)); } else { s.push_str(&format!("<{}>{}</{}>", cell, content, cell)); } }
        s.push_str("</tr>");
        if ri == 0 && (sect == 1 || sect == 3) { s.push_str("</thead>"); }
    }
    s.push_str("</table>");
    s
}
fn content_chars(html: &str) -> Vec<char> {
    // text outside tags, without white space
    let mut out = vec![]; let mut intag = false;
    for ch in html.chars() { if ch == '<' { intag = true; } else if ch == '>' { intag = false; } else if !intag && !ch.is_whitespace() { out.push(ch); } }
    out.sort(); out
}
fn is_rule(c: char) -> bool { c == '\u{2500}' || c == '\u{252c}' || c == '\u{2534}' || c == '\u{253c}' }
fn columns(l: &str) -> Vec<char> {
    use unicode_width::UnicodeWidthChar;
    let mut v = vec![];
    for ch in l.chars() { let w = UnicodeWidthChar::width(ch).unwrap_or(0); for k in 0..w { v.push(if k == 0 { ch } else { '\u{0}' }); } }
    v
}

pub fn bnd_tables() {
    let (ntab, maxw) = if thorough() { (2500u32, 50usize) } else { (500u32, 30usize) };
    let mut rep = Report::new("bnd_tables", &format!("{} seeded regular tables (1..3 rows plus filler rows, 1..3 columns, colspan 2 tiling the grid, cells empty/short/two words/long/wide characters/two lines/many words, \
        one level of nested tables, every fifth table inside a quote or a list item, rows optionally grouped in thead (th cells) / tbody / tfoot, columns may be empty in every row unless a multi-column cell with other columns spans them; 4 fixed tables with empty multi-column cells over all-empty columns 4 with a long multi-column cell over short cells, 2 with 6 and 8 columns), widths 1..={}; plain decorator with borders: \
        no panic; lines within the width (C02); the non-space characters of all cells are exactly the non-border characters of the output (C03, C06); \
        side-by-side layout: equal line widths, first and last line are rules, every rule character matches the bars directly above and below it (C05); \
        allowing width overflow does not change a rendering that succeeds (C11)", ntab, maxw));
    let mut r = Lcg(0x9e3779b97f4a7c15 ^ seed());
    // empty multi-column cells over columns that are empty in every row (they have no width and must vanish with their columns)
    let extras = ["<table><tr><td>a1</td><td></td><td></td></tr><tr><td>b2</td><td colspan=2></td></tr></table>",
        "<table><thead><tr><th>h1</th><th colspan=2></th></tr></thead><tr><td>a2</td><td></td><td></td></tr></table>",
        "<table><tr><td>a1</td><td></td><td></td><td>c3</td></tr><tr><td>b2</td><td colspan=2></td><td>d4</td></tr></table>",
        "<table><tr><td colspan=3></td><td>c1</td></tr><tr><td></td><td></td><td></td><td>d2</td></tr></table>",
        // a long multi-column cell over short one-column cells (the spanning cell's estimate must not lower the minimum of its columns)
        "<table><tr><td colspan=4>alpha beta gamma delta epsilon zeta eta theta</td></tr><tr><td>b1</td><td>b2</td><td>b3</td><td>b4</td></tr></table>",
        "<table><tr><td colspan=2>one two three four five six</td><td>zz</td></tr><tr><td>p1</td><td>q2</td><td>r3</td></tr></table>",
        "<table><tr><td>k1</td><td colspan=3>some rather long spanning text here</td></tr><tr><td>k2</td><td>m3</td><td>n4</td><td>o5</td></tr></table>",
        "<table><tr><td>a1</td><td>b2</td><td>c3</td></tr><tr><td colspan=3>uu vv ww xx yy zz uu vv ww xx</td></tr><tr><td>d4</td><td>e5</td><td>f6</td></tr></table>",
        // many equal columns whose minimum widths add up to more than a narrow page (the shrink loop takes one column at a time)
        "<table><tr><td>tokena</td><td>tokenb</td><td>tokenc</td><td>tokend</td><td>tokene</td><td>tokenf</td></tr><tr><td>a1</td><td>b2</td><td>c3</td><td>d4</td><td>e5</td><td>f6</td></tr></table>",
        "<table><tr><td>aa bb cc</td><td>dd</td><td>ee ff gg hh</td><td>ii</td><td>jj kk</td><td>ll</td><td>mm nn oo</td><td>pp</td></tr></table>",
        // row groups out of display order stay in source order
        "<table><tfoot><tr><td>f1</td><td>f2</td></tr></tfoot><tbody><tr><td>b3</td><td>b4</td></tr></tbody></table>",
        "<table><tr><td>r1</td></tr><thead><tr><th>h2</th></tr></thead><tfoot><tr><td>f3</td></tr></tfoot><tbody><tr><td>b4</td></tr></tbody></table>"];
    for ti in 0..ntab as usize + extras.len() {
        let mut tok = 0;
        let html0 = if ti < extras.len() { extras[ti].to_string() } else { gen_table(&mut r, 0, &mut tok) };
        let want = content_chars(&html0);
        // raw mode: the whole document keeps document order (rows in source order whatever their group, cells left to right)
        {
            let want_seq: String = { let mut o = String::new(); let mut intag = false; for ch in html0.chars() { if ch == '<' { intag = true; } else if ch == '>' { intag = false; } else if !intag && !ch.is_whitespace() { o.push(ch); } } o };
            let input = format!("width=60 raw_mode html={}", html0);
            rep.case(&input);
            let h = html0.clone();
            match panic::catch_unwind(move || config::plain().raw_mode(true).string_from_read(h.as_bytes(), 60)) {
                Err(_) => rep.found(&input, "panic"),
                Ok(Err(_)) => {}
                Ok(Ok(o)) => { let got: String = o.chars().filter(|c| !c.is_whitespace()).collect(); if got != want_seq { rep.found(&input, &format!("raw mode: cell characters in document order {:?} but output characters {:?}", want_seq, got)); } }
            }
        }
        // every fifth table sits in a quote or a list item: the same table, two columns to the right
        let (html, pfx1, pfxn): (String, &str, &str) = match ti % 10 { 3 => (format!("<blockquote>{}</blockquote>", html0), "> ", "> "), 8 => (format!("<ul><li>{}</li></ul>", html0), "* ", "  "), _ => (html0.clone(), "", "") };
        for w in 1..=maxw {
            let input = format!("width={} html={}", w, html);
            rep.case(&input);
            let h = html.clone();
            let out0 = match panic::catch_unwind(move || config::plain().string_from_read(h.as_bytes(), w)) { Ok(Ok(s)) => s, Ok(Err(_)) => continue, Err(_) => { rep.found(&input, "panic"); continue; } };
            if let Some(l) = out0.lines().find(|l| columns(l).len() > w) { rep.found(&input, &format!("line {:?} is {} columns wide", l, columns(l).len())); continue; }
            // strip the block prefix; the table itself is checked at width - 2
            let out: String = if pfx1.is_empty() { out0.clone() } else {
                let mut o = String::new(); let mut bad = false;
                for (i, l) in out0.lines().enumerate() { let p = if i == 0 { pfx1 } else { pfxn }; if let Some(x) = l.strip_prefix(p) { o.push_str(x); } else if l.trim_end() == p.trim_end() { } else { bad = true; } o.push('\n'); }
                if bad { rep.found(&input, &format!("a line of the prefixed block does not start with its prefix; output {:?}", out0)); continue; }
                o };
            let w = if pfx1.is_empty() { w } else { w.saturating_sub(2) };
            let lines: Vec<&str> = out.lines().collect();
            let cols: Vec<Vec<char>> = lines.iter().map(|l| columns(l)).collect();
            if let Some(l) = cols.iter().position(|c| c.len() > w) { rep.found(&input, &format!("line {:?} is {} columns wide", lines[l], cols[l].len())); continue; }
            let mut got: Vec<char> = out.chars().filter(|c| !c.is_whitespace() && !is_rule(*c) && *c != '\u{2502}' && *c != '/').collect();
            got.sort();
            if got != want { rep.found(&input, &format!("cell characters {:?} but output characters {:?}; output {:?}", want.iter().collect::<String>(), got.iter().collect::<String>(), out)); continue; }
            {
                let h2 = html.clone();
                let wo = if pfx1.is_empty() { w } else { w + 2 };
                match panic::catch_unwind(move || config::plain().allow_width_overflow().string_from_read(h2.as_bytes(), wo)) {
                    Err(_) => { rep.found(&input, "panic (allow_width_overflow)"); continue; }
                    Ok(Err(e)) => { rep.found(&input, &format!("error {:?} although width overflow is allowed", e)); continue; }
                    Ok(Ok(o)) => if o != out0 { rep.found(&input, &format!("allow_width_overflow changed a rendering that succeeds: {:?} vs {:?}", out0, o)); continue; },
                }
            }
            if out.contains('/') || lines.is_empty() { continue; }     // stacked layout
            // string output trims trailing spaces: no line may be wider than the first rule; shorter lines are padded for the column checks
            let tw = cols[0].len();
            if cols.iter().any(|c| c.len() > tw) || cols.iter().any(|c| c.iter().all(|x| is_rule(*x)) && c.len() != tw) { rep.found(&input, &format!("lines of a side-by-side table differ in width; output {:?}", out)); continue; }
            let cols: Vec<Vec<char>> = cols.into_iter().map(|mut c| { while c.len() < tw { c.push(' '); } c }).collect();
            if !cols[0].iter().all(|c| is_rule(*c)) || !cols[cols.len() - 1].iter().all(|c| is_rule(*c)) { rep.found(&input, &format!("first or last line is not a rule; output {:?}", out)); continue; }
            'outer: for (li, line) in cols.iter().enumerate() {
                for (i, &ch) in line.iter().enumerate() {
                    if !is_rule(ch) { continue; }
                    let above = li > 0 && cols[li - 1].get(i) == Some(&'\u{2502}');
                    let below = li + 1 < cols.len() && cols[li + 1].get(i) == Some(&'\u{2502}');
                    let want_ch = match (above, below) { (true, true) => '\u{253c}', (true, false) => '\u{2534}', (false, true) => '\u{252c}', (false, false) => '\u{2500}' };
                    if ch != want_ch { rep.found(&input, &format!("line {} column {}: {:?} but bar above={} below={}; output {:?}", li, i, ch, above, below, out)); break 'outer; }
                }
            }
        }
    }
    rep.finish();
}

// ------------------------------------------------------------------------------------------------------------------------------
// C06: every cell's text lies between the bars of the columns it spans, on the lines of its row.
pub fn c06_positions() {
    let ntab = if thorough() { 1500u32 } else { 300u32 };
    let mut rep = Report::new("c06_positions", &format!("{} seeded tables of 1..3 rows x 1..6 columns, colspans tiling the grid, every column holding a one-column cell with text in some row, a unique token per cell         (plus optional extra words), widths 6..=40; plain decorator, side-by-side layouts only: the bar positions of all rows are the same column boundaries; the token of cell (r, c..c+span) occurs only on lines of row band r         and entirely between boundary c-1 and boundary c+span-1; tokens of a row appear left to right in source order", ntab));
    let mut r = Lcg(0x510e527fade682d1 ^ seed());
    for _ in 0..ntab {
        let rows = 1 + r.below(3) as usize; let cols = 1 + r.below(6) as usize;
        // cells: (row, start col, span, token, html)
        let mut cells: Vec<(usize, usize, usize, String)> = vec![];
        let mut html = String::from("<table>");
        let mut single = vec![false; cols];
        for ri in 0..rows {
            html.push_str("<tr>");
            let mut c = 0;
            while c < cols {
                let last_row = ri + 1 == rows;
                let span = if c + 1 < cols && r.below(4) == 0 && !(last_row && (!single[c] || !single[c + 1])) { 2 } else { 1 };
                let tok = format!("{}{}zw", (b'a' + ri as u8) as char, (b'p' + c as u8) as char);
                let extra = match r.below(4) { 0 => " more words here", 1 => " zz", _ => "" };
                if span == 1 { single[c] = true; }
                html.push_str(&format!("<td{}>{}{}</td>", if span > 1 { format!(" colspan={}", span) } else { String::new() }, tok, extra));
                cells.push((ri, c, span, tok));
                c += span;
            }
            html.push_str("</tr>");
        }
        html.push_str("</table>");
        if !single.iter().all(|b| *b) { continue; }
        for w in 6..=40usize {
            let input = format!("width={} html={}", w, html);
            rep.case(&input);
            let h = html.clone();
            let out = match panic::catch_unwind(move || config::plain().string_from_read(h.as_bytes(), w)) { Ok(Ok(s)) => s, Ok(Err(_)) => continue, Err(_) => { rep.found(&input, "panic"); continue; } };
            if out.contains('/') { continue; }      // stacked
            let lines: Vec<Vec<char>> = out.lines().map(|l| columns(l)).collect();
            if lines.is_empty() { continue; }
            // row bands: lines between rules
            let mut bands: Vec<Vec<usize>> = vec![]; let mut cur: Vec<usize> = vec![];
            for (i, l) in lines.iter().enumerate() { if !l.is_empty() && l.iter().all(|c| is_rule(*c)) { if !cur.is_empty() { bands.push(std::mem::take(&mut cur)); } } else { cur.push(i); } }
            if !cur.is_empty() { bands.push(cur); }
            if bands.len() != rows { rep.found(&input, &format!("{} row bands for {} rows; output {:?}", bands.len(), rows, out)); continue; }
            // column boundaries: the union of bar positions
            let mut bars: Vec<usize> = vec![];
            for l in &lines { for (x, ch) in l.iter().enumerate() { if *ch == '\u{2502}' && !bars.contains(&x) { bars.push(x); } } }
            bars.sort();
            if bars.len() != cols - 1 { rep.found(&input, &format!("{} distinct bar positions {:?} for {} columns; output {:?}", bars.len(), bars, cols, out)); continue; }
            let left = |c: usize| -> isize { if c == 0 { -1 } else { bars[c - 1] as isize } };
            let right = |c: usize| -> isize { if c + 1 >= cols { isize::MAX } else { bars[c] as isize } };
            let mut bad = false;
            for (ri, c, span, tok) in &cells {
                let t: Vec<char> = tok.chars().collect();
                let mut seen = 0;
                for (li, l) in lines.iter().enumerate() {
                    // occurrences of the token's first characters (the token may be hard-wrapped: look for its first min(3, available) characters)
                    let k = t.len().min(3);
                    let mut x = 0;
                    while x + k <= l.len() {
                        if l[x..x + k] == t[..k] {
                            seen += 1;
                            if !bands[*ri].contains(&li) { rep.found(&input, &format!("token {} of row {} appears on line {}, outside its row band {:?}; output {:?}", tok, ri, li, bands[*ri], out)); bad = true; }
                            else if (x as isize) <= left(*c) || ((x + k - 1) as isize) >= right(c + span - 1) { rep.found(&input, &format!("token {} (columns {}..{}) at x={} is not between the bars {} and {}; output {:?}", tok, c, c + span - 1, x, left(*c), right(c + span - 1), out)); bad = true; }
                        }
                        x += 1;
                    }
                    if bad { break; }
                }
                if bad { break; }
                // a column narrower than 3 may cut the token earlier than its first three characters; otherwise it must be there
                if seen == 0 && w >= 4 * cols + 8 { rep.found(&input, &format!("token {} not found; output {:?}", tok, out)); break; }
            }
        }
    }
    rep.finish();
}

// ------------------------------------------------------------------------------------------------------------------------------
// C07 compositionality: a prefixed block is its content rendered at width - prefix with the prefix in front of every line.
pub fn c07_compose() {
    let ndoc = if thorough() { 500u32 } else { 120u32 };
    let mut rep = Report::new("c07_compose", &format!("{} seeded block sequences X (the table-free grammar of bnd_doc) inside <blockquote>, <ul><li>, <ol start=7><li> and <dl><dd>, widths 8..=40 step 2; plain decorator without link footnotes:         when both render, the lines of the wrapped document are the lines of X rendered at width - prefix width with the prefix (quote mark; bullet / number then blank indentation; two blanks) in front of every line", ndoc));
    let mut r = Lcg(0x1f83d9abfb41bd6b ^ seed());
    for _ in 0..ndoc {
        let mut tok = 0;
        let mut x = String::new();
        for _ in 0..1 + r.below(2) { x.push_str(&gen_block(&mut r, &mut tok, 1)); }
        for (open, close, first, cont) in [("<blockquote>", "</blockquote>", "> ", "> "), ("<ul><li>", "</li></ul>", "* ", "  "), ("<ol start=\"7\"><li>", "</li></ol>", "7. ", "   "), ("<dl><dd>", "</dd></dl>", "  ", "  ")] {
            let html = format!("{}{}{}", open, x, close);
            for w in (8..=40usize).step_by(2) {
                let pw = first.len();
                let input = format!("width={} html={}", w, html);
                rep.case(&input);
                let (h1, h2) = (html.clone(), x.clone());
                let outer = match panic::catch_unwind(move || config::plain().link_footnotes(false).string_from_read(h1.as_bytes(), w)) { Ok(Ok(s)) => s, Ok(Err(_)) => continue, Err(_) => { rep.found(&input, "panic"); continue; } };
                let inner = match panic::catch_unwind(move || config::plain().link_footnotes(false).string_from_read(h2.as_bytes(), w - pw)) { Ok(Ok(s)) => s, _ => continue };
                let want: Vec<String> = inner.lines().enumerate().map(|(i, l)| format!("{}{}", if i == 0 { first } else { cont }, l)).collect();
                let got: Vec<String> = outer.lines().map(|l| l.to_string()).collect();
                if got != want { rep.found(&input, &format!("lines {:?}, but the content at width {} with the prefix in front is {:?}", got, w - pw, want)); }
            }
        }
    }
    rep.finish();
}

// ------------------------------------------------------------------------------------------------------------------------------
// C07: list numbering and alignment (do_render_node Ol/Ul arms, calc_ol_prefix_size, append_subrender as wholes).
pub fn bnd_c07() {
    let starts: Vec<i64> = if thorough() { vec![1, 0, -1, -3, 7, 8, 9, 95, 98, 99, 100, 998, -10, -11] } else { vec![1, 0, -1, 8, 9, 98, 99, -10, -12, -99] };
    let mut rep = Report::new("bnd_c07", &format!("ordered lists with start in {:?}, 1..=12 items (one item with text that wraps, one with a nested ordered or unordered list), widths 8..=30 step 1; plain decorator: \
        item k carries the number start+k-1, all markers of a list are padded to one common width (the widest marker), continuation lines and nested lists are indented by that width, lines within the width", starts));
    for &st in &starts { for n in 1..=12usize { for nested in [0, 1, 2] {
        let mut html = if st == 1 { String::from("<ol>") } else { format!("<ol start=\"{}\">", st) };
        for k in 0..n {
            if k == 1 { html.push_str("<li>wa wb wc wd we wf wg wh</li>"); }
            else if k == 2 && nested == 1 { html.push_str("<li>par<ol><li>ca</li><li>cb</li></ol></li>"); }
            else if k == 2 && nested == 2 { html.push_str("<li>par<ul><li>ca</li><li>cb</li></ul></li>"); }
            else { html.push_str(&format!("<li>t{}</li>", k)); }
        }
        html.push_str("</ol>");
        let first = format!("{}. ", st); let last = format!("{}. ", st + n as i64 - 1);
        let pw = first.len().max(last.len());
        for width in 8..=30usize {
            let input = format!("width={} html={}", width, html);
            rep.case(&input);
            let h = html.clone();
            let out = match panic::catch_unwind(move || config::plain().string_from_read(h.as_bytes(), width)) { Ok(Ok(s)) => s, Ok(Err(_)) => continue, Err(_) => { rep.found(&input, "panic"); continue; } };
            let lines: Vec<&str> = out.lines().collect();
            if let Some(l) = lines.iter().find(|l| l.chars().count() > width) { rep.found(&input, &format!("line {:?} wider than {}", l, width)); continue; }
            // top-level lines: either "<marker padded to pw><text>" or "<pw spaces><continuation / nested>"
            let mut k = 0usize; let mut bad = None;
            for l in &lines {
                if l.is_empty() { continue; }
                let indent = " ".repeat(pw);
                if l.starts_with(&indent) { continue; }
                let want = format!("{:<w$}", format!("{}. ", st + k as i64), w = pw);
                if !l.starts_with(&want) && !(l.trim_end() == want.trim_end()) { bad = Some(format!("line {:?}: expected marker {:?} (item {})", l, want, k + 1)); break; }
                k += 1;
            }
            if let Some(b) = bad { rep.found(&input, &format!("{}; output {:?}", b, out)); continue; }
            if k != n { rep.found(&input, &format!("{} numbered items, expected {}; output {:?}", k, n, out)); continue; }
            if nested != 0 && n > 2 {
                let want = if nested == 1 { format!("{}1. ca", " ".repeat(pw)) } else { format!("{}* ca", " ".repeat(pw)) };
                if !lines.iter().any(|l| *l == want) { rep.found(&input, &format!("nested list line {:?} missing; output {:?}", want, out)); }
            }
        }
    }}}
    rep.finish();
}

// ------------------------------------------------------------------------------------------------------------------------------
// C14: fragment markers (process_dom_node id handling, insert_child placement, record_frag_start, add_line / flush_wrapping hand-over).
pub fn bnd_c14() {
    // (html, list of (id, first token of the element or "" when it has no text))
    let docs: Vec<(&str, Vec<(&str, &str)>)> = vec![
        ("<p id=\"a\">ta tb</p><p id=\"b\">tc</p>", vec![("a", "ta"), ("b", "tc")]),
        ("<div id=\"d\"><p>ta</p><p id=\"p2\">tb tc</p></div>", vec![("d", "ta"), ("p2", "tb")]),
        ("<ul><li id=\"l1\">ta</li><li id=\"l2\">tb <span id=\"s\">tc</span></li></ul>", vec![("l1", "ta"), ("l2", "tb"), ("s", "tc")]),
        ("<h2 id=\"h\">ta tb</h2><blockquote id=\"q\">tc td</blockquote>", vec![("h", "ta"), ("q", "tc")]),
        ("<p>ta <a id=\"an\" href=\"u\">tb</a> tc <em id=\"e\">td</em></p>", vec![("an", "tb"), ("e", "td")]),
        ("<table id=\"t\"><tr><td id=\"c1\">ta</td><td>tb</td></tr><tr id=\"r2\"><td>tc</td><td id=\"c4\">td</td></tr></table>", vec![("t", "ta"), ("c1", "ta"), ("r2", "tc"), ("c4", "td")]),
        ("<p id=\"a\">ta</p><table><tr><td id=\"c\">tb</td></tr></table><p id=\"z\">tc</p>", vec![("a", "ta"), ("c", "tb"), ("z", "tc")]),
        ("<div id=\"w\"><table><tr><td>ta</td></tr></table></div><p id=\"z\">tb</p>", vec![("w", "ta"), ("z", "tb")]),
        ("<p id=\"long\">tahhhhhhhhhhhh tb</p><ol><li id=\"o1\">tc</li><li id=\"o2\">td</li></ol>", vec![("long", "tahhhhhhhhhhhh"), ("o1", "tc"), ("o2", "td")]),
        ("<dl><dt id=\"dt\">ta</dt><dd id=\"dd\">tb tc</dd></dl><pre id=\"pre\">td\nte</pre>", vec![("dt", "ta"), ("dd", "tb"), ("pre", "td")]),
        ("<div>ta <ul id=\"u\"><li>tb</li></ul></div><blockquote>tc td <ol id=\"o\"><li>te</li></ol></blockquote>", vec![("u", "tb"), ("o", "1te")]),
        ("<div>ta <span id=\"s\"><br>tb</span> tc</div><p>td <b id=\"b\">te</b></p>", vec![("s", "tb"), ("b", "te")]),
        ("<p>ta</p> tb <h2 id=\"h\">tc</h2> td <div id=\"d\"><p>te</p></div>", vec![("h", "tc"), ("d", "te")]),
        ("<p>ta <a name=\"n1\">tb</a> tc <a name=\"n2\" href=\"u\">td</a> te <a href=\"u\" name=\"n3\">tf</a> tg <a href=\"u\" id=\"n4\">th</a></p>", vec![("n1", "tb"), ("n2", "td"), ("n3", "tf"), ("n4", "th")]),
    ];
    let widths: Vec<usize> = if thorough() { (3..=40).collect() } else { vec![3, 4, 6, 10, 16, 40] };
    let mut rep = Report::new("bnd_c14", &format!("14 documents with id attributes on p, div, li, span, h2, blockquote, a, em, b, ul, ol, table, tr, td, dt, dd, pre and name attributes on links (elements next to tables, borders and loose inline text included); {} widths; \
        rich lines: every id yields exactly one FragmentStart, and the first text after it (reading order) starts with the first text of that element", widths.len()));
    for (html, ids) in &docs { for &w in &widths {
        let input = format!("width={} html={}", w, html);
        rep.case(&input);
        let h = html.to_string();
        let lines = match panic::catch_unwind(move || config::rich().lines_from_read(h.as_bytes(), w)) { Ok(Ok(l)) => l, Ok(Err(_)) => continue, Err(_) => { rep.found(&input, "panic"); continue; } };
        // flatten to a sequence of events
        let mut ev: Vec<(bool, String)> = vec![];   // (is_fragment, text)
        for l in &lines { for e in l.iter() { match e {
            TaggedLineElement::FragmentStart(f) => ev.push((true, f.clone())),
            TaggedLineElement::Str(ts) => { let t: String = ts.s.chars().filter(|c| c.is_alphanumeric()).collect(); if !t.is_empty() { ev.push((false, t)); } }
        }}}
        for (id, tok) in ids {
            let pos: Vec<usize> = ev.iter().enumerate().filter(|(_, e)| e.0 && e.1 == *id).map(|(i, _)| i).collect();
            if pos.len() != 1 { rep.found(&input, &format!("id {:?} yields {} fragment markers; events {:?}", id, pos.len(), ev)); continue; }
            // the text that follows (concatenated, hard wrapping may split a token over lines)
            let after: String = ev[pos[0] + 1..].iter().filter(|e| !e.0).map(|e| e.1.as_str()).collect();
            let head: String = tok.chars().take(w.min(tok.len())).collect();
            if !tok.is_empty() && !after.starts_with(&head) { rep.found(&input, &format!("marker {:?} is followed by {:?}, expected the element's text {:?}; events {:?}", id, &after[..after.len().min(12)], tok, ev)); }
        }
    }}
    rep.finish();
}

// ------------------------------------------------------------------------------------------------------------------------------
// C20: selectors against an independent reference matcher over a generated element tree (parser + do_matches + rule application).
#[derive(Clone)]
struct El { name: &'static str, class: Option<&'static str>, id: Option<String>, kids: Vec<El>, tok: String }
fn gen_tree(r: &mut Lcg, depth: u32, n: &mut u32) -> El {
    *n += 1;
    let name = if depth > 0 && r.below(3) == 0 { "span" } else { "div" };
    let class = match r.below(4) { 0 => Some("a"), 1 => Some("b"), _ => None };
    let id = if r.below(6) == 0 { Some(format!("i{}", n)) } else { None };
    let tok = format!("k{}", n);
    let mut kids = vec![];
    if depth < 3 && name == "div" { for _ in 0..r.below(4) { kids.push(gen_tree(r, depth + 1, n)); } }
    El { name, class, id, kids, tok }
}
fn tree_html(e: &El, out: &mut String) {
    out.push_str(&format!("<{}", e.name));
    if let Some(c) = e.class { out.push_str(&format!(" class=\"{}\"", c)); }
    if let Some(i) = &e.id { out.push_str(&format!(" id=\"{}\"", i)); }
    out.push_str(&format!(">{} ", e.tok));
    for k in &e.kids { tree_html(k, out); out.push(' '); }
    out.push_str(&format!("</{}>", e.name));
}
#[derive(Clone, Debug)]
struct Step { name: Option<&'static str>, class: Option<&'static str>, id: Option<String>, nth: Option<(i32, i32)> }
fn step_css(s: &Step) -> String {
    let mut o = String::new();
    if let Some(n) = s.name { o.push_str(n); }
    if let Some(c) = s.class { o.push_str(&format!(".{}", c)); }
    if let Some(i) = &s.id { o.push_str(&format!("#{}", i)); }
    if o.is_empty() { o.push('*'); }
    if let Some((a, b)) = s.nth { o.push_str(&format!(":nth-child({}n{}{})", a, if b < 0 { "-" } else { "+" }, b.abs())); }
    o
}
fn step_ok(s: &Step, path: &[(&El, usize)]) -> bool {
    // path: root … element, each with its 1-based index among the element children of its parent
    let (e, idx) = path[path.len() - 1];
    if path.len() < 2 { return false; }     // path[0] is the document node, which is not an element
    if let Some(n) = s.name { if e.name != n { return false; } }
    if let Some(c) = s.class { if e.class != Some(c) { return false; } }
    if let Some(i) = &s.id { if e.id.as_ref() != Some(i) { return false; } }
    if let Some((a, b)) = s.nth {
        let i = idx as i64; let (a, b) = (a as i64, b as i64);
        let ok = if a == 0 { i == b } else { (i - b) % a == 0 && (i - b) / a >= 0 };
        if !ok { return false; }
    }
    true
}
fn sel_matches(steps: &[Step], combs: &[char], path: &[(&El, usize)]) -> bool {
    // steps left to right; combs[i] between steps[i] and steps[i+1]
    let n = steps.len();
    if !step_ok(&steps[n - 1], path) { return false; }
    if n == 1 { return true; }
    match combs[n - 2] {
        '>' => path.len() >= 2 && sel_matches(&steps[..n - 1], &combs[..n - 2], &path[..path.len() - 1]),
        _ => (1..path.len()).any(|l| sel_matches(&steps[..n - 1], &combs[..n - 2], &path[..l])),
    }
}
fn walk<'a>(e: &'a El, idx: usize, path: &mut Vec<(&'a El, usize)>, steps: &[Step], combs: &[char], inherited: bool, out: &mut Vec<(String, bool)>) {
    path.push((e, idx));
    let red = inherited || sel_matches(steps, combs, path);
    out.push((e.tok.clone(), red));
    for (i, k) in e.kids.iter().enumerate() { walk(k, i + 1, path, steps, combs, red, out); }
    path.pop();
}
pub fn bnd_c20() {
    let (ntree, nsel) = if thorough() { (600u32, 120u32) } else { (200u32, 80u32) };
    let mut rep = Report::new("bnd_c20", &format!("{} seeded element trees (div/span, depth <= 4, up to 3 children, classes a/b, some ids, text mixed with element children) x {} seeded selectors \
        (1..3 compound steps of element name / class / id / universal, child and descendant combinators, :nth-child(an+b) with a in -2..=2 and b in -2..=3 on non-root steps): \
        the tokens coloured by `sel{{color:#ff0000;}}` are exactly those with an ancestor-or-self matched by an independent reference matcher", ntree, nsel));
    let mut r = Lcg(0x51ed27bd ^ seed());
    for _ in 0..ntree {
        let mut n = 0;
        let root = gen_tree(&mut r, 0, &mut n);
        let mut html = String::new(); tree_html(&root, &mut html);
        let ids: Vec<String> = { let mut v = vec![]; fn coll(e: &El, v: &mut Vec<String>) { if let Some(i) = &e.id { v.push(i.clone()); } for k in &e.kids { coll(k, v); } } coll(&root, &mut v); v };
        for _ in 0..nsel {
            let ns = 1 + r.below(3) as usize;
            let mut steps = vec![]; let mut combs = vec![];
            for s in 0..ns {
                let name = match r.below(4) { 0 => Some("div"), 1 => Some("span"), _ => None };
                let class = match r.below(4) { 0 => Some("a"), 1 => Some("b"), _ => None };
                let id = if !ids.is_empty() && r.below(8) == 0 { Some(ids[r.below(ids.len() as u64) as usize].clone()) } else { None };
                let nth = if r.below(3) == 0 { Some((r.below(5) as i32 - 2, r.below(6) as i32 - 2)) } else { None };
                steps.push(Step { name, class, id, nth });
                if s + 1 < ns { combs.push(if r.below(2) == 0 { '>' } else { ' ' }); }
            }
            let mut css = String::new();
            for (i, s) in steps.iter().enumerate() { css.push_str(&step_css(s)); if i < combs.len() { css.push_str(if combs[i] == '>' { " > " } else { " " }); } }
            // the root's position among <body>'s children is 1 (it is the only child)
            let mut want = vec![]; let mut path = vec![];
            // model <body> as an unnamed parent so that nth-child and combinators see a parent for the root
            // html5ever wraps the fragment: <html><head></head><body>…</body></html>; body is the 2nd element child of html
            let body = El { name: "body", class: None, id: None, kids: vec![root.clone()], tok: String::new() };
            let html_el = El { name: "html", class: None, id: None, kids: vec![], tok: String::new() };
            let doc = El { name: "#document", class: None, id: None, kids: vec![], tok: String::new() };
            path.push((&doc, 1usize));
            path.push((&html_el, 1usize));
            let on_html = sel_matches(&steps, &combs, &path);
            path.push((&body, 2usize));
            let on_body = sel_matches(&steps, &combs, &path);
            walk(&body.kids[0], 1, &mut path, &steps, &combs, on_html || on_body, &mut want);
            let input = format!("css={}{{color:#ff0000;}} html={}", css, html);
            rep.case(&input);
            let (c2, h2) = (format!("{}{{color:#ff0000;}}", css), html.clone());
            let lines = match panic::catch_unwind(move || config::rich().add_css(&c2).map(|c| c.lines_from_read(h2.as_bytes(), 200))) { Ok(Ok(Ok(l))) => l, Ok(_) => continue, Err(_) => { rep.found(&input, "panic"); continue; } };
            let mut got = std::collections::HashMap::new();
            for l in &lines { for ts in l.tagged_strings() {
                let red = ts.tag.iter().any(|a| matches!(a, RichAnnotation::Colour(c) if c.r == 255 && c.g == 0 && c.b == 0));
                for w in ts.s.split_whitespace() { got.insert(w.to_string(), red); }
            }}
            for (tok, red) in &want {
                match got.get(tok) {
                    Some(g) if g == red => {}
                    Some(g) => { rep.found(&input, &format!("token {:?}: coloured={} but the reference matcher says {}", tok, g, red)); break; }
                    None => { rep.found(&input, &format!("token {:?} missing from the output", tok)); break; }
                }
            }
        }
    }
    rep.finish();
}

// ------------------------------------------------------------------------------------------------------------------------------
// C01 over colour values (src/css/parser.rs parse_color and the legacy colour attributes): every string of at most N pieces.
pub fn c01_colours() {
    let pieces = ["#", "a", "F", "0", "9", "g", "\u{e9}", "\\\u{e9}", "\\e9 ", "\\", " ", "\u{4e2d}", "rgb(", ")", ",", "%", "-", "1", "255", "red", "!important", "\u{200b}"];
    let maxlen = if thorough() { 4 } else { 3 };
    let mut rep = Report::new("c01_colours", &format!("every concatenation of at most {} of {} pieces of colour values (hash, hex digits in both cases, a non-hex letter, non-ASCII characters raw and as CSS escapes, a lone backslash, \
        rgb( ) , % - numbers, a colour name, !important, zero-width space), prefixed with nothing or '#', as the value of color / background-color in a style attribute and in a style sheet (add_css), and as the legacy color / bgcolor attribute; \
        plus '#' followed by every string of 3 and 6 characters over (a, 0, \u{e9}, escaped \u{e9}): no panic", maxlen, pieces.len()));
    let mut vals: Vec<String> = vec![];
    let mut idx = vec![0usize; 1];
    loop {
        let v: String = idx.iter().map(|&i| pieces[i]).collect();
        vals.push(v.clone()); vals.push(format!("#{}", v));
        let mut k = 0;
        while k < idx.len() { idx[k] += 1; if idx[k] < pieces.len() { break; } idx[k] = 0; k += 1; }
        if k == idx.len() { if idx.len() == maxlen { break; } idx.push(0); }
    }
    // hash values of the two accepted lengths with multi-byte members at every position
    let hx = ["a", "0", "\u{e9}", "\\\u{e9}"];
    for n in [3usize, 6] { let mut ix = vec![0usize; n]; loop {
        vals.push(format!("#{}", ix.iter().map(|&i| hx[i]).collect::<String>()));
        let mut k = 0; while k < n { ix[k] += 1; if ix[k] < hx.len() { break; } ix[k] = 0; k += 1; } if k == n { break; }
    }}
    for v in &vals {
        let input = format!("value={:?}", v);
        rep.case(&input);
        let esc_attr = v.replace('&', "&amp;").replace('"', "&quot;");
        let html = format!("<p style=\"color: {0}; background-color: {0}\">x <font color=\"{0}\">y</font></p><table bgcolor=\"{0}\"><tr><td bgcolor=\"{0}\">z</td></tr></table>", esc_attr);
        let css = format!("p {{ color: {0}; }} td {{ background-color: {0} }}", v);
        let (h1, c1) = (html.clone(), css.clone());
        if panic::catch_unwind(move || { let _ = config::rich().use_doc_css().lines_from_read(h1.as_bytes(), 20); }).is_err() { rep.found(&input, "panic (style and colour attributes, use_doc_css)"); continue; }
        if panic::catch_unwind(move || { if let Ok(c) = config::rich().add_css(&c1) { let _ = c.lines_from_read("<p>x</p><table><tr><td>z</td></tr></table>".as_bytes(), 20); } }).is_err() { rep.found(&input, "panic (add_css)"); }
    }
    rep.finish();
}

// ------------------------------------------------------------------------------------------------------------------------------
// C20 on documents the parser restructures (mis-nested formatting elements: adoption agency; content misplaced in tables: foster
// parenting).  The reference matcher walks the parsed tree from the document node down (children only); the crate's matcher walks
// up through the parent links.  Both must designate the same elements, and every child must name its parent (what SM assumes).
pub fn c20_adoption() {
    let docs = ["<b>k1<p>k2<span>k3</span></b>k4</p>", "<i>k1<div>k2<i>k3</i></i>k4</div>k5", "<a href=\"u\">k1<p>k2<em>k3</em></a>k4</p>",
                "<table><tr><td>k1</td></tr><span>k2</span></table>", "<b>k1<i>k2</b>k3</i>k4", "<p>k1<b>k2<p>k3</b>k4</p>",
                "<em>k1<blockquote>k2<span>k3</span></em>k4</blockquote><span>k5</span>", "<b><b><b>k1<div>k2<span>k3</span></b></b></b>k4</div>",
                "<div>k1<b>k2<div>k3<i>k4<div>k5</b>k6</i>k7</div></div>k8</div>", "<table><tr><b><td>k1</td></b><td><span>k2</span></td></tr></table><span>k3</span>",
                "<span>k1<ul><li>k2<b>k3<li>k4</b>k5</ul></span>", "<div><span>k1</span><span>k2</span><b>k3<p>k4<span>k5</span><span>k6</span></b>k7</p></div>"];
    let names = ["b", "i", "p", "span", "div", "em", "a", "td", "li", "blockquote", "*"];
    let nths: [Option<(i32, i32)>; 4] = [None, Some((0, 1)), Some((0, 2)), Some((2, 1))];
    let mut rep = Report::new("c20_adoption", &format!("{} documents that the HTML parser restructures (mis-nested b/i/em/a around blocks, content misplaced inside tables, list items closing formatting elements) x selectors of one or two steps \
        over {} element names / the universal selector, child and descendant combinators, :nth-child(1 | 2 | 2n+1): the tokens coloured by the rule are those designated by a reference matcher that walks the parsed tree top-down; \
        every child node names as its parent the node whose child list holds it", docs.len(), names.len()));
    #[derive(Clone)]
    struct St { name: &'static str, nth: Option<(i32, i32)> }
    fn st_ok(s: &St, path: &[(String, usize)]) -> bool {
        if path.len() < 2 { return false; }
        let (n, idx) = &path[path.len() - 1];
        if s.name != "*" && s.name != n { return false; }
        if let Some((a, b)) = s.nth { let i = *idx as i64; let (a, b) = (a as i64, b as i64); let ok = if a == 0 { i == b } else { (i - b) % a == 0 && (i - b) / a >= 0 }; if !ok { return false; } }
        true
    }
    fn sel_ok(steps: &[St], combs: &[char], path: &[(String, usize)]) -> bool {
        let n = steps.len();
        if !st_ok(&steps[n - 1], path) { return false; }
        if n == 1 { return true; }
        match combs[n - 2] { '>' => path.len() >= 2 && sel_ok(&steps[..n - 1], &combs[..n - 2], &path[..path.len() - 1]), _ => (1..path.len()).any(|l| sel_ok(&steps[..n - 1], &combs[..n - 2], &path[..l])) }
    }
    for d in docs {
        // the parsed tree, top-down: (path of (name, index among element siblings), tokens directly inside)
        let dom = match config::plain().parse_html(d.as_bytes()) { Ok(x) => x, Err(_) => continue };
        let mut elems: Vec<(Vec<(String, usize)>, Vec<String>)> = vec![];
        let mut bad_links: Vec<String> = vec![];
        {
            // explicit stack: (node, path)
            let mut stack = vec![(dom.document.clone(), vec![("#document".to_string(), 1usize)])];
            while let Some((node, path)) = stack.pop() {
                let mut toks = vec![]; let mut eidx = 0usize;
                for c in node.children.borrow().iter() {
                    match c.get_parent() { Some(p) if std::rc::Rc::ptr_eq(&p, &node) => {}, _ => bad_links.push(format!("a child of <{}> ({}) does not name it as its parent", path[path.len() - 1].0, html2text::RcDom::node_as_dom_string(c).lines().next().unwrap_or("").trim())) }
                    match c.element_name() {
                        Some(n) => { eidx += 1; let mut p2 = path.clone(); p2.push((n, eidx)); stack.push((c.clone(), p2)); }
                        None => { let t = html2text::RcDom::node_as_dom_string(c); if let Some(x) = t.trim().strip_prefix("Text:") { for w in x.split_whitespace() { toks.push(w.to_string()); } } }
                    }
                }
                elems.push((path, toks));
            }
        }
        { let input = format!("html={}", d); rep.case(&input); for b in &bad_links { rep.found(&input, &format!("parent link: {}", b)); } }
        let mut sels: Vec<(Vec<St>, Vec<char>)> = vec![];
        for n1 in names { for t1 in nths { sels.push((vec![St { name: n1, nth: t1 }], vec![])); } }
        for n1 in names { for n2 in names { for c in ['>', ' '] { for t2 in nths { if d.contains(&format!("<{}", n1)) || n1 == "*" { sels.push((vec![St { name: n1, nth: None }, St { name: n2, nth: t2 }], vec![c])); } } } } }
        for (steps, combs) in &sels {
            let mut css = String::new();
            for (i, s) in steps.iter().enumerate() { css.push_str(s.name); if let Some((a, b)) = s.nth { css.push_str(&format!(":nth-child({}n+{})", a, b)); } if i < combs.len() { css.push_str(if combs[i] == '>' { " > " } else { " " }); } }
            let input = format!("css={}{{color:#ff0000;}} html={}", css, d);
            rep.case(&input);
            // reference: a token is red iff some ancestor-or-self element of its text node is matched
            let mut want: Vec<(String, bool)> = vec![];
            for (path, toks) in &elems { let red = (2..=path.len()).any(|l| sel_ok(steps, combs, &path[..l])); for t in toks { want.push((t.clone(), red)); } }
            let (c2, h2) = (format!("{}{{color:#ff0000;}}", css), d.to_string());
            let lines = match panic::catch_unwind(move || config::rich().add_css(&c2).map(|c| c.lines_from_read(h2.as_bytes(), 200))) { Ok(Ok(Ok(l))) => l, Ok(_) => continue, Err(_) => { rep.found(&input, "panic"); continue; } };
            let mut got = std::collections::HashMap::new();
            for l in &lines { for ts in l.tagged_strings() {
                let red = ts.tag.iter().any(|a| matches!(a, RichAnnotation::Colour(c) if c.r == 255 && c.g == 0 && c.b == 0));
                for w in ts.s.split_whitespace() { got.insert(w.to_string(), red); }
            }}
            for (tok, red) in &want {
                match got.get(tok) {
                    Some(g) if g == red => {}
                    Some(g) => { rep.found(&input, &format!("token {:?}: coloured={} but the reference matcher says {}", tok, g, red)); break; }
                    None => {}
                }
            }
        }
    }
    rep.finish();
}

// ------------------------------------------------------------------------------------------------------------------------------
// Generic documents (C02, C03, C11, C12, C16-trivial): width bound, text preserved in order, overflow option.
fn gen_inline(r: &mut Lcg, tok: &mut u32, depth: u32) -> String {
    let mut s = String::new();
    for _ in 0..1 + r.below(4) {
        *tok += 1;
        match r.below(10) {
            0 if depth < 2 => { let el = ["em", "strong", "code", "span", "b"][r.below(5) as usize]; s.push_str(&format!("<{}>{}</{}> ", el, gen_inline(r, tok, depth + 1), el)); }
            1 => s.push_str(&format!("w\u{4e2d}\u{6587}{} ", tok)),
            2 => s.push_str(&format!("verylongword{}abcdefghij ", tok)),
            3 => s.push_str(&format!("<a href=\"{}{}\">lk{}</a> ", if r.below(3) == 0 { "http://x/\u{4e2d}\u{6587}\u{5b57}" } else { "h" }, tok, tok)),
            4 => s.push_str(&format!("x{}<br>", tok)),
            5 => s.push_str(&format!("s{}<sup>up {}</sup> ", tok, tok)),
            6 if depth == 0 => s.push_str(&format!("m\u{5b57}\u{5b57}abcdefg\u{301}\u{301}h{} ", tok)),
            _ => s.push_str(&format!("w{} ", tok)),
        }
    }
    s
}
// returns the html and P, the largest total width of block prefixes on any nesting chain of the block (C11)
fn gen_block_p(r: &mut Lcg, tok: &mut u32, depth: u32) -> (String, usize) {
    let (b, p) = gen_block0(r, tok, depth);
    // some blocks and list items carry an id (fragment markers must not disturb anything)
    if r.below(4) == 0 { *tok += 1; let id = format!(" id=\"i{}\"", tok); if let Some(q) = b.find('>') { let mut o = b.clone(); o.insert_str(q, &id); return (o.replacen("<li>", &format!("<li id=\"j{}\">", tok), 1).replacen("<dd>", &format!("<dd id=\"k{}\">", tok), 1), p); } }
    (b, p)
}
pub(crate) fn gen_block(r: &mut Lcg, tok: &mut u32, depth: u32) -> String { gen_block_p(r, tok, depth).0 }
fn gen_block0(r: &mut Lcg, tok: &mut u32, depth: u32) -> (String, usize) {
    match r.below(if depth < 2 { 9 } else { 4 }) {
        0 | 1 => (format!("<p>{}</p>", gen_inline(r, tok, 0)), 0),
        2 => (format!("<h{}>{}</h{}>", 1 + depth, gen_inline(r, tok, 1), 1 + depth), 2 + depth as usize),
        3 => { *tok += 1; (format!("<pre>p{}  q{}\n\tr{}</pre>", tok, tok, tok), 0) }
        4 => { let mut s = String::from("<ul>"); let mut p = 0; for _ in 0..1 + r.below(3) { let inl = gen_inline(r, tok, 1); let (nb, np) = if r.below(3) == 0 { gen_block_p(r, tok, depth + 1) } else { (String::new(), 0) }; p = p.max(np); s.push_str(&format!("<li>{}{}</li>", inl, nb));
                // children of <ul> that are not list items are rendered as items too
                if r.below(5) == 0 { *tok += 1; match r.below(3) { 0 => s.push_str(&format!("stray{} ", tok)), 1 => s.push_str(&format!("<em>se{}</em>", tok)), _ => s.push_str(&format!("<ul><li>sn{}</li></ul>", tok)) } p = p.max(2); } } (s + "</ul>", 2 + p) }
        5 => { let st = r.below(12); let n = 1 + r.below(3); let mut s = format!("<ol start=\"{}\">", st); for _ in 0..n { s.push_str(&format!("<li>{}</li>", gen_inline(r, tok, 1))); } (s + "</ol>", format!("{}. ", st).len().max(format!("{}. ", st + n - 1).len())) }
        6 => { let inl = gen_inline(r, tok, 1); let (nb, np) = gen_block_p(r, tok, depth + 1); (format!("<blockquote>{}{}</blockquote>", inl, nb), 2 + np) }
        7 => { let (a, pa) = gen_block_p(r, tok, depth + 1); let (b2, pb) = gen_block_p(r, tok, depth + 1); (format!("<div>{}{}</div>", a, b2), pa.max(pb)) }
        _ => (format!("<dl><dt>{}</dt><dd>{}</dd></dl>", gen_inline(r, tok, 1), gen_inline(r, tok, 1)), 2),
    }
}
pub fn bnd_doc() {
    use html2text::render::TrivialDecorator;
    use unicode_width::UnicodeWidthStr;
    let (ndoc, maxw) = if thorough() { (1500u32, 40usize) } else { (300u32, 24usize) };
    let mut rep = Report::new("bnd_doc", &format!("{} seeded table-free documents (p, h1-h3, pre, ul, ol, blockquote, div, dl nested to depth 3; words, wide characters, over-long words, links with ASCII and wide-character targets, br, nested inline elements, ids on blocks and list items, stray children of <ul>, words mixing wide characters and combining marks), widths 1..={}; 7 prefixed blocks without text at widths 1..=5 under max_wrap_width none/0/1/3/9: \
        plain: no panic, every line within the width unless an error is returned (C02); with link footnotes at widths >= 2: lines within the width (C02); with allow_width_overflow: always Ok, the same text when the strict rendering is Ok, and no line wider than max(width, deepest prefix chain + 5) (C11); \
        trivial decorator: the non-space characters of the output are exactly those of the document text, in order (C03, C16)", ndoc, maxw));
    let mut r = Lcg(0x2545f4914f6cdd1d ^ seed());
    for _ in 0..ndoc {
        let mut tok = 0;
        let mut html = String::new();
        let mut pmax = 0usize;
        for _ in 0..1 + r.below(3) { let (b, p) = gen_block_p(&mut r, &mut tok, 0); html.push_str(&b); pmax = pmax.max(p); }
        let text: String = { let mut o = String::new(); let mut intag = false; for ch in html.chars() { if ch == '<' { intag = true; } else if ch == '>' { intag = false; } else if !intag && !ch.is_whitespace() { o.push(ch); } } o };
        for w in 1..=maxw {
            if w == 1 && html.contains("http://x/") { continue; }     // keeps clear of the recorded finding D13 (footnote of a wide-character target at width 1)
            let input = format!("width={} html={}", w, html);
            rep.case(&input);
            let h = html.clone();
            let strict = match panic::catch_unwind(move || config::plain().string_from_read(h.as_bytes(), w)) { Ok(x) => x.ok(), Err(_) => { rep.found(&input, "panic (plain)"); continue; } };
            if let Some(s) = &strict { if let Some(l) = s.lines().find(|l| UnicodeWidthStr::width(*l) > w) { rep.found(&input, &format!("line {:?} is {} columns wide", l, UnicodeWidthStr::width(l))); continue; } }
            let h = html.clone();
            match panic::catch_unwind(move || config::plain().allow_width_overflow().string_from_read(h.as_bytes(), w)) {
                Err(_) => { rep.found(&input, "panic (allow_width_overflow)"); continue; }
                Ok(Err(e)) => { rep.found(&input, &format!("error {:?} although width overflow is allowed", e)); continue; }
                Ok(Ok(o)) => {
                    if let Some(s) = &strict { if *s != o { rep.found(&input, &format!("allow_width_overflow changed a rendering that fits: {:?} vs {:?}", s, o)); continue; } }
                    // the overflow bound of the property: the deepest chain of block prefixes plus the 5 columns the layout reserves at least
                    let bound = w.max(pmax + 5);
                    if let Some(l) = o.lines().find(|l| UnicodeWidthStr::width(*l) > bound) { rep.found(&input, &format!("with overflow allowed, line {:?} is {} columns wide; bound max(width, P + 5) = {} with P = {}", l, UnicodeWidthStr::width(l), bound, pmax)); continue; }
                    // the overflow option stays total in combination with the other layout options
                    let h = html.clone();
                    match panic::catch_unwind(move || config::plain().allow_width_overflow().pad_block_width().string_from_read(h.as_bytes(), w)) {
                        Err(_) => { rep.found(&input, "panic (allow_width_overflow + pad_block_width)"); continue; }
                        Ok(Err(e)) => { rep.found(&input, &format!("error {:?} although width overflow is allowed (with pad_block_width)", e)); continue; }
                        Ok(Ok(p)) => { let a: Vec<&str> = p.lines().map(|l| l.trim_end()).collect(); let b: Vec<&str> = o.lines().map(|l| l.trim_end()).collect(); if a != b { rep.found(&input, &format!("pad_block_width changed more than trailing spaces under overflow: {:?} vs {:?}", p, o)); continue; } }
                    }
                }
            }
            if w >= 2 {
                let h = html.clone();
                match panic::catch_unwind(move || config::plain().link_footnotes(true).string_from_read(h.as_bytes(), w)) {
                    Err(_) => { rep.found(&input, "panic (link_footnotes)"); continue; }
                    Ok(Ok(o)) => if let Some(l) = o.lines().find(|l| UnicodeWidthStr::width(*l) > w) { rep.found(&input, &format!("with link footnotes: line {:?} is {} columns wide", l, UnicodeWidthStr::width(l))); continue; },
                    Ok(Err(_)) => {}
                }
            }
            let h = html.clone();
            if let Ok(Ok(o)) = panic::catch_unwind(move || config::with_decorator(TrivialDecorator::new()).allow_width_overflow().string_from_read(h.as_bytes(), w)) {
                let got: String = o.chars().filter(|c| !c.is_whitespace()).collect();
                if got != text { rep.found(&input, &format!("trivial decorator: output characters {:?}, document characters {:?}", got, text)); }
            }
        }
    }
    // prefixed blocks whose content needs no column (the sub-renderer may be 0 columns wide), with and without max_wrap_width
    for d in ["<blockquote><sup></sup></blockquote>", "<blockquote><span id=\"top\"></span></blockquote>", "<ul><li>\u{200b}</li></ul>", "<ol><li><a name=\"n\"></a></li></ol>",
              "<dl><dd><em></em></dd></dl>", "<h3><span id=\"h\"></span></h3>", "<blockquote><ul><li><span id=\"q\"></span>\u{200b}</li></ul></blockquote>"] {
        for w in 1..=5usize { for mww in [None, Some(0usize), Some(1), Some(3), Some(9)] { for ovf in [false, true] {
            let input = format!("width={} max_wrap_width={:?} allow_width_overflow={} html={}", w, mww, ovf, d);
            rep.case(&input);
            let h = d.to_string();
            let base = { let h = d.to_string(); panic::catch_unwind(move || { let c = config::plain(); let c = if ovf { c.allow_width_overflow() } else { c }; c.string_from_read(h.as_bytes(), w) }) };
            match panic::catch_unwind(move || { let c = config::plain(); let c = if let Some(m) = mww { c.max_wrap_width(m) } else { c }; let c = if ovf { c.allow_width_overflow() } else { c }; c.string_from_read(h.as_bytes(), w) }) {
                Err(_) => rep.found(&input, if ovf { "panic (allow_width_overflow with max_wrap_width)" } else { "panic" }),
                Ok(Err(e)) => if ovf { rep.found(&input, &format!("error {:?} although width overflow is allowed", e)); },
                Ok(Ok(o)) => if let Ok(Ok(b)) = base { if mww.map(|m| m >= w).unwrap_or(true) && b != o { rep.found(&input, &format!("max_wrap_width >= width changed the rendering: {:?} vs {:?}", o, b)); } },
            }
        }}}
    }
    rep.finish();
}

// ------------------------------------------------------------------------------------------------------------------------------
// C03 over the DOM pass (process_dom_node and the table/list constructors): a fixed catalogue of element structures, each with unique
// tokens k1, k2, … whose visibility follows from HTML alone (everything in the body except script/style/head).
fn c03_docs() -> Vec<(&'static str, &'static str)> {
    vec![
        ("<ol>k1<li>k2</li><em>k3</em><li>k4</li><ul><li>k5</li></ul></ol>", "k1k2k3k4k5"),
        ("<ul>k1<li>k2</li><em>k3</em><li>k4</li><ul><li>k5</li></ul><p>k6</p></ul>", "k1k2k3k4k5k6"),
        ("<dl>k1<dt>k2</dt><p>k3</p><dd>k4</dd></dl>", "k1k2k3k4"),
        ("<table><caption>k1</caption><tr><td>k2</td></tr></table>", "k1k2"),
        ("<table><thead><tr><th>k1</th></tr></thead><tbody><tr><td>k2</td></tr></tbody><tfoot><tr><td>k3</td></tr></tfoot></table>", "k1k2k3"),
        ("<li>k1</li><li>k2</li>", "k1k2"),
        ("<dt>k1</dt><dd>k2</dd>", "k1k2"),
        ("<select><option>k1</option><option>k2</option></select><select><optgroup label=x><option>k3</option></optgroup></select>", "k1k2k3"),
        ("<details><summary>k1</summary>k2</details>", "k1k2"),
        ("<button>k1</button><label>k2</label><textarea>k3</textarea>", "k1k2k3"),
        ("<figure><img alt=\"k1\" src=s><figcaption>k2</figcaption></figure>", "k1k2"),
        ("<fieldset><legend>k1</legend>k2</fieldset>", "k1k2"),
        ("<ruby>k1<rt>k2</rt></ruby>", "k1k2"),
        ("<address>k1</address><center>k2</center><font>k3</font>", "k1k2k3"),
        ("<svg><text>k1</text></svg>k2<math><mi>k3</mi></math>", "k1k2k3"),
        ("<h1>k1</h1><h6>k2</h6><h7>k3</h7><hgroup><h2>k4</h2></hgroup>", "k1k2k3k4"),
        ("<menu><li>k1</li></menu><dir><li>k2</li></dir>", "k1k2"),
        ("<q>k1</q><abbr title=t>k2</abbr><cite>k3</cite><kbd>k4</kbd><samp>k5</samp><var>k6</var><mark>k7</mark><small>k8</small><sub>k9</sub><u>kA</u><big>kB</big><tt>kC</tt><bdo>kD</bdo><dfn>kE</dfn><time>kF</time><data>kG</data>", "k1k2k3k4k5k6k7k8k9kAkBkCkDkEkFkG"),
        ("<p>k1<wbr>k2</p>", "k1k2"),
        ("<table><colgroup><col></colgroup><tr><td>k1</td></tr></table>", "k1"),
        ("<table><tr><td>k1</td></tr></table><table><tbody><tr><th>k2</th></tr></tbody></table>", "k1k2"),
        ("<div><table><tr><td><ol><li>k1</li></ol></td><td><dl><dt>k2</dt><dd>k3</dd></dl></td></tr></table></div>", "k1k2k3"),
        ("<article><header>k1</header><section>k2</section><aside>k3</aside><footer>k4</footer><nav>k5</nav><main>k6</main></article>", "k1k2k3k4k5k6"),
        ("<p>k1<img alt=\"k2\" src=\"s\">k3</p><img alt=\"k4\" src=\"t\">", "k1k2k3k4"),
        ("<a>k1</a><a href=\"\">k2</a><a href=\"u\"></a>k3<a name=n>k4</a>", "k1k2k3k4"),
        ("<pre>k1\nk2</pre><listing>k3</listing>", "k1k2k3"),
        ("<form>k1<input value=\"v\">k2</form>", "k1k2"),
        ("<ul><li>k1<ul><li>k2</li></ul></li></ul><ol><li>k3<ol><li>k4</li></ol></li></ol>", "k1k2k3k4"),
        ("<blockquote>k1<blockquote>k2</blockquote>k3</blockquote>", "k1k2k3"),
        ("<span>k1<div>k2</div>k3</span><em>k4<p>k5</p>k6</em>", "k1k2k3k4k5k6"),
        ("<table><tr><td>k1</td></tr><tr></tr><tr><td></td></tr><tr><td>k2</td></tr></table>", "k1k2"),
        ("<table><tbody><tr><td>k1</td></tr></tbody><tr><td>k2</td></tr></table>", "k1k2"),
        ("<table><thead><tr><th>k1</th></tr></thead><tr><td>k2</td></tr></table>", "k1k2"),
        ("<dl><dt>k1</dt><dd>k2<dl><dt>k3</dt><dd>k4</dd></dl></dd></dl>", "k1k2k3k4"),
        ("<ol><li>k1</li>\n<!-- c --><li>k2</li></ol>", "k1k2"),
        ("<ol start=3 reversed><li>k1</li><li value=9>k2</li></ol>", "k1k2"),
        ("<sup>k1</sup><sub>k2</sub><s>k3</s><del>k4</del><ins>k5</ins><strike>k6</strike><b>k7</b><i>k8</i><code>k9</code>", "k1k2k3k4k5k6k7k8k9"),
        ("<table><tr><td>k1<table><tr><td>k2</td></tr></table>k3</td></tr></table>", "k1k2k3"),
        ("<div>k1<script>no1</script><style>no2</style>k2</div>k3", "k1k2k3"),
        ("<table><tr><td>k1</td><th>k2</th></tr><tr><td colspan=2>k3</td></tr><tr><td rowspan=2>k4</td><td>k5</td></tr><tr><td>k6</td></tr></table>", "k1k2k3k4k5k6"),
        ("<ul><li>k1</li></ul>k2<ol><li>k3</li></ol>k4<dl><dd>k5</dd></dl>k6", "k1k2k3k4k5k6"),
        ("<p>k1<br>k2<hr>k3</p>", "k1k2k3"),
        ("<div><span id=a></span><p id=b></p>k1<ul><li></li><li>k2</li></ul></div>", "k1k2"),
        ("<p>x<sup>k1<em>k2</em></sup> <sup><b>k3</b>k4</sup> <sup>1<i>k5</i></sup> <sub>k6<u>k7</u></sub></p>", "xk1k2k3k41k5k6k7"),
        // elements whose content the parser hands over as one raw text node are body text like any other
        ("<p>k1</p><noscript>k2</noscript><iframe>k3</iframe><noembed>k4</noembed><noframes>k5</noframes><xmp>k6</xmp><p>k7</p>", "k1k2k3k4k5k6k7"),
        ("<table><tr><td>k1<noscript>k2</noscript></td><td><iframe>k3</iframe></td></tr></table>", "k1k2k3"),
        // zero-width characters that form a word or a tagged piece of their own are text like any other
        ("<p>k1 \u{200c} k2<b>x</b>\u{301} <em>\u{200b}</em>k3</p><p>k4 \u{301}</p>", "k1\u{200c}k2x\u{301}\u{200b}k3k4\u{301}"),
        // row groups are rendered in source order, whatever their kind
        ("<table><tfoot><tr><td>k1</td></tr></tfoot><tbody><tr><td>k2</td></tr></tbody></table>", "k1k2"),
        ("<table><tbody><tr><td>k1</td></tr></tbody><thead><tr><th>k2</th></tr></thead></table>", "k1k2"),
        ("<table><thead><tr><th>k1</th></tr></thead><tfoot><tr><td>k2</td></tr></tfoot><tbody><tr><td>k3</td></tr></tbody><tr><td>k4</td></tr><thead><tr><th>k5</th></tr></thead></table>", "k1k2k3k4k5"),
    ]
}
pub fn c03_elements() {
    use html2text::render::TrivialDecorator;
    let docs = c03_docs();
    let mut rep = Report::new("c03_elements", &format!("{} element structures (lists with stray children, definition lists, table sections and captions, form controls,         phrasing elements, foreign elements, nested tables, misnested block/inline) x widths 3, 10, 40, trivial decorator with width overflow allowed: the non-space characters of the output         are exactly the visible tokens of the document, in order", docs.len()));
    for (d, want) in &docs { for w in [3usize, 10, 40] {
        let input = format!("width={} html={}", w, d.replace('\n', "\\n"));
        rep.case(&input);
        let h = d.to_string();
        match panic::catch_unwind(move || config::with_decorator(TrivialDecorator::new()).allow_width_overflow().unicode_strikeout(false).string_from_read(h.as_bytes(), w)) {
            Err(_) => rep.found(&input, "panic"),
            Ok(Err(e)) => rep.found(&input, &format!("error {:?} although width overflow is allowed", e)),
            Ok(Ok(o)) => {
                // table borders are not document text
                let got: String = o.chars().filter(|c| !c.is_whitespace() && *c != '/' && !"\u{2500}\u{2502}\u{250c}\u{2510}\u{2514}\u{2518}\u{251c}\u{2524}\u{252c}\u{2534}\u{253c}".contains(*c)).collect();
                if got != *want { rep.found(&input, &format!("output characters {:?}, visible document characters {:?}", got, want)); }
            }
        }
    }}
    rep.finish();
}

// C14 over the DOM pass: one element with id="x" per document, over a catalogue of element kinds.
pub fn c14_elements() {
    let inline = ["span", "em", "strong", "b", "i", "code", "s", "del", "ins", "sup", "sub", "u", "small", "abbr", "q", "cite", "kbd", "mark", "font", "label", "button", "tt", "big", "var", "samp", "dfn", "time", "bdo"];
    let block = ["p", "div", "h1", "h2", "h3", "h4", "h5", "h6", "blockquote", "pre", "section", "article", "address", "center", "form", "main", "aside", "header", "footer", "nav", "figure", "details", "fieldset"];
    let mut docs: Vec<String> = vec![];
    for e in inline { docs.push(format!("<p>ta <{} id=\"x\">tb</{}> tc</p>", e, e)); }
    for e in block { docs.push(format!("<div>ta</div><{} id=\"x\">tb</{}><div>tc</div>", e, e)); }
    for d in ["<p>ta <a id=\"x\" href=\"u\">tb</a> tc</p>", "<p>ta <a name=\"x\">tb</a> tc</p>", "<p>ta <a id=\"x\">tb</a> tc</p>",
              "<p>ta</p><ul id=\"x\"><li>tb</li></ul>", "<p>ta</p><ul><li id=\"x\">tb</li></ul>", "<p>ta</p><ol id=\"x\"><li>tb</li></ol>", "<p>ta</p><ol><li id=\"x\">tb</li></ol>",
              "<p>ta</p><dl id=\"x\"><dt>tb</dt><dd>tc</dd></dl>", "<p>ta</p><dl><dt id=\"x\">tb</dt><dd>tc</dd></dl>", "<p>ta</p><dl><dt>tz</dt><dd id=\"x\">tb</dd></dl>",
              "<p>ta</p><table id=\"x\"><tr><td>tb</td></tr></table>", "<p>ta</p><table><thead id=\"x\"><tr><th>tb</th></tr></thead><tr><td>tc</td></tr></table>",
              "<p>ta</p><table><tbody id=\"x\"><tr><td>tb</td></tr></tbody></table>", "<p>ta</p><table><tr><td>tz</td></tr><tfoot id=\"x\"><tr><td>tb</td></tr></tfoot></table>",
              "<p>ta</p><table><tr id=\"x\"><td>tb</td></tr></table>", "<p>ta</p><table><tr><td id=\"x\">tb</td></tr></table>", "<p>ta</p><table><tr><th id=\"x\">tb</th></tr></table>",
              "<p>ta</p><details><summary id=\"x\">tb</summary>tc</details>", "<p>ta</p><figure><figcaption id=\"x\">tb</figcaption></figure>", "<p>ta</p><fieldset><legend id=\"x\">tb</legend></fieldset>",
              "<p>ta <img id=\"x\" src=\"s\" alt=\"tb\"> tc</p>", "<p>ta</p><select id=\"x\"><option>tb</option></select>", "<p>ta</p><select><option id=\"x\">tb</option></select>",
              "<p>ta</p><div id=\"x\"><div><div>tb</div></div></div>", "<p>ta</p><span id=\"x\"><p>tb</p></span>", "<p>ta</p><em id=\"x\"><ul><li>tb</li></ul></em>",
              "<p>ta</p><div id=\"x\"><table><tr><td>tb</td></tr></table></div>", "<p>ta</p><blockquote id=\"x\"><blockquote>tb</blockquote></blockquote>",
              // table parts whose first row or first cell shows nothing (the marker must not go into a cell that is dropped)
              "<p>ta</p><table id=\"x\"><tr></tr><tr><td>tb</td></tr></table>", "<p>ta</p><table><tbody id=\"x\"><tr></tr><tr><td>tb</td></tr></tbody></table>",
              "<p>ta</p><table><tr id=\"x\"><td></td><td>tb</td></tr></table>", "<p>ta</p><table><tr id=\"x\"><td> </td><td>tb</td></tr></table>",
              "<p>ta</p><table id=\"x\"><tr><td><br></td></tr><tr><td>tb</td></tr></table>", "<p>ta</p><table><thead id=\"x\"><tr><th></th><th>tb</th></tr></thead></table>",
              "<p>ta</p><table><tr id=\"x\"><td><span> </span></td><td>tb</td></tr></table>", "<p>ta</p><table id=\"x\"><tr><td><em></em></td></tr><tr><td>tb</td></tr></table>"] { docs.push(d.to_string()); }
    let mut rep = Report::new("c14_elements", &format!("{} documents, each with one element carrying id (or name) \"x\" whose first text is tb, over {} inline and {} block element kinds, list, definition-list and table parts,         form and interactive elements, nested blocks; widths 4, 12, 40; rich lines: exactly one FragmentStart \"x\", and the first text after it starts with tb", docs.len(), inline.len(), block.len()));
    for html in &docs { for w in [4usize, 12, 40] {
        let input = format!("width={} html={}", w, html);
        rep.case(&input);
        let h = html.clone();
        let lines = match panic::catch_unwind(move || config::rich().lines_from_read(h.as_bytes(), w)) { Ok(Ok(l)) => l, Ok(Err(_)) => continue, Err(_) => { rep.found(&input, "panic"); continue; } };
        let mut ev: Vec<(bool, String)> = vec![];
        for l in &lines { for e in l.iter() { match e {
            TaggedLineElement::FragmentStart(f) => ev.push((true, f.clone())),
            TaggedLineElement::Str(ts) => { let t: String = ts.s.chars().filter(|c| c.is_alphanumeric()).collect(); if !t.is_empty() { ev.push((false, t)); } }
        }}}
        let pos: Vec<usize> = ev.iter().enumerate().filter(|(_, e)| e.0 && e.1 == "x").map(|(i, _)| i).collect();
        if pos.len() != 1 { rep.found(&input, &format!("id \"x\" yields {} fragment markers; events {:?}", pos.len(), ev)); continue; }
        let after: String = ev[pos[0] + 1..].iter().filter(|e| !e.0).map(|e| e.1.as_str()).collect();
        if !after.starts_with("tb") && !after.starts_with("1tb") { rep.found(&input, &format!("marker is followed by {:?}, expected the element's text tb; events {:?}", &after[..after.len().min(12)], ev)); }
    }}
    rep.finish();
}

// ------------------------------------------------------------------------------------------------------------------------------
// C01 / C11 on malformed input: documents of the grammars above with characters deleted, duplicated, swapped or replaced.
pub fn bnd_mut() {
    let ndoc = if thorough() { 1200u32 } else { 250u32 };
    let mut rep = Report::new("bnd_mut", &format!("{} seeded documents (table-free grammar and tables) each mutated 1..6 times at character level (delete, duplicate a span, swap neighbours, insert one of < > / = \" ' & ; # or a letter,         truncate), widths 0, 1, 2, 5, 17, 60, with and without css, options plain / allow_width_overflow / raw_mode / no_table_borders: no panic; width 0 gives Err(TooNarrow); with overflow allowed every width >= 1 gives Ok;         a rendering that succeeds is not changed by allowing overflow", ndoc));
    let mut r = Lcg(0x5be0cd19137e2179 ^ seed());
    let ins: Vec<char> = "<>/=\"'&;#x \n-!".chars().collect();
    for i in 0..ndoc {
        let mut tok = 0;
        let mut doc = if i % 3 == 0 { gen_table(&mut r, 0, &mut tok) } else { let mut d = String::new(); for _ in 0..1 + r.below(2) { d.push_str(&gen_block(&mut r, &mut tok, 0)); } d };
        if i % 5 == 0 { doc = format!("<style>.a{{color:#ff0000;}} p > em{{display:none;}}</style>{}", doc); }
        let mut cs: Vec<char> = doc.chars().collect();
        for _ in 0..1 + r.below(6) {
            if cs.is_empty() { break; }
            let p = r.below(cs.len() as u64) as usize;
            match r.below(6) {
                0 => { cs.remove(p); }
                1 => { let e = (p + 1 + r.below(12) as usize).min(cs.len()); let span: Vec<char> = cs[p..e].to_vec(); for (k, c) in span.into_iter().enumerate() { cs.insert(e + k, c); } }
                2 => { if p + 1 < cs.len() { cs.swap(p, p + 1); } }
                3 => { cs.insert(p, ins[r.below(ins.len() as u64) as usize]); }
                4 => { cs[p] = ins[r.below(ins.len() as u64) as usize]; }
                _ => { if r.below(4) == 0 { cs.truncate(p); } }
            }
        }
        let html: String = cs.into_iter().collect();
        for w in [0usize, 1, 2, 5, 17, 60] { for opt in 0..4 {
            let input = format!("width={} option={} html={}", w, ["plain", "use_doc_css", "raw_mode", "no_table_borders"][opt], html.replace('\n', "\\n"));
            rep.case(&input);
            let mk = move |ovf: bool| { let c = config::plain(); let c = match opt { 1 => c.use_doc_css(), 2 => c.raw_mode(true), 3 => c.no_table_borders(), _ => c }; if ovf { c.allow_width_overflow() } else { c } };
            let (h1, h2) = (html.clone(), html.clone());
            let strict = match panic::catch_unwind(move || mk(false).string_from_read(h1.as_bytes(), w)) { Ok(x) => Some(x), Err(_) => { rep.found(&input, "panic"); None } };   // the overflow rendering is still tried
            let loose = match panic::catch_unwind(move || mk(true).string_from_read(h2.as_bytes(), w)) { Ok(x) => x, Err(_) => { rep.found(&input, "panic (allow_width_overflow)"); continue; } };
            if w == 0 { if strict.as_ref().map_or(false, |x| x.is_ok()) || loose.is_ok() { rep.found(&input, "width 0 did not give an error"); } continue; }
            match (&strict, &loose) {
                (_, Err(e)) => rep.found(&input, &format!("error {:?} although width overflow is allowed", e)),
                (Some(Ok(a)), Ok(b)) => if a != b { rep.found(&input, &format!("allow_width_overflow changed a rendering that succeeds: {:?} vs {:?}", a, b)); },
                _ => {}
            }
        }}
    }
    rep.finish();
}

// C08 over a catalogue of link placements (process_dom_node: which <a> becomes a Link node; where references and the list end up)
pub fn c08_elements() {
    let docs: Vec<(&str, Vec<&str>)> = vec![
        ("<pre>p <a href=\"u1\">L1</a> q</pre>", vec!["u1"]),
        ("<h1><a href=\"u1\">L1</a></h1><h3>x <a href=\"u2\">L2</a></h3>", vec!["u1", "u2"]),
        ("<p><a href=\"u1\"><img src=\"s\" alt=\"L1\"></a> t</p>", vec!["u1"]),
        ("<a href=\"u1\"><div>L1</div></a><a href=\"u2\"><p>L2</p><p>more</p></a>", vec!["u1", "u2"]),
        ("<p><a>L0</a> <a href=\"u1\">L1</a> <a name=\"n\">L9</a></p>", vec!["u1"]),
        ("<ul><li><a href=\"u1\">L1</a><ul><li><a href=\"u2\">L2</a></li></ul></li></ul>", vec!["u1", "u2"]),
        ("<table><tr><td colspan=2><a href=\"u1\">L1</a></td></tr><tr><td><a href=\"u2\">L2</a></td><td><a href=\"u3\">L3</a></td></tr></table>", vec!["u1", "u2", "u3"]),
        ("<dl><dt><a href=\"u1\">L1</a></dt><dd><a href=\"u2\">L2</a></dd></dl>", vec!["u1", "u2"]),
        ("<p><a href=\"u1\">L1</a><a href=\"u2\">L2</a></p>", vec!["u1", "u2"]),
        ("<p><em><a href=\"u1\">L1</a></em> <a href=\"u2\"><strong>L2</strong></a> <s><a href=\"u3\">L3</a></s></p>", vec!["u1", "u2", "u3"]),
        ("<blockquote><blockquote><a href=\"u1\">L1</a></blockquote></blockquote>", vec!["u1"]),
        ("<p><a href=\"u1\"></a><a href=\"u2\"> </a><a href=\"u3\"><span></span></a><a href=\"u4\">L1</a></p>", vec!["u4"]),
        ("<p><a href=\"u1\">L1</a></p><table><tr><td><table><tr><td><a href=\"u2\">L2</a></td></tr></table></td></tr></table><p><a href=\"u3\">L3</a></p>", vec!["u1", "u2", "u3"]),
        ("<p>x<sup><a href=\"u1\">L1</a></sup> <code><a href=\"u2\">L2</a></code></p>", vec!["u1", "u2"]),
        ("<details><summary><a href=\"u1\">L1</a></summary><a href=\"u2\">L2</a></details>", vec!["u1", "u2"]),
        ("<ol><li><a href=\"u1\">L1</a></li><li>x</li><li><a href=\"u2\">L2</a></li></ol>", vec!["u1", "u2"]),
        ("<table><thead><tr><th><a href=\"u1\">L1</a></th></tr></thead><tfoot><tr><td><a href=\"u2\">L2</a></td></tr></tfoot></table>", vec!["u1", "u2"]),
        ("<div><a href=\"u1\">L1</a><br><a href=\"u2\">L2</a><hr><a href=\"u3\">L3</a></div>", vec!["u1", "u2", "u3"]),
        // more than nine links: the labels of the list are the references, unpadded
        ("<p><a href=\"u1\">L1</a> <a href=\"u2\">L2</a> <a href=\"u3\">L3</a> <a href=\"u4\">L4</a> <a href=\"u5\">L5</a> <a href=\"u6\">L6</a></p><ul><li><a href=\"u7\">L7</a> <a href=\"u8\">L8</a> <a href=\"u9\">L9</a></li><li><a href=\"u10\">L10</a> <a href=\"u11\">L11</a> <a href=\"u12\">L12</a></li></ul>",
         vec!["u1", "u2", "u3", "u4", "u5", "u6", "u7", "u8", "u9", "u10", "u11", "u12"]),
    ];
    let mut rep = Report::new("c08_elements", &format!("{} documents with links in pre, headings, around images and blocks, without href, in nested lists, spanning cells, definition lists, adjacent, inside inline markup,         nested quotes, content-less, nested tables, sup/code, details, ordered lists, table head/foot; widths 30, 60; plain decorator with footnotes: references are [1]..[n] in document order, each right after its link text,         and the list at the end is [k]: target_k; without footnotes neither appears", docs.len()));
    for (html, hrefs) in &docs { for width in [30usize, 60] { for on in [true, false] {
        let input = format!("width={} footnotes={} html={}", width, on, html);
        rep.case(&input);
        let h = html.to_string();
        let out = match panic::catch_unwind(move || config::plain().unicode_strikeout(false).link_footnotes(on).string_from_read(h.as_bytes(), width)) { Ok(Ok(s)) => s, Ok(Err(_)) => continue, Err(_) => { rep.found(&input, "panic"); continue; } };
        let ms = markers(&out);
        let heads: Vec<(usize, String)> = out.lines().filter_map(|l| { let l = l.trim_end(); if l.starts_with('[') { if let Some(p) = l.find("]:") { if let Ok(k) = l[1..p].parse::<usize>() { return Some((k, l[p + 2..].trim().to_string())); } } } None }).collect();
        if !on { if !ms.is_empty() || !heads.is_empty() { rep.found(&input, &format!("footnotes disabled but output has references/list: {:?}", out)); } continue; }
        let n = hrefs.len();
        let want: Vec<usize> = (1..=n).collect();
        if ms != want { rep.found(&input, &format!("reference markers {:?}, expected {:?}; output {:?}", ms, want, out)); continue; }
        let flat: String = out.chars().filter(|c| !c.is_whitespace()).collect();
        for k in 1..=n {
            let (pl, pm) = (flat.find(&format!("L{}", k)), flat.find(&format!("[{}]", k)));
            let next = if k < n { flat.find(&format!("L{}", k + 1)) } else { flat.find("[1]:") };
            let ok = match (pl, pm) { (Some(a), Some(b)) => a < b && next.map(|c| b < c || html.contains("<table")).unwrap_or(true), _ => false };
            if !ok { rep.found(&input, &format!("link text L{} is not followed by its own number before the next link; output {:?}", k, out)); break; }
        }
        let want_heads: Vec<(usize, String)> = (1..=n).map(|k| (k, hrefs[k - 1].to_string())).collect();
        if heads != want_heads { rep.found(&input, &format!("footnote list {:?}, expected {:?}; output {:?}", heads, want_heads, out)); continue; }
        for k in 1..=n { let want_line = format!("[{}]: {}", k, hrefs[k - 1]); if !out.lines().any(|l| l.trim_end() == want_line) { rep.found(&input, &format!("no footnote line {:?}; output {:?}", want_line, out)); break; } }
    }}}
    rep.finish();
}

// C02 / C11 over the element catalogues: the width bound and the overflow option on every element structure of c03_elements.
pub fn c02_elements() {
    use unicode_width::UnicodeWidthStr;
    let docs = c03_docs();
    let mut rep = Report::new("c02_elements", &format!("the {} element structures of c03_elements, widths 1..=12, plain decorator: no panic; every line within the width unless an error is returned;         with width overflow allowed always Ok and equal to the strict rendering when that succeeds", docs.len()));
    for (d, _) in &docs { for w in 1..=12usize {
        let input = format!("width={} html={}", w, d.replace('\n', "\\n"));
        rep.case(&input);
        let (h1, h2) = (d.to_string(), d.to_string());
        let strict = match panic::catch_unwind(move || config::plain().string_from_read(h1.as_bytes(), w)) { Ok(x) => x.ok(), Err(_) => { rep.found(&input, "panic"); None } };
        if let Some(s) = &strict { if let Some(l) = s.lines().find(|l| UnicodeWidthStr::width(*l) > w) { rep.found(&input, &format!("line {:?} is {} columns wide", l, UnicodeWidthStr::width(l))); continue; } }
        match panic::catch_unwind(move || config::plain().allow_width_overflow().string_from_read(h2.as_bytes(), w)) {
            Err(_) => rep.found(&input, "panic (allow_width_overflow)"),
            Ok(Err(e)) => rep.found(&input, &format!("error {:?} although width overflow is allowed", e)),
            Ok(Ok(o)) => if let Some(s) = &strict { if *s != o { rep.found(&input, &format!("allow_width_overflow changed a rendering that fits: {:?} vs {:?}", s, o)); } },
        }
    }}
    rep.finish();
}

// ------------------------------------------------------------------------------------------------------------------------------
// C04: paragraph wrapping == reference greedy wrapper (add_inline_text / add_text / flush_word / flush_word_hard_wrap composed over text
// nodes and inline elements by do_render_node).
fn greedy(words: &[String], w: usize) -> Vec<String> {
    use unicode_width::{UnicodeWidthChar, UnicodeWidthStr};
    let mut lines: Vec<String> = vec![];
    let mut cur = String::new();
    for word in words {
        let ww = UnicodeWidthStr::width(word.as_str());
        let cw = UnicodeWidthStr::width(cur.as_str());
        if ww <= w {
            if cur.is_empty() { cur = word.clone(); }
            else if cw + 1 + ww <= w { cur.push(' '); cur.push_str(word); }
            else { lines.push(std::mem::take(&mut cur)); cur = word.clone(); }
        } else {
            if !cur.is_empty() { lines.push(std::mem::take(&mut cur)); }
            for ch in word.chars() {
                let c = UnicodeWidthChar::width(ch).unwrap_or(0);
                if UnicodeWidthStr::width(cur.as_str()) + c > w && !cur.is_empty() { lines.push(std::mem::take(&mut cur)); }
                cur.push(ch);
            }
        }
    }
    if !cur.is_empty() { lines.push(cur); }
    lines
}
pub fn bnd_c04() {
    let (npar, maxw) = if thorough() { (1200u32, 40usize) } else { (250u32, 30usize) };
    let mut rep = Report::new("bnd_c04", &format!("{} seeded paragraphs of 1..12 words (ASCII words of 1..9 letters, wide-character words, words with a combining mark, words with as many wide characters as combining marks), split arbitrarily across text nodes and \
        em/strong/code/span elements, white-space runs of spaces/newlines/tabs (sometimes alone inside an inline element); widths 1..={}; undecorated plain rendering: the lines equal those of a reference greedy wrapper (also, rich decorator: 4 paragraphs in which a zero-width character is the whole content of an inline element, widths 2..=12), \
        an error is returned exactly when a wide character meets width 1; also under max_wrap_width m < width (effective width m), and inside a quote and a list item at widths 5..=16 (effective width w - 2)", npar, maxw));
    let mut r = Lcg(0x6a09e667f3bcc908 ^ seed());
    for _ in 0..npar {
        let nw = 1 + r.below(12) as usize;
        let mut words: Vec<String> = vec![];
        for _ in 0..nw {
            let len = 1 + r.below(9) as usize;
            let kind = r.below(8);
            let mut s = String::new();
            for k in 0..len {
                if kind == 2 && len >= 4 { if k < len / 2 { s.push('\u{5b57}'); } else { s.push((b'a' + r.below(26) as u8) as char); s.push('\u{301}'); } continue; }
                if kind == 0 { s.push(['\u{4e2d}', '\u{6587}', '\u{5b57}'][r.below(3) as usize]); }
                else { s.push((b'a' + r.below(26) as u8) as char); if kind == 1 && k == 0 { s.push('\u{301}'); } }
            }
            words.push(s);
        }
        // html: words joined by white-space runs, with inline elements opened/closed between or inside words
        let mut html = String::from("<p>");
        let mut open: Vec<&str> = vec![];
        for (i, wd) in words.iter().enumerate() {
            if i > 0 {
                let ws = [" ", "\n", "  ", " \t ", "\n  "][r.below(5) as usize];
                // sometimes the separating white space is the only content of an inline element
                if r.below(6) == 0 { let el = ["em", "strong", "code", "span"][r.below(4) as usize]; html.push_str(&format!("<{}>{}</{}>", el, ws, el)); } else { html.push_str(ws); }
            }
            let cs: Vec<char> = wd.chars().collect();
            let cut = if cs.len() > 1 && r.below(4) == 0 { 1 + r.below(cs.len() as u64 - 1) as usize } else { cs.len() };
            // never cut between a letter and its combining mark
            let cut = if cut < cs.len() && cs[cut] == '\u{301}' { cs.len() } else { cut };
            html.push_str(&cs[..cut].iter().collect::<String>());
            match r.below(5) {
                0 if open.len() < 2 => { let el = ["em", "strong", "code", "span"][r.below(4) as usize]; html.push_str(&format!("<{}>", el)); open.push(el); }
                1 if !open.is_empty() => { let el = open.pop().unwrap(); html.push_str(&format!("</{}>", el)); }
                _ => {}
            }
            html.push_str(&cs[cut..].iter().collect::<String>());
        }
        while let Some(el) = open.pop() { html.push_str(&format!("</{}>", el)); }
        html.push_str("</p>");
        let has_wide = words.iter().any(|w| w.chars().any(|c| unicode_width::UnicodeWidthChar::width(c) == Some(2)));
        for w in 1..=maxw { for mww in [None, Some(1 + (w * 2) / 3)] {
            let eff = mww.map(|m: usize| m.min(w)).unwrap_or(w);
            let input = format!("width={} max_wrap_width={:?} html={}", w, mww, html);
            rep.case(&input);
            let h = html.clone();
            let r2 = panic::catch_unwind(move || { let c = config::plain_no_decorate(); let c = if let Some(m) = mww { c.max_wrap_width(m) } else { c }; c.string_from_read(h.as_bytes(), w) });
            match r2 {
                Err(_) => rep.found(&input, "panic"),
                Ok(Err(e)) => if !(has_wide && eff == 1) { rep.found(&input, &format!("error {:?} although every character fits", e)); },
                Ok(Ok(out)) => {
                    if has_wide && eff == 1 { rep.found(&input, &format!("no error although a wide character cannot fit: {:?}", out)); continue; }
                    let got: Vec<String> = out.lines().map(|l| l.to_string()).collect();
                    let want = greedy(&words, eff);
                    if got != want { rep.found(&input, &format!("lines {:?}, greedy reference {:?}", got, want)); }
                }
            }
        }}
        // the same paragraph inside a prefixed block: greedy filling of width - prefix (from 3 columns of text on: below that min_wrap_width refuses the block)
        let inner = &html[3..html.len() - 4];
        for (open, close, first, cont) in [("<blockquote>", "</blockquote>", "> ", "> "), ("<ul><li>", "</li></ul>", "* ", "  ")] {
            let h2 = format!("{}{}{}", open, inner, close);
            for w in 5..=maxw.min(16) {
                let input = format!("width={} html={}", w, h2);
                rep.case(&input);
                let h = h2.clone();
                match panic::catch_unwind(move || config::plain_no_decorate().string_from_read(h.as_bytes(), w)) {
                    Err(_) => rep.found(&input, "panic"),
                    Ok(Err(e)) => rep.found(&input, &format!("error {:?} although every character fits", e)),
                    Ok(Ok(out)) => {
                        let want: Vec<String> = greedy(&words, w - 2).into_iter().enumerate().map(|(i, l)| format!("{}{}", if i == 0 { first } else { cont }, l)).collect();
                        let got: Vec<String> = out.lines().map(|l| l.to_string()).collect();
                        if got != want { rep.found(&input, &format!("lines {:?}, greedy reference {:?}", got, want)); }
                    }
                }
            }
        }
    }
    // zero-width characters (a combining mark, a zero-width space) that are the whole content of an inline element: with the rich decorator
    // they are pieces with a tag of their own; the lines (pieces concatenated) are still the greedy filling of the words
    for (words, html) in [(vec!["cafe\u{301}", "xy", "z"], "<p>cafe<em>\u{301}</em> xy z</p>"), (vec!["a\u{200b}b", "cd"], "<p>a<span class=q>\u{200b}</span>b cd</p>"),
                          (vec!["ab", "e\u{301}\u{301}", "fg"], "<p>ab e<strong>\u{301}</strong><em>\u{301}</em> fg</p>"), (vec!["\u{5b57}\u{301}", "k"], "<p>\u{5b57}<em>\u{301}</em> k</p>")] {
        let words: Vec<String> = words.iter().map(|s| s.to_string()).collect();
        for w in 2..=12usize {
            let input = format!("width={} rich html={}", w, html);
            rep.case(&input);
            match panic::catch_unwind(move || config::rich().lines_from_read(html.as_bytes(), w)) {
                Err(_) => rep.found(&input, "panic"),
                Ok(Err(e)) => rep.found(&input, &format!("error {:?} although every character fits", e)),
                Ok(Ok(lines)) => {
                    let got: Vec<String> = lines.iter().map(|l| l.tagged_strings().map(|ts| ts.s.as_str()).collect::<String>()).collect();
                    let want = greedy(&words, w);
                    if got != want { rep.found(&input, &format!("lines {:?}, greedy reference {:?}", got, want)); }
                }
            }
        }
    }
    rep.finish();
}

// ------------------------------------------------------------------------------------------------------------------------------
// C12: preformatted blocks (process_dom_node pre arm, do_render_node, new_line_hard, add_text pre branch composed).
fn expand_tabs(s: &str) -> String {
    use unicode_width::UnicodeWidthChar;
    let mut out = String::new(); let mut col = 0usize;
    for ch in s.chars() {
        if ch == '\t' { let n = 8 - col % 8; for _ in 0..n { out.push(' '); } col += n; }
        else { out.push(ch); col += UnicodeWidthChar::width(ch).unwrap_or(0); }
    }
    out
}
pub fn bnd_c12() {
    use unicode_width::UnicodeWidthStr;
    let nblk = if thorough() { 1500u32 } else { 300u32 };
    let mut rep = Report::new("bnd_c12", &format!("{} seeded <pre> blocks of 1..6 source lines (words, runs of 1..5 spaces, tabs, leading and trailing spaces, empty and spaces-only interior lines, wide characters; line breaks \
        written as newline or <br>; sometimes the first word after leading white space inside a <span>; optionally inside a list item or quote), widths 1..=40: when every expanded source line fits the available width the block is reproduced line for line \
        (tabs to 8-column stops, interior blank lines kept, trailing spaces removed); otherwise every output line is within the width and the non-space characters are preserved in order; rich output: no continuation tag when everything fits; 27 single-line blocks whose first word is cut at the right edge (widths 6..=14, plain / in a list item / in a quote): first output line tagged preformatted, second continuation", nblk));
    let mut r = Lcg(0xbb67ae8584caa73b ^ seed());
    for _ in 0..nblk {
        let nl = 1 + r.below(6) as usize;
        let mut src: Vec<String> = vec![];
        for li in 0..nl {
            let mut s = String::new();
            if li > 0 && li + 1 < nl && r.below(5) == 0 { if r.below(2) == 0 { for _ in 0..1 + r.below(4) { s.push(' '); } } src.push(s); continue; }     // interior blank line: empty, or made of spaces only
            for k in 0..1 + r.below(4) {
                if k > 0 || r.below(4) == 0 { match r.below(6) { 0 => s.push('\t'), 1 => { for _ in 0..1 + r.below(3) { s.push(' '); } s.push('\t'); } _ => { for _ in 0..1 + r.below(5) { s.push(' '); } } } }
                if r.below(7) == 0 { for _ in 0..1 + r.below(4) { s.push(['\u{4e2d}', '\u{6587}', '\u{6f22}', '\u{5b57}'][r.below(4) as usize]); } } else { for _ in 0..1 + r.below(6) { s.push((b'a' + r.below(26) as u8) as char); } }
            }
            if r.below(5) == 0 { s.push_str("  "); }
            src.push(s);
        }
        // the first and the last line carry text (leading newline after <pre> and trailing empty lines are special in HTML)
        if src[0].trim().is_empty() { src[0] = "h".to_string(); }
        let lastn = src.len() - 1; if src[lastn].trim().is_empty() { src[lastn] = "t".to_string(); }
        // every line break is written as a newline or as <br>, independently
        let br_mode = r.below(3);
        let mut body = String::new();
        // sometimes the first word after leading white space sits in a <span> (the white space is then a text node of its own)
        let span_mode = r.below(3) == 0;
        for (k, l) in src.iter().enumerate() {
            if k > 0 { body.push_str(if br_mode == 0 || (br_mode == 1 && r.below(2) == 0) { "\n" } else { "<br>" }); }
            let lead = l.len() - l.trim_start().len();
            if span_mode && lead > 0 && lead < l.len() {
                let rest = &l[lead..];
                let wend = rest.find(|c: char| c == ' ' || c == '\t').unwrap_or(rest.len());
                body.push_str(&l[..lead]); body.push_str("<span>"); body.push_str(&rest[..wend]); body.push_str("</span>"); body.push_str(&rest[wend..]);
            } else { body.push_str(l); }
        }
        let (pre, post, indent) = match r.below(4) { 0 => ("<ul><li>", "</li></ul>", 2usize), 1 => ("<blockquote>", "</blockquote>", 2), _ => ("", "", 0) };
        let html = format!("{}<pre>{}</pre>{}", pre, body, post);
        let expanded: Vec<String> = src.iter().map(|l| expand_tabs(l)).collect();
        let maxlen = expanded.iter().map(|l| UnicodeWidthStr::width(l.as_str())).max().unwrap_or(0);
        let srcchars: String = src.iter().flat_map(|l| l.chars()).filter(|c| !c.is_whitespace()).collect();
        for w in 1..=40usize {
            let input = format!("width={} html={}", w, html.replace('\n', "\\n").replace('\t', "\\t"));
            rep.case(&input);
            let h = html.clone();
            let out = match panic::catch_unwind(move || config::plain().string_from_read(h.as_bytes(), w)) { Ok(Ok(s)) => s, Ok(Err(_)) => continue, Err(_) => { rep.found(&input, "panic"); continue; } };
            if let Some(l) = out.lines().find(|l| UnicodeWidthStr::width(*l) > w) { rep.found(&input, &format!("line {:?} wider than {}", l, w)); continue; }
            let prefixes = ["* ", "> ", "  "];
            let strip = |l: &str| -> String { if indent == 0 { l.to_string() } else { let mut t = l; for p in prefixes { if let Some(x) = l.strip_prefix(p) { t = x; break; } } if l.trim() == ">" || l.trim() == "*" { String::new() } else { t.to_string() } } };
            let body_lines: Vec<String> = out.lines().map(|l| strip(l)).collect();
            let got_chars: String = body_lines.iter().flat_map(|l| l.chars()).filter(|c| !c.is_whitespace()).collect();
            if got_chars != srcchars { rep.found(&input, &format!("non-space characters {:?}, source {:?}; output {:?}", got_chars, srcchars, out)); continue; }
            if w >= indent + maxlen {
                let want: Vec<String> = expanded.iter().map(|l| l.trim_end().to_string()).collect();
                let got: Vec<String> = body_lines.iter().map(|l| l.trim_end().to_string()).collect();
                if got != want { rep.found(&input, &format!("lines {:?}, expected the source lines {:?}", got, want)); }
            }
            // rich output: the first piece of every source line is tagged preformatted, the overflow pieces preformatted-continuation
            {
                use html2text::render::RichAnnotation;
                let h = html.clone();
                if let Ok(Ok(lines)) = panic::catch_unwind(move || config::rich().lines_from_read(h.as_bytes(), w)) {
                    // per output line: the set of continuation flags on its text pieces (pieces inside the block only: they carry a Preformat annotation)
                    let flags: Vec<Vec<bool>> = lines.iter().map(|l| { let mut f: Vec<bool> = l.tagged_strings().filter(|ts| !ts.s.trim().is_empty()).flat_map(|ts| ts.tag.iter().filter_map(|a| if let RichAnnotation::Preformat(c) = a { Some(*c) } else { None }).collect::<Vec<bool>>()).collect(); f.dedup(); f }).filter(|f| !f.is_empty()).collect();
                    if w >= indent + maxlen {
                        if flags.iter().any(|f| f.contains(&true)) { rep.found(&input, &format!("every source line fits, but a piece is tagged preformatted-continuation: flags per line {:?}", flags)); }
                    }
                }
            }
        }
    }
    // one source line whose first word is cut at the right edge and whose other words (plain, or in inline elements that start with or
    // without white space) fit on the second line: the first output line is tagged
    // preformatted, the second preformatted-continuation (breaks at white space and words moved to the next line as a whole are kept out:
    // recorded finding D24)
    {
        use html2text::render::RichAnnotation;
        for w in 6..=14usize { for (open, close, ind) in [("<pre>", "</pre>", 0usize), ("<ul><li><pre>", "</pre></li></ul>", 2), ("<blockquote><pre>", "</pre></blockquote>", 2)] {
          for tail in [" c d", "<em> c</em> d", "<em>c</em> d", " <b>c</b><i> d</i>", "<span> </span>c<em></em> d"] {
            let doc = format!("{}{}{}{}", open, "a".repeat(w - ind + 2), tail, close);
            let input = format!("width={} html={}", w, doc);
            rep.case(&input);
            let h = doc.clone();
            let lines = match panic::catch_unwind(move || config::rich().lines_from_read(h.as_bytes(), w)) { Ok(Ok(l)) => l, Ok(Err(_)) => continue, Err(_) => { rep.found(&input, "panic"); continue; } };
            let flags: Vec<Vec<bool>> = lines.iter().map(|l| { let mut f: Vec<bool> = l.tagged_strings().filter(|ts| !ts.s.trim().is_empty()).flat_map(|ts| ts.tag.iter().filter_map(|a| if let RichAnnotation::Preformat(c) = a { Some(*c) } else { None }).collect::<Vec<bool>>()).collect(); f.dedup(); f }).filter(|f| !f.is_empty()).collect();
            if flags.len() < 2 || flags[0] != vec![false] || flags[1..].iter().any(|f| *f != vec![true]) { rep.found(&input, &format!("expected the first line tagged preformatted and the later ones continuation, flags per line {:?}", flags)); }
          }
        }}
    }
    rep.finish();
}

// Finding D24 (C12, C09): the smallest documents that show it.
pub fn c12_contflag() {
    use html2text::render::RichAnnotation;
    let mut rep = Report::new("c12_contflag", "2 single-line <pre> blocks at one width each: every piece on the second output line is tagged preformatted-continuation");
    for (doc, w) in [("<pre>aaaabbb c d</pre>", 7usize), ("<pre>ab cdefghijk l</pre>", 6)] {
        let input = format!("width={} html={}", w, doc);
        rep.case(&input);
        if let Ok(lines) = config::rich().lines_from_read(doc.as_bytes(), w) {
            let flags: Vec<Vec<bool>> = lines.iter().map(|l| { let mut f: Vec<bool> = l.tagged_strings().filter(|ts| !ts.s.trim().is_empty()).flat_map(|ts| ts.tag.iter().filter_map(|a| if let RichAnnotation::Preformat(c) = a { Some(*c) } else { None }).collect::<Vec<bool>>()).collect(); f.dedup(); f }).filter(|f| !f.is_empty()).collect();
            if flags.len() < 2 || flags[0] != vec![false] || flags[1..].iter().any(|f| *f != vec![true]) { rep.found(&input, &format!("continuation flags per output line {:?}, expected [false] then [true] on every later line", flags)); }
        }
    }
    rep.finish();
}

// ------------------------------------------------------------------------------------------------------------------------------
// C15: each layout option has exactly its documented effect (size estimation, option plumbing through sub-renderers and tables).
fn rules_of(s: &str) -> Vec<String> { s.lines().filter(|l| !l.is_empty() && l.chars().all(|c| is_rule(c) || c == '/')).map(|l| l.to_string()).collect() }
pub fn bnd_c15() {
    let ndoc = if thorough() { 600u32 } else { 150u32 };
    let mut rep = Report::new("bnd_c15", &format!("{} seeded documents (the table-free grammar of bnd_doc plus tables with links in cells), widths 8..=40 step 4: \
        max_wrap_width(m >= width) changes nothing; pad_block_width only appends trailing spaces; unicode_strikeout(false) == output with U+0336 deleted; no_table_borders and raw_mode leave no box-drawing character; \
        link_footnotes(false) removes the references and the list and leaves the table rules where they were; no_link_wrapping changes only the line breaks of the footnote list; min_wrap_width changes nothing without nested blocks", ndoc));
    let mut r = Lcg(0x3c6ef372fe94f82b ^ seed());
    for i in 0..ndoc {
        let mut tok = 0;
        let mut html = String::new();
        if i % 2 == 0 { for _ in 0..1 + r.below(2) { html.push_str(&gen_block(&mut r, &mut tok, 0)); } html.push_str("<p>a <s>struck text</s> b <s>two  spaces\n   and a newline</s> c <s>nl\nsep\ttab</s></p><pre>p <s>l1\nl2\tl3</s></pre><s><p>one</p> <p>two</p></s><table><tr><td><s><p>c1</p> </s></td><td>c2</td></tr></table><br><p>Hello there</p><table><tr><td><br>x1</td><td>y2<br><br>z3</td></tr></table><div><br></div><p>end</p>"); }
        else {
            html.push_str("<table>");
            for _ in 0..1 + r.below(3) { html.push_str("<tr>"); for _ in 0..2 { tok += 1; if r.below(2) == 0 { html.push_str(&format!("<td>c{} <a href=\"http://h/{}\">link{}</a> t</td>", tok, tok, tok)); } else if r.below(3) == 0 { html.push_str(&format!("<td>cell{} with a much longer run of words than any width used here so that estimates exceed the width</td>", tok)); } else { html.push_str(&format!("<td>cell{} words here</td>", tok)); } } html.push_str("</tr>"); }
            html.push_str("</table><p>after <a href=\"u\">l</a> <a href=\"v\nw\tx\">m</a></p>");
        }
        // blank-only content in front of the first block (of the document, of a cell)
        if i % 5 == 0 { html = format!("<br>{}", html); }
        if i % 5 == 1 { html = format!("<table><tr><td><br><p>pa</p></td><td>bb</td></tr></table><div><br><br></div>{}", html); }
        for w in (8..=40usize).step_by(4) {
            let input = format!("width={} html={}", w, html);
            rep.case(&input);
            let run = |f: &dyn Fn(config::Config<html2text::render::PlainDecorator>) -> config::Config<html2text::render::PlainDecorator>| -> Option<String> {
                let h = html.clone();
                let c = f(config::plain());
                panic::catch_unwind(panic::AssertUnwindSafe(move || c.string_from_read(h.as_bytes(), w).ok())).unwrap_or(None)
            };
            let base = match run(&|c| c) { Some(s) => s, None => continue };
            if let Some(o) = run(&|c| c.max_wrap_width(w + 5)) { if o != base { rep.found(&input, &format!("max_wrap_width({}) >= width changed the output: {:?} vs {:?}", w + 5, o, base)); } }
            if let Some(o) = run(&|c| c.pad_block_width()) {
                let a: Vec<&str> = o.lines().map(|l| l.trim_end()).collect(); let b: Vec<&str> = base.lines().map(|l| l.trim_end()).collect();
                if a != b { rep.found(&input, &format!("pad_block_width changed more than trailing spaces: {:?} vs {:?}", o, base)); }
            }
            if let Some(o) = run(&|c| c.unicode_strikeout(false)) { let d: String = base.chars().filter(|c| *c != '\u{336}').collect(); if o != d { rep.found(&input, &format!("unicode_strikeout(false) is not the output without U+0336: {:?} vs {:?}", o, d)); } }
            if let Some(o) = run(&|c| c.no_table_borders()) { if o.chars().any(|c| is_rule(c) || c == '\u{2502}') { rep.found(&input, &format!("no_table_borders left box-drawing characters: {:?}", o)); } }
            if let Some(o) = run(&|c| c.raw_mode(true)) { if o.chars().any(|c| is_rule(c) || c == '\u{2502}') { rep.found(&input, &format!("raw_mode left box-drawing characters: {:?}", o)); } }
            // options that do not apply leave the output unchanged: no_link_wrapping without footnotes; min_wrap_width on a document without prefixed blocks and tables
            if let (Some(a), Some(b)) = (run(&|c| c.link_footnotes(false)), run(&|c| c.link_footnotes(false).no_link_wrapping())) { if a != b { rep.found(&input, &format!("no_link_wrapping changed a rendering without footnotes: {:?} vs {:?}", b, a)); } }
            if !html.contains("<a ") { if let Some(o) = run(&|c| c.no_link_wrapping()) { if o != base { rep.found(&input, &format!("no_link_wrapping changed a document without links: {:?} vs {:?}", o, base)); } } }
            // with footnotes, no_link_wrapping only changes how the footnote lines are broken: the text before the list and the targets are the same
            if let (Some(a), Some(b)) = (run(&|c| c.link_footnotes(true)), run(&|c| c.link_footnotes(true).no_link_wrapping())) {
                let body = |s: &str| -> String { s.lines().take_while(|l| !l.starts_with("[1]:")).collect::<Vec<_>>().join("\n") };
                let notes = |s: &str| -> String { s.lines().skip_while(|l| !l.starts_with("[1]:")).flat_map(|l| l.chars()).filter(|c| !c.is_whitespace()).collect() };
                if body(&a) != body(&b) || notes(&a) != notes(&b) { rep.found(&input, &format!("no_link_wrapping changed more than the line breaks of the footnote list: {:?} vs {:?}", b, a)); }
                // when no footnote had to be wrapped (every line of the list is one whole entry) the option does not apply: same bytes
                let list: Vec<&str> = a.lines().skip_while(|l| !l.starts_with("[1]:")).collect();
                if !list.is_empty() && list.iter().enumerate().all(|(k, l)| l.starts_with(&format!("[{}]: ", k + 1))) && a != b { rep.found(&input, &format!("no_link_wrapping changed a footnote list in which nothing is wrapped: {:?} vs {:?}", b, a)); }
            }
            if !html.contains("<ul") && !html.contains("<ol") && !html.contains("<blockquote") && !html.contains("<dl") && !html.contains("<table") && !html.contains("<h") {
                for k in [1usize, 2, 6] { if let Some(o) = run(&|c| c.min_wrap_width(k)) { if o != base { rep.found(&input, &format!("min_wrap_width({}) changed a document without nested blocks: {:?} vs {:?}", k, o, base)); } } }
            }
            let on = run(&|c| c.link_footnotes(true)); let off = run(&|c| c.link_footnotes(false));
            if let (Some(on), Some(off)) = (on, off) {
                if !markers(&off).is_empty() || off.lines().any(|l| l.starts_with('[') && l.contains("]: ")) { rep.found(&input, &format!("link_footnotes(false) left references or a list: {:?}", off)); }
                if rules_of(&on) != rules_of(&off) { rep.found(&input, &format!("link_footnotes(false) moved the table rules: {:?} vs {:?}", rules_of(&off), rules_of(&on))); }
            }
        }
    }
    rep.finish();
}
