//! Replay searcher: bounded enumeration of concrete inputs through the PUBLIC API of the real crate
//! (path dependency on /repo), one mode per mechanism.  It never decides anything: the verifier does.
//! Output: one line `FOUND <json>` for the first failing input, or `NONE <cases>`.
mod bounded;
use html2text::config;
use html2text::render::RichAnnotation;
use std::panic;

fn esc(s: &str) -> String { s.replace('\\', "\\\\").replace('"', "\\\"").replace('\n', "\\n") }

fn found(mode: &str, input: &str, detail: &str) -> ! {
    println!("FOUND {{\"mode\":\"{}\",\"input\":\"{}\",\"detail\":\"{}\"}}", mode, esc(input), esc(detail));
    std::process::exit(0)
}

/// colour of the first text piece in rich output
fn colour_of(cfg: html2text::config::Config<html2text::render::RichDecorator>, html: &str) -> Option<(u8, u8, u8)> {
    let lines = cfg.lines_from_read(html.as_bytes(), 80).ok()?;
    for l in lines {
        for ts in l.tagged_strings() {
            if ts.s.trim().is_empty() { continue; }
            // annotations are outermost first: the nearest enclosing colour is the last one
            let mut last = None;
            for a in ts.tag.iter() {
                if let RichAnnotation::Colour(c) = a { last = Some((c.r, c.g, c.b)); }
            }
            return last;
        }
    }
    None
}

#[derive(Clone, Copy, PartialEq, Debug)]
enum Origin { Agent, User, Author, Inline }

/// C19: pairs of colour declarations on one element; expected winner by the CSS cascade.
fn c19() {
    let origins = [Origin::Agent, Origin::User, Origin::Author, Origin::Inline];
    // (selector, (id, class, typ))
    let sels = [("p", (0, 0, 1)), (".k", (0, 1, 0)), ("#i", (1, 0, 0)), ("p.k", (0, 1, 1))];
    let mut cases = 0u64;
    for &o1 in &origins { for &o2 in &origins { for imp1 in [false, true] { for imp2 in [false, true] {
        for s1 in &sels { for s2 in &sels {
            if o1 == Origin::Inline && o2 == Origin::Inline { continue; }
            if (o1 == Origin::Inline && s1.0 != "p") || (o2 == Origin::Inline && s2.0 != "p") { continue; }
            // declaration 1 is red, declaration 2 is blue; 1 comes first in source order within the same sheet
            let d = |o: Origin, imp: bool, sel: &str, col: &str| -> (String, String, String, String) {
                let decl = format!("color:{}{};", col, if imp { " !important" } else { "" });
                match o {
                    Origin::Agent => (format!("{}{{{}}}", sel, decl), String::new(), String::new(), String::new()),
                    Origin::User => (String::new(), format!("{}{{{}}}", sel, decl), String::new(), String::new()),
                    Origin::Author => (String::new(), String::new(), format!("{}{{{}}}", sel, decl), String::new()),
                    Origin::Inline => (String::new(), String::new(), String::new(), decl),
                }
            };
            let a = d(o1, imp1, s1.0, "#ff0000");
            let b = d(o2, imp2, s2.0, "#0000ff");
            let agent = format!("{}{}", a.0, b.0);
            let user = format!("{}{}", a.1, b.1);
            let author = format!("{}{}", a.2, b.2);
            let inline = format!("{}{}", a.3, b.3);
            let html = format!("<style>{}</style><p id=i class=k{}>x</p>", author,
                if inline.is_empty() { String::new() } else { format!(" style='{}'", inline) });
            let mut cfg = config::rich().use_doc_css();
            if !agent.is_empty() { cfg = cfg.add_agent_css(&agent).unwrap(); }
            if !user.is_empty() { cfg = cfg.add_css(&user).unwrap(); }
            // cascade key
            let rank = |o: Origin, imp: bool| -> i32 { match (imp, o) {
                (false, Origin::Agent) => 1, (false, Origin::User) => 2, (false, Origin::Author) | (false, Origin::Inline) => 3,
                (true, Origin::Author) | (true, Origin::Inline) => 4, (true, Origin::User) => 5, (true, Origin::Agent) => 6 } };
            let key = |o: Origin, imp: bool, s: (i32, i32, i32)| (rank(o, imp), (o == Origin::Inline) as i32, if o == Origin::Inline { (0, 0, 0) } else { s });
            let k1 = key(o1, imp1, s1.1);
            let k2 = key(o2, imp2, s2.1);
            // source order: agent < user < author sheet < inline attribute; within one sheet 1 before 2
            let ord = |o: Origin| match o { Origin::Agent => 0, Origin::User => 1, Origin::Author => 2, Origin::Inline => 3 };
            let second_later = ord(o2) >= ord(o1);
            let expect_blue = if k2 > k1 { true } else if k2 < k1 { false } else { second_later };
            let got = colour_of(cfg, &html);
            cases += 1;
            let want = if expect_blue { (0, 0, 255) } else { (255, 0, 0) };
            if got != Some(want) {
                found("c19", &format!("agent_css={:?} user_css={:?} html={}", agent, user, html),
                      &format!("cascade winner should be {:?} (decl1={:?}/{} imp={} decl2={:?}/{} imp={}), rendered colour {:?}", want, o1, s1.0, imp1, o2, s2.0, imp2, got));
            }
        }}
    }}}}
    // specificity columns do not carry into each other: any number of classes loses to one id, any number of element names to one class,
    // any number of ids to the style attribute
    for n in [255usize, 256, 257, 300] {
        let many_classes: String = std::iter::repeat(".k").take(n).collect();
        let many_ids: String = std::iter::repeat("#i").take(n).collect();
        let many_elems: String = { let mut s = String::new(); for _ in 0..n { s.push_str("div "); } s + "p" };
        let nest = |inner: &str| -> String { let mut s = String::new(); for _ in 0..n { s.push_str("<div>"); } s.push_str(inner); for _ in 0..n { s.push_str("</div>"); } s };
        for (css, html, want, what) in [
            (format!("#i{{color:#ff0000;}} {}{{color:#0000ff;}}", many_classes), "<p id=i class=k>x</p>".to_string(), (255, 0, 0), "one id against many classes"),
            (format!(".k{{color:#ff0000;}} {}{{color:#0000ff;}}", many_elems), nest("<p id=i class=k>x</p>"), (255, 0, 0), "one class against many element names"),
            (format!("{}{{color:#0000ff;}}", many_ids), "<p id=i class=k style='color:#ff0000;'>x</p>".to_string(), (255, 0, 0), "the style attribute against many ids"),
        ] {
            cases += 1;
            let doc = format!("<style>{}</style>{}", css, html);
            let got = { let d = doc.clone(); std::thread::Builder::new().stack_size(1 << 28).spawn(move || colour_of(config::rich().use_doc_css(), &d)).unwrap().join().unwrap_or(None) };
            if got != Some(want) { found("c19", &format!("n={} {} html={}...", n, what, &doc[..doc.len().min(120)]), &format!("{}: expected {:?}, rendered colour {:?}", what, want, got)); }
        }
    }
    println!("NONE {}", cases);
}

/// C01 (CSS text): every string over a small alphabet of CSS tokens, through add_css and through a <style> element
fn c01_css() {
    let toks = ["\\41", " ", "\u{2003}", "{", "}", ":", ";", "\"", "'", "/*", "*/", "!important", "#f00", ".a", "(", ")", ",", ">", "color", "\\", "\n", "2n+1", ":nth-child"];
    let maxlen = if std::env::var("VERIF_TIER").map(|t| t == "thorough").unwrap_or(false) { 4 } else { 3 };
    let mut cases = 0u64;
    let mut idx = vec![0usize; 1];
    loop {
        let css: String = idx.iter().map(|&i| toks[i]).collect();
        cases += 1;
        let c1 = css.clone();
        if panic::catch_unwind(move || { let _ = config::plain().add_css(&c1); }).is_err() { found("c01_css", &format!("add_css({:?})", css), "panic"); }
        let html = format!("<style>{}</style><p class=a>x</p>", css);
        let h = html.clone();
        if panic::catch_unwind(move || { let _ = config::plain().use_doc_css().string_from_read(h.as_bytes(), 20); }).is_err() { found("c01_css", &format!("use_doc_css html={:?}", html), "panic"); }
        // next index vector
        let mut k = 0;
        while k < idx.len() { idx[k] += 1; if idx[k] < toks.len() { break; } idx[k] = 0; k += 1; }
        if k == idx.len() { if idx.len() == maxlen { break; } idx.push(0); }
    }
    println!("NONE {}", cases);
}

/// C19 (one block): several declarations of one property inside one rule block or one style attribute: the last important one
/// wins if there is one, otherwise the last one
fn c19_block() {
    let cols = [("#ff0000", (255u8, 0u8, 0u8)), ("#00ff00", (0, 255, 0)), ("#0000ff", (0, 0, 255))];
    let mut cases = 0u64;
    for n in 2..=3usize { for mask in 0..(1u32 << n) { for inline in [false, true] {
        let mut block = String::new();
        let mut want = None; let mut want_imp = false;
        for k in 0..n {
            let imp = mask & (1 << k) != 0;
            block.push_str(&format!("color:{}{};", cols[k].0, if imp { " !important" } else { "" }));
            if imp || !want_imp { want = Some(cols[k].1); want_imp = want_imp || imp; }
        }
        let (css, html) = if inline { (String::new(), format!("<p style='{}'>x</p>", block)) } else { (format!("p{{{}}}", block), "<p>x</p>".to_string()) };
        cases += 1;
        let cfg = match config::rich().add_css(&css) { Ok(c) => c.use_doc_css(), Err(_) => continue };
        let got = colour_of(cfg, &html);
        if got != want { found("c19_block", &format!("css={} html={}", css, html), &format!("colour {:?}, expected {:?}", got, want)); }
    }}}
    println!("NONE {}", cases);
}

/// C19 (source order): sequences of three rules of equal specificity, repeats included: the last rule that matches wins
fn c19_order() {
    let rules = [(".x", "#ff0000", (255u8, 0u8, 0u8)), (".y", "#0000ff", (0, 0, 255)), (".z", "#00ff00", (0, 255, 0))];
    let mut cases = 0u64;
    for a in 0..3 { for b in 0..3 { for c in 0..3 { for split in [false, true] {
        let seq = [a, b, c];
        let mut css = String::new();
        for &k in &seq { css.push_str(&format!("{}{{color:{};}} ", rules[k].0, rules[k].1)); }
        cases += 1;
        // `split`: the rules arrive in two add_css calls
        let cfg = if split {
            let first = format!("{}{{color:{};}}", rules[a].0, rules[a].1);
            let rest = format!("{}{{color:{};}} {}{{color:{};}}", rules[b].0, rules[b].1, rules[c].0, rules[c].1);
            match config::rich().add_css(&first).and_then(|cfg| cfg.add_css(&rest)) { Ok(c) => c, Err(_) => continue }
        } else { match config::rich().add_css(&css) { Ok(c) => c, Err(_) => continue } };
        let got = colour_of(cfg, "<p class=\"x y z\">t</p>");
        let want = Some(rules[c].2);
        if got != want { found("c19_order", &format!("css={} split={} html=<p class=\"x y z\">t</p>", css, split), &format!("colour {:?}, expected the last rule's {:?}", got, want)); }
    }}}}
    // the same sequences as three <style> elements of the document (use_doc_css), in the head, in the body, or split between them: the
    // sheets count in document order
    for a in 0..3 { for b in 0..3 { for c in 0..3 { for place in 0..3 {
        let sheet = |k: usize| format!("<style>{}{{color:{};}}</style>", rules[k].0, rules[k].1);
        let html = match place {
            0 => format!("<html><head>{}{}{}</head><body><p class=\"x y z\">t</p></body></html>", sheet(a), sheet(b), sheet(c)),
            1 => format!("{}{}{}<p class=\"x y z\">t</p>", sheet(a), sheet(b), sheet(c)),
            _ => format!("<html><head>{}</head><body>{}<div>{}</div><p class=\"x y z\">t</p></body></html>", sheet(a), sheet(b), sheet(c)),
        };
        cases += 1;
        let got = colour_of(config::rich().use_doc_css(), &html);
        let want = Some(rules[c].2);
        if got != want { found("c19_order", &format!("use_doc_css html={}", html), &format!("colour {:?}, expected the last sheet's {:?}", got, want)); }
    }}}}
    // three declarations of different specificity in every order, with every assignment of two colours (a declaration may restate the value
    // already computed): the winner is the declaration with the greatest (ids, classes, elements), the later one on a tie
    let sels = [("p", (0, 0, 1)), (".k", (0, 1, 0)), ("#i", (1, 0, 0)), ("p.k", (0, 1, 1)), ("p", (0, 0, 1))];
    let cols = [("#ff0000", (255u8, 0u8, 0u8)), ("#0000ff", (0u8, 0u8, 255u8))];
    for a in 0..sels.len() { for b in 0..sels.len() { for c in 0..sels.len() { for mask in 0..8usize {
        let seq = [a, b, c];
        let mut css = String::new(); let mut best: Option<((i32, i32, i32), usize)> = None;
        for (pos, &k) in seq.iter().enumerate() {
            let col = cols[(mask >> pos) & 1];
            css.push_str(&format!("{}{{color:{};}} ", sels[k].0, col.0));
            if best.map(|(key, _)| sels[k].1 >= key).unwrap_or(true) { best = Some((sels[k].1, pos)); }
        }
        cases += 1;
        let cfg = match config::rich().add_css(&css) { Ok(c) => c, Err(_) => continue };
        let got = colour_of(cfg, "<p id=i class=k>t</p>");
        let want = Some(cols[(mask >> best.unwrap().1) & 1].1);
        if got != want { found("c19_order", &format!("css={} html=<p id=i class=k>t</p>", css), &format!("colour {:?}, expected {:?} (declaration {} wins the cascade)", got, want, best.unwrap().1 + 1)); }
    }}}}
    println!("NONE {}", cases);
}

/// C19 (inheritance): a child's own winning declaration must beat any inherited colour
fn c19_inherit() {
    let sels_parent = ["#pp", "div.k", "div"];
    let sels_child = ["p", ".c", "#cc"];
    let mut cases = 0;
    for sp in sels_parent { for sc in sels_child {
        let css = format!("{}{{color:#ff0000;}} {}{{color:#0000ff;}}", sp, sc);
        let html = "<div id=pp class=k><p id=cc class=c>x</p></div>";
        let cfg = config::rich().add_css(&css).unwrap();
        let got = colour_of(cfg, html);
        cases += 1;
        if got != Some((0, 0, 255)) {
            found("c19_inherit", &format!("user_css={:?} html={}", css, html), &format!("child has its own colour declaration (blue) but rendered {:?}", got));
        }
    }}
    println!("NONE {}", cases);
}

use unicode_width::UnicodeWidthStr;

fn render_plain(html: &str, w: usize) -> Option<Result<String, String>> {
    let h = html.to_string();
    match panic::catch_unwind(move || config::plain().string_from_read(h.as_bytes(), w)) {
        Ok(Ok(s)) => Some(Ok(s)),
        Ok(Err(e)) => Some(Err(format!("{:?}", e))),
        Err(_) => None,
    }
}

fn table_docs() -> Vec<String> {
    let cells = ["", "a", "ccc", "eeeeeeeeee", "\u{4e2d}\u{6587}"];
    let mut docs = Vec::new();
    // two rows; first row two cells, second row one cell with colspan 1..3 (+ optional extra cell)
    for a in cells { for b in cells { for c in cells { for span in 1..=3 {
        docs.push(format!("<table><tr><td>{}<td>{}<tr><td colspan={}>{}</table>", a, b, span, c));
        docs.push(format!("<table><tr><td colspan={}>{}<tr><td>{}<td>{}<td>{}</table>", span, c, a, b, a));
    }}}}
    docs
}

/// C02 (tables): every output line is at most `width` columns wide
fn c02_tables() {
    let mut cases = 0u64;
    for d in table_docs() { for w in 1..=14usize {
        cases += 1;
        match render_plain(&d, w) {
            Some(Ok(s)) => for l in s.lines() {
                if UnicodeWidthStr::width(l) > w { found("c02_tables", &format!("width={} html={}", w, d), &format!("line {:?} is {} columns wide", l, UnicodeWidthStr::width(l))); }
            },
            Some(Err(_)) => {}
            None => found("c02_tables", &format!("width={} html={}", w, d), "panic"),
        }
    }}
    println!("NONE {}", cases);
}

/// C03/C06 (tables): every non-space character of every cell appears in the output
fn c03_tables() {
    let mut cases = 0u64;
    for d in table_docs() { for w in 1..=14usize {
        cases += 1;
        if let Some(Ok(s)) = render_plain(&d, w) {
            for ch in ['a', 'c', 'e', '\u{4e2d}'] {
                let want = d.matches(ch).count() - if ch == 'a' { d.matches("table").count() + d.matches("span").count() } else if ch == 'c' { d.matches("colspan").count() } else if ch == 'e' { d.matches("table").count() } else { 0 };
                let got = s.matches(ch).count();
                if got != want { found("c03_tables", &format!("width={} html={}", w, d), &format!("character {:?} occurs {} times in the cells but {} times in the output {:?}", ch, want, got, s)); }
            }
        }
    }}
    println!("NONE {}", cases);
}


/// C01 (hang/panic): render with a watchdog thread
fn render_timeout(html: String, w: usize, mww: Option<usize>, pad: bool) -> Result<(), String> {
    use std::sync::mpsc;
    let (tx, rx) = mpsc::channel();
    std::thread::spawn(move || {
        let r = panic::catch_unwind(|| {
            let mut c = config::plain();
            if let Some(m) = mww { c = c.max_wrap_width(m); }
            if pad { c = c.pad_block_width(); }
            let _ = c.string_from_read(html.as_bytes(), w);
        });
        let _ = tx.send(r.is_ok());
    });
    match rx.recv_timeout(std::time::Duration::from_secs(2)) {
        Ok(true) => Ok(()),
        Ok(false) => Err("panic".into()),
        Err(_) => Err("no result after 2 s (non-termination)".into()),
    }
}

/// C01: text engine totality over small documents, widths and wrap widths
fn c01_engine() {
    let docs = ["<p>a b</p>", "<pre> x y</pre>", "<pre>a\tb</pre>", "<ul><li><pre> </pre></li></ul>", "<p>\u{4e2d} \u{4e2d}</p>", "<blockquote><pre>  a  </pre></blockquote>", "<ol><li> <li>x</ol>", "<pre>\n \n</pre>"];
    let mut cases = 0u64;
    for d in docs { for w in 1..=6usize { for mww in [None, Some(0usize), Some(1), Some(2)] { for pad in [false, true] {
        cases += 1;
        if let Err(e) = render_timeout(d.to_string(), w, mww, pad) {
            found("c01_engine", &format!("width={} max_wrap_width={:?} pad_block_width={} html={}", w, mww, pad, d), &e);
        }
    }}}}
    println!("NONE {}", cases);
}


/// C20/C01: :nth-child(an+b) against the integer definition {a*n+b | n >= 0}, incl. extreme coefficients
fn c20_nth() {
    let coeffs: [i64; 11] = [-2147483647, -5, -2, -1, 0, 1, 2, 3, 5, 2147483647, 99999999999];
    let mut cases = 0u64;
    for &a in &coeffs { for &b in &coeffs { for nchild in [1usize, 2, 5] {
        let arg = if a == 0 { format!("{}", b) } else { format!("{}n{}{}", a, if b >= 0 { "+" } else { "-" }, b.abs()) };
        let css = format!("li:nth-child({}){{display:none;}}", arg);
        let mut html = String::from("<ul>");
        for i in 1..=nchild { html.push_str(&format!("<li>k{}</li>", i)); }
        html.push_str("</ul>");
        cases += 1;
        let css2 = css.clone(); let html2 = html.clone();
        let r = panic::catch_unwind(move || {
            match config::plain().add_css(&css2) {
                Ok(c) => c.string_from_read(html2.as_bytes(), 40).ok(),
                Err(_) => None,   // a parse error is an allowed outcome (C17)
            }
        });
        match r {
            Err(_) => found("c20_nth", &format!("css={} html={}", css, html), "panic"),
            Ok(None) => {}
            Ok(Some(out)) => {
                if a.abs() > 2147483647 || b.abs() > 2147483647 { continue; }
                for idx in 1..=(nchild as i64) {
                    // exists n >= 0: idx == a*n + b
                    let hit = if a == 0 { idx == b } else { (idx - b) % a == 0 && (idx - b) / a >= 0 };
                    let shown = out.contains(&format!("k{}", idx));
                    if shown == hit {
                        found("c20_nth", &format!("css={} html={}", css, html), &format!("child {} should be {} but output is {:?}", idx, if hit { "hidden (matched)" } else { "shown (not matched)" }, out));
                    }
                }
            }
        }
    }}}
    println!("NONE {}", cases);
}


use html2text::render::TextDecorator;
#[derive(Clone)]
struct Dec { quote: &'static str, bullet: &'static str, header: &'static str, ol_suffix: &'static str }
impl TextDecorator for Dec {
    type Annotation = ();
    fn decorate_link_start(&mut self, _u: &str) -> (String, ()) { ("[".into(), ()) }
    fn decorate_link_end(&mut self) -> String { "]".into() }
    fn decorate_em_start(&self) -> (String, ()) { ("".into(), ()) }
    fn decorate_em_end(&self) -> String { "".into() }
    fn decorate_strong_start(&self) -> (String, ()) { ("".into(), ()) }
    fn decorate_strong_end(&self) -> String { "".into() }
    fn decorate_strikeout_start(&self) -> (String, ()) { ("".into(), ()) }
    fn decorate_strikeout_end(&self) -> String { "".into() }
    fn decorate_code_start(&self) -> (String, ()) { ("".into(), ()) }
    fn decorate_code_end(&self) -> String { "".into() }
    fn decorate_preformat_first(&self) {}
    fn decorate_preformat_cont(&self) {}
    fn decorate_image(&mut self, _s: &str, t: &str) -> (String, ()) { (t.into(), ()) }
    fn header_prefix(&self, l: usize) -> String { self.header.repeat(l) + " " }
    fn quote_prefix(&self) -> String { self.quote.into() }
    fn unordered_item_prefix(&self) -> String { self.bullet.into() }
    fn ordered_item_prefix(&self, i: i64) -> String { format!("{}{}", i, self.ol_suffix) }
    fn make_subblock_decorator(&self) -> Self { self.clone() }
}

/// C16: decorators with non-ASCII prefixes: no panic, no line wider than the width, content wrapped at width - display width
fn c16_prefix() {
    let decs = [
        Dec { quote: "> ", bullet: "* ", header: "#", ol_suffix: ". " },
        Dec { quote: "\u{2502} ", bullet: "\u{2022} ", header: "\u{a7}", ol_suffix: "\u{ff09}" },
        Dec { quote: "\u{3016}", bullet: "", header: "\u{3016}", ol_suffix: "\u{3001} " },
    ];
    let docs = ["<blockquote>hello world foo bar baz</blockquote>", "<ul><li>hello world foo bar baz</ul>", "<h2>hello world foo bar baz</h2>",
                "<ol><li>hello world foo bar baz<li>second item here</ol>", "<ol start=9><li>hello world foo<li>second item here</ol>"];
    let mut cases = 0u64;
    for d in &decs { for doc in docs { for w in 6..=20usize {
        cases += 1;
        let dd = d.clone(); let h = doc.to_string();
        let r = panic::catch_unwind(move || config::with_decorator(dd).string_from_read(h.as_bytes(), w));
        match r {
            Err(_) => found("c16_prefix", &format!("width={} quote={:?} bullet={:?} header={:?} ol_suffix={:?} html={}", w, d.quote, d.bullet, d.header, d.ol_suffix, doc), "panic"),
            Ok(Err(_)) => {}
            Ok(Ok(s)) => for l in s.lines() {
                if UnicodeWidthStr::width(l) > w { found("c16_prefix", &format!("width={} quote={:?} bullet={:?} header={:?} ol_suffix={:?} html={}", w, d.quote, d.bullet, d.header, d.ol_suffix, doc), &format!("line {:?} is {} columns wide", l, UnicodeWidthStr::width(l))); }
            },
        }
    }}}
    // the block prefix is put in front of EVERY line of the block verbatim, blank separator lines included (trailing white space of the prefix kept)
    for d in &decs { for w in [12usize, 30] {
        let lead = |l: &str, p: &str| -> bool { l.starts_with(p) };
        let (dq, dh) = (d.clone(), d.clone());
        cases += 2;
        if let Ok(Ok(s)) = panic::catch_unwind(move || config::with_decorator(dq).string_from_read("<blockquote><p>aa bb</p><p>cc</p></blockquote>".as_bytes(), w)) {
            for l in s.lines() { if !lead(l, d.quote) { found("c16_prefix", &format!("width={} quote={:?} html=<blockquote><p>aa bb</p><p>cc</p></blockquote>", w, d.quote), &format!("line {:?} of the quote does not start with the quote prefix; output {:?}", l, s)); break; } }
        }
        let hp = d.header.repeat(2) + " ";
        if let Ok(Ok(s)) = panic::catch_unwind(move || config::with_decorator(dh).string_from_read("<h2>aa bb<br><br>cc</h2>".as_bytes(), w)) {
            for l in s.lines() { if !l.trim().is_empty() && !lead(l, &hp) || l.trim().is_empty() && !lead(l, hp.trim_end()) { found("c16_prefix", &format!("width={} header={:?} html=<h2>aa bb<br><br>cc</h2>", w, d.header), &format!("line {:?} of the heading does not start with the heading prefix; output {:?}", l, s)); break; } }
        }
        if !d.bullet.is_empty() {
            let du = d.clone(); cases += 1;
            let ind = " ".repeat(UnicodeWidthStr::width(d.bullet));
            if let Ok(Ok(s)) = panic::catch_unwind(move || config::with_decorator(du).string_from_read("<ul><li><p>aa</p><p>bb</p></li></ul>".as_bytes(), w)) {
                for (i, l) in s.lines().enumerate() { let p = if i == 0 { d.bullet } else { ind.as_str() }; if !lead(l, p) { found("c16_prefix", &format!("width={} bullet={:?} html=<ul><li><p>aa</p><p>bb</p></li></ul>", w, d.bullet), &format!("line {} {:?} of the item does not start with {:?}; output {:?}", i, l, p, s)); break; } }
            }
        }
    }}
    println!("NONE {}", cases);
}


/// C16: with a custom decorator a quote / list item is its content rendered at width - display width of the prefix, prefix in front
fn c16_compose() {
    let decs = [
        Dec { quote: "\u{2502} ", bullet: "\u{2022} ", header: "\u{a7}", ol_suffix: "\u{ff09}" },
        Dec { quote: "\u{3016}", bullet: "\u{ff0a}", header: "\u{3016}", ol_suffix: "\u{3001} " },
        Dec { quote: ">>> ", bullet: "- ", header: "=", ol_suffix: ") " },
    ];
    let ndoc = if bounded::thorough() { 200 } else { 50 };
    let mut r = bounded::Lcg(0xa54ff53a5f1d36f1 ^ bounded::seed());
    let mut cases = 0u64;
    for _ in 0..ndoc {
        let mut tok = 0;
        let x = bounded::gen_block(&mut r, &mut tok, 1);
        for d in &decs { for (open, close, is_quote) in [("<blockquote>", "</blockquote>", true), ("<ul><li>", "</li></ul>", false)] {
            let first = if is_quote { d.quote.to_string() } else { d.bullet.to_string() };
            let pw = UnicodeWidthStr::width(first.as_str());
            let cont = if is_quote { first.clone() } else { " ".repeat(pw) };
            let html = format!("{}{}{}", open, x, close);
            for w in (10..=40usize).step_by(3) {
                cases += 1;
                let (d1, d2, h1, h2) = (d.clone(), d.clone(), html.clone(), x.clone());
                let outer = match panic::catch_unwind(move || config::with_decorator(d1).string_from_read(h1.as_bytes(), w)) { Ok(Ok(s)) => s, Ok(Err(_)) => continue, Err(_) => { found("c16_compose", &format!("width={} quote={:?} bullet={:?} html={}", w, d.quote, d.bullet, html), "panic"); continue; } };
                let inner = match panic::catch_unwind(move || config::with_decorator(d2).string_from_read(h2.as_bytes(), w - pw)) { Ok(Ok(s)) => s, _ => continue };
                let want: Vec<String> = inner.lines().enumerate().map(|(i, l)| format!("{}{}", if i == 0 { &first } else { &cont }, l)).collect();
                let got: Vec<String> = outer.lines().map(|l| l.to_string()).collect();
                if got != want { found("c16_compose", &format!("width={} quote={:?} bullet={:?} html={}", w, d.quote, d.bullet, html), &format!("lines {:?}, but the content at width {} with the prefix in front is {:?}", got, w - pw, want)); }
            }
        }}
    }
    println!("NONE {}", cases);
}

/// C16: an ordered-list decorator whose widest marker is neither the first nor the last (roman numerals)
#[derive(Clone)]
struct RomanDec;
fn roman(mut n: i64) -> String {
    if n <= 0 || n > 3999 { return n.to_string(); }
    let t = [(1000, "m"), (900, "cm"), (500, "d"), (400, "cd"), (100, "c"), (90, "xc"), (50, "l"), (40, "xl"), (10, "x"), (9, "ix"), (5, "v"), (4, "iv"), (1, "i")];
    let mut s = String::new();
    for (v, r) in t { while n >= v { s.push_str(r); n -= v; } }
    s
}
impl TextDecorator for RomanDec {
    type Annotation = ();
    fn decorate_link_start(&mut self, _u: &str) -> (String, ()) { ("[".into(), ()) }
    fn decorate_link_end(&mut self) -> String { "]".into() }
    fn decorate_em_start(&self) -> (String, ()) { ("".into(), ()) }
    fn decorate_em_end(&self) -> String { "".into() }
    fn decorate_strong_start(&self) -> (String, ()) { ("".into(), ()) }
    fn decorate_strong_end(&self) -> String { "".into() }
    fn decorate_strikeout_start(&self) -> (String, ()) { ("".into(), ()) }
    fn decorate_strikeout_end(&self) -> String { "".into() }
    fn decorate_code_start(&self) -> (String, ()) { ("".into(), ()) }
    fn decorate_code_end(&self) -> String { "".into() }
    fn decorate_preformat_first(&self) {}
    fn decorate_preformat_cont(&self) {}
    fn decorate_image(&mut self, _s: &str, t: &str) -> (String, ()) { (t.into(), ()) }
    fn header_prefix(&self, l: usize) -> String { "#".repeat(l) + " " }
    fn quote_prefix(&self) -> String { "> ".into() }
    fn unordered_item_prefix(&self) -> String { "* ".into() }
    fn ordered_item_prefix(&self, i: i64) -> String { format!("{}. ", roman(i)) }
    fn make_subblock_decorator(&self) -> Self { self.clone() }
}
fn c16_roman() {
    let mut cases = 0u64;
    // first pass: the width bound only, with first words of 3..6 columns (a marker wider than the common width pushes the first line of
    // its item out); second pass: alignment as well
    for pass in 0..2 { for extra in ["", "x", "xyz"] { if pass == 1 && !extra.is_empty() { continue; }
    for (start, n) in [(1i64, 4usize), (1, 9), (6, 4), (17, 3), (38, 2)] {
        let mut html = format!("<ol start=\"{}\">", start);
        for k in 0..n { html.push_str(&format!("<li>aa{}{} bbb ccc ddd</li>", k, extra)); }
        html.push_str("</ol>");
        for w in 8..=24usize {
            cases += 1;
            let h = html.clone();
            match panic::catch_unwind(move || config::with_decorator(RomanDec).string_from_read(h.as_bytes(), w)) {
                Err(_) => found("c16_roman", &format!("width={} html={}", w, html), "panic"),
                Ok(Err(_)) => {}
                Ok(Ok(s)) => {
                    if let Some(l) = s.lines().find(|l| UnicodeWidthStr::width(*l) > w) { found("c16_roman", &format!("width={} html={}", w, html), &format!("line {:?} is {} columns wide; output {:?}", l, UnicodeWidthStr::width(l), s)); continue; }
                    // all items start their text in one column
                    let cols: Vec<usize> = s.lines().filter(|l| l.contains("aa")).map(|l| UnicodeWidthStr::width(&l[..l.find("aa").unwrap()])).collect();
                    if pass == 1 && cols.windows(2).any(|p| p[0] != p[1]) { found("c16_roman", &format!("width={} html={}", w, html), &format!("item texts start in columns {:?}; output {:?}", cols, s)); }
                }
            }
        }
    }
    }}
    println!("NONE {}", cases);
}

/// C16: affixes of a custom decorator surround the element text verbatim (also inside nested inline elements)
#[derive(Clone)]
struct AffixDec;
impl TextDecorator for AffixDec {
    type Annotation = ();
    fn decorate_link_start(&mut self, _u: &str) -> (String, ()) { ("\u{27e6}".into(), ()) }
    fn decorate_link_end(&mut self) -> String { "\u{27e7}".into() }
    fn decorate_em_start(&self) -> (String, ()) { ("<e:".into(), ()) }
    fn decorate_em_end(&self) -> String { ":e>".into() }
    fn decorate_strong_start(&self) -> (String, ()) { ("<b:".into(), ()) }
    fn decorate_strong_end(&self) -> String { ":b>".into() }
    fn decorate_strikeout_start(&self) -> (String, ()) { ("<s~".into(), ()) }
    fn decorate_strikeout_end(&self) -> String { "~s>".into() }
    fn decorate_code_start(&self) -> (String, ()) { ("<c`".into(), ()) }
    fn decorate_code_end(&self) -> String { "`c>".into() }
    fn decorate_preformat_first(&self) {}
    fn decorate_preformat_cont(&self) {}
    fn decorate_image(&mut self, _s: &str, t: &str) -> (String, ()) { (t.into(), ()) }
    fn header_prefix(&self, l: usize) -> String { "#".repeat(l) + " " }
    fn quote_prefix(&self) -> String { "> ".into() }
    fn unordered_item_prefix(&self) -> String { "* ".into() }
    fn ordered_item_prefix(&self, i: i64) -> String { format!("{}. ", i) }
    fn make_subblock_decorator(&self) -> Self { self.clone() }
}
fn c16_affix() {
    // (element, prefix, suffix); the element text is the token W; strike-through characters (U+0336) are removed from the element text only
    let els = [("em", "<e:", ":e>"), ("strong", "<b:", ":b>"), ("s", "<s~", "~s>"), ("del", "<s~", "~s>"), ("code", "<c`", "`c>")];
    let mut cases = 0u64;
    for (el, pre, suf) in els { for outer in ["", "em", "s", "strong"] { for unicode in [true, false] { for w in [80usize, 12] {
        let inner = format!("<{el}>W</{el}>", el = el);
        let html = if outer.is_empty() { format!("<p>a {} z</p>", inner) } else { format!("<p>a <{o}>{}</{o}> z</p>", inner, o = outer) };
        cases += 1;
        let h = html.clone();
        let r = panic::catch_unwind(move || config::with_decorator(AffixDec).unicode_strikeout(unicode).string_from_read(h.as_bytes(), w));
        if let Ok(Ok(out)) = r {
            // an enclosing <s> legitimately strikes through everything inside it, affixes of inner elements included
            let struck_outside = outer == "s" && unicode;
            let flat: String = out.split_whitespace().collect::<Vec<_>>().join(" ");
            let body = if (el == "s" || el == "del") && unicode { "W\u{336}" } else { "W" };
            let expect = format!("{}{}{}", pre, body, suf);
            if !struck_outside && !flat.contains(&expect) {
                found("c16_affix", &format!("width={} unicode_strikeout={} html={}", w, unicode, html), &format!("output {:?} does not contain {:?}", flat, expect));
            }
        }
    }}}}
    println!("NONE {}", cases);
}

/// C01/C07: ordered lists with extreme start values
fn c07_ol() {
    let starts = ["9223372036854775807", "9223372036854775806", "-9223372036854775808", "0", "-1", "98"];
    let mut cases = 0u64;
    for st in starts { for n in 1..=3usize { for w in [6usize, 30] {
        let mut html = format!("<ol start=\"{}\">", st);
        for i in 0..n { html.push_str(&format!("<li>item{}</li>", i)); }
        html.push_str("</ol>");
        cases += 1;
        let h = html.clone();
        match panic::catch_unwind(move || config::plain().string_from_read(h.as_bytes(), w)) {
            Err(_) => found("c07_ol", &format!("width={} html={}", w, html), "panic"),
            Ok(_) => {}
        }
    }}}
    println!("NONE {}", cases);
}


/// C01: tables with huge / zero colspans
fn c01_colspan() {
    let spans = ["0", "1", "2", "9223372036854775807", "18446744073709551615", "1000000000"];
    let mut cases = 0u64;
    for a in spans { for b in spans { for c in spans {
        let html = format!("<table><tr><td colspan={}>x<td colspan={}>y<tr><td colspan={}>z<td>w</table>", a, b, c);
        cases += 1;
        let h = html.clone();
        match panic::catch_unwind(move || config::plain().string_from_read(h.as_bytes(), 20)) {
            Err(_) => found("c01_colspan", &format!("width=20 html={}", html), "panic"),
            Ok(_) => {}
        }
    }}}
    println!("NONE {}", cases);
}


/// C01 (D6): selectors with 65536 components of one kind overflow the u16 specificity counters
fn c01_specificity() {
    let mut sel = String::from("p");
    for _ in 0..65536 { sel.push_str(".k"); }
    let css = format!("{}{{color:#ff0000;}}", sel);
    // matching a selector recurses once per component: give the thread a deep stack so that only the counters are under test
    let r = std::thread::Builder::new().stack_size(1 << 30).spawn(move || panic::catch_unwind(move || {
        let c = config::plain().add_css(&css);
        match c { Ok(c) => { let _ = c.string_from_read("<p class=k>x</p>".as_bytes(), 20); }, Err(_) => {} }
    })).unwrap().join().unwrap();
    if r.is_err() { found("c01_specificity", "css = p followed by 65536 times .k {color:#ff0000;} ; html=<p class=k>x</p>", "panic"); }
    println!("NONE 1");
}


/// C14: an element with an id whose first word must be hard-wrapped still yields its fragment marker
fn c14_hardwrap() {
    use html2text::render::TaggedLineElement;
    let docs = ["<p id=x>hhhhhhhh b</p>", "<p>aa <span id=x>hhhhhhhhhh</span></p>", "<ul><li id=x>wwwwwwwwwwww</ul>"];
    let mut cases = 0u64;
    for d in docs { for w in 3..=8usize {
        cases += 1;
        let lines = match config::rich().lines_from_read(d.as_bytes(), w) { Ok(l) => l, Err(_) => continue };
        let mut n = 0;
        for l in &lines { for e in l.iter() { if let TaggedLineElement::FragmentStart(f) = e { if f == "x" { n += 1; } } } }
        if n != 1 { found("c14_hardwrap", &format!("width={} html={}", w, d), &format!("{} fragment markers named x in the output (expected exactly 1)", n)); }
    }}
    // a marker recorded right after an over-wide character that had to overflow, with the element's text in a later block (D18)
    let docs2 = ["<div>\u{5b57}<span id=x><p>text</p></span></div>", "<div>a \u{5b57}<span id=x><ul><li>t</ul></span></div>", "<p>\u{5b57}\u{5b57}<span id=x><blockquote>q</blockquote></span></p>"];
    for d in docs2 { for w in 1..=3usize {
        cases += 1;
        let lines = match config::rich().allow_width_overflow().lines_from_read(d.as_bytes(), w) { Ok(l) => l, Err(_) => continue };
        let mut n = 0;
        for l in &lines { for e in l.iter() { if let TaggedLineElement::FragmentStart(f) = e { if f == "x" { n += 1; } } } }
        if n != 1 { found("c14_hardwrap", &format!("width={} allow_width_overflow html={}", w, d), &format!("{} fragment markers named x in the output (expected exactly 1)", n)); }
    }}
    println!("NONE {}", cases);
}


/// C16: the trivial decorator produces nothing but document text, whitespace and table borders
fn c16_trivial() {
    let docs = ["<p>x<sup>ab</sup> y</p>", "<p><em>a</em> <strong>b</strong> <code>c</code> <a href='u'>d</a> <s>e</s></p>", "<ul><li>f<li>g</ul><ol><li>h</ol>",
                "<blockquote>i</blockquote><h2>j</h2><dl><dt>k<dd>l</dl>", "<p>m<sup>2</sup><img src='s' alt='n'></p>"];
    let mut cases = 0u64;
    for d in docs { for w in [10usize, 40] {
        cases += 1;
        let out = match config::with_decorator(html2text::render::TrivialDecorator::new()).unicode_strikeout(false).string_from_read(d.as_bytes(), w) { Ok(o) => o, Err(_) => continue };
        for ch in out.chars() {
            if ch.is_whitespace() || ch.is_alphanumeric() && d.contains(ch) { continue; }
            if ch == '\u{b2}' { continue; } // <sup>2</sup> is rendered with the Unicode superscript digit (document text)
            found("c16_trivial", &format!("width={} html={}", w, d), &format!("output {:?} contains {:?}, which is neither document text nor whitespace", out, ch));
        }
    }}
    println!("NONE {}", cases);
}

fn main() {
    let mode = std::env::args().nth(1).unwrap_or_default();
    panic::set_hook(Box::new(|_| {}));
    match mode.as_str() {
        "bnd_tables" => bounded::bnd_tables(),
        "bnd_c04" => bounded::bnd_c04(),
        "bnd_c12" => bounded::bnd_c12(),
        "bnd_c15" => bounded::bnd_c15(),
        "bnd_c07" => bounded::bnd_c07(),
        "bnd_c14" => bounded::bnd_c14(),
        "bnd_c20" => bounded::bnd_c20(),
        "c01_colours" => bounded::c01_colours(),
        "c20_adoption" => bounded::c20_adoption(),
        "bnd_doc" => bounded::bnd_doc(),
        "c03_elements" => bounded::c03_elements(),
        "c02_elements" => bounded::c02_elements(),
        "c08_elements" => bounded::c08_elements(),
        "bnd_mut" => bounded::bnd_mut(),
        "c06_positions" => bounded::c06_positions(),
        "c07_compose" => bounded::c07_compose(),
        "c14_elements" => bounded::c14_elements(),
        "c13_minwrap" => bounded::c13_minwrap(),
        "c12_contflag" => bounded::c12_contflag(),
        "bnd_c08" => bounded::bnd_c08(),
        "bnd_c13" => bounded::bnd_c13(),
        "bnd_c18" => bounded::bnd_c18(),
        "bnd_c09" => bounded::bnd_c09(),
        "c19" => c19(),
        "c19_inherit" => c19_inherit(),
        "c19_block" => c19_block(),
        "c01_css" => c01_css(),
        "c19_order" => c19_order(),
        "dbg" => dbg(),
        "dbgcss" => dbgcss(),
        "dbgfrag" => dbgfrag(),
        "c16_trivial" => c16_trivial(),
        "c14_hardwrap" => c14_hardwrap(),
        "c01_specificity" => c01_specificity(),
        "c01_colspan" => c01_colspan(),
        "c07_ol" => c07_ol(),
        "c16_prefix" => c16_prefix(),
        "c16_affix" => c16_affix(),
        "c16_roman" => c16_roman(),
        "c16_compose" => c16_compose(),
        "c20_nth" => c20_nth(),
        "c01_engine" => c01_engine(),
        "c02_tables" => c02_tables(),
        "c03_tables" => c03_tables(),
        _ => { eprintln!("unknown mode"); std::process::exit(2) }
    }
}
#[allow(dead_code)]
pub fn dbgfrag() {
    // replay dbgfrag <width> <flags: o=allow_width_overflow> <html> : the elements of every output line
    use html2text::render::TaggedLineElement;
    let a: Vec<String> = std::env::args().collect();
    let width: usize = a.get(2).and_then(|s| s.parse().ok()).unwrap_or(20);
    let flags = a.get(3).cloned().unwrap_or_default();
    let html = a.get(4).cloned().unwrap_or_default();
    let mut cfg = config::rich();
    if flags.contains('o') { cfg = cfg.allow_width_overflow(); }
    match cfg.lines_from_read(html.as_bytes(), width) {
        Ok(lines) => for l in lines {
            let mut out = String::new();
            for e in l.iter() { match e { TaggedLineElement::FragmentStart(f) => out.push_str(&format!("<#{}>", f)), TaggedLineElement::Str(ts) => out.push_str(&format!("{:?}{}", ts.s, if flags.contains('t') { format!("{:?}", ts.tag) } else { String::new() })) } }
            println!("{}", out);
        },
        Err(e) => println!("ERR: {:?}", e),
    }
}
#[allow(dead_code)]
pub fn dbgcss() {
    // replay dbgcss <css> <html>
    let a: Vec<String> = std::env::args().collect();
    let cfg = config::rich().add_css(&a[2]).unwrap();
    println!("{:?}", html2text::parse(a[3].as_bytes()).is_ok());
    let lines = cfg.lines_from_read(a[3].as_bytes(), 80).unwrap();
    for l in lines { for ts in l.tagged_strings() { println!("{:?} {:?}", ts.s, ts.tag); } }
}
#[allow(dead_code)]
pub fn dbg() {
    // replay dbg <width> <flags: b=no_table_borders r=raw_mode f=link_footnotes o=allow_width_overflow> <html>
    let a: Vec<String> = std::env::args().collect();
    let width: usize = a.get(2).and_then(|s| s.parse().ok()).unwrap_or(20);
    let flags = a.get(3).cloned().unwrap_or_default();
    let html = a.get(4).cloned().unwrap_or_default();
    let mut cfg = config::plain();
    if flags.contains('b') { cfg = cfg.no_table_borders(); }
    if flags.contains('r') { cfg = cfg.raw_mode(true); }
    if flags.contains('f') { cfg = cfg.link_footnotes(true); }
    if flags.contains('o') { cfg = cfg.allow_width_overflow(); }
    let r = std::panic::catch_unwind(|| cfg.string_from_read(html.as_bytes(), width));
    match r {
        Ok(Ok(s)) => println!("OK:\n{}", s),
        Ok(Err(e)) => println!("ERR: {:?}", e),
        Err(_) => println!("PANIC"),
    }
}
