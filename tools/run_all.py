#!/usr/bin/env python3
"""Run every claimed check (quick by default) on /repo and print a table; evidence files are rewritten."""
import json, os, subprocess, sys, concurrent.futures as cf, time
VERIF = os.path.dirname(os.path.dirname(os.path.abspath(__file__)))
tier = sys.argv[1] if len(sys.argv) > 1 else 'quick'
man = json.load(open(os.path.join(VERIF, 'MANIFEST.json')))
def run(c):
    t0 = time.time()
    r = subprocess.run(['./check', c['property_id'], '--tier', tier], cwd=VERIF, capture_output=True, text=True)
    return c['property_id'], r.returncode, round(time.time() - t0, 1), r.stdout.strip().split('\n')[-3:]
bad = 0
with cf.ThreadPoolExecutor(max_workers=4) as ex:
    for pid, rc, t, out in ex.map(run, man['checks']):
        print(pid, rc, t, out[-1][:160])
        bad += rc != 0
sys.exit(1 if bad else 0)
