#!/bin/bash
# usage: tools/rebase_seed.sh <id> <python-script-that-edits-files-in-cwd> [features]
# Re-creates a seeded change on top of the current /repo HEAD in a scratch worktree, confirms it (suites pass, demo fails with / passes
# without), and replaces seeded/<id>/patch.diff.
set -u
ID=$1; PY=$2; FEAT=${3:-}
FA=""; [ -n "$FEAT" ] && FA="--features $FEAT"
WT=/tmp/rb-$ID
rm -rf $WT; git -C /repo worktree prune; git -C /repo worktree add -q --detach $WT HEAD || exit 2
cp -r /repo/target $WT/target
cd $WT && python3 $PY || { echo "edit failed"; exit 2; }
git diff > /tmp/$ID.diff
t1=$(cargo test --offline 2>&1 | grep -E "^test result" | head -1)
t2=$(cargo test --offline --features css 2>&1 | grep -E "^test result" | head -1)
mkdir -p tests && cp /verif/seeded/$ID/demo.rs tests/demo.rs
dm=$(cargo test --offline $FA --test demo 2>&1 | grep -E "^test result" | head -1)
git checkout -q -- src
dp=$(cargo test --offline $FA --test demo 2>&1 | grep -E "^test result" | head -1)
echo "$ID: suite=[$t1] css=[$t2] demo_with=[$dm] demo_without=[$dp]"
ok=1
echo "$t1" | grep -q "107 passed; 0 failed" || ok=0
echo "$t2" | grep -q "146 passed; 0 failed" || ok=0
echo "$dm" | grep -q "FAILED" || ok=0
echo "$dp" | grep -q " 0 failed" || ok=0
cd /verif; git -C /repo worktree remove --force $WT
if [ $ok = 1 ]; then
  cp /tmp/$ID.diff /verif/seeded/$ID/patch.diff
  python3 - <<PY
import json
p='/verif/seeded/$ID/meta.json'
m=json.load(open(p)); m['rebased']='patch re-created on top of the fix: commits in /repo (same change, re-confirmed: suites pass, demo fails with / passes without)'
json.dump(m,open(p,'w'),indent=1)
PY
  echo "$ID: REBASED+CONFIRMED"
else
  echo "$ID: NOT CONFIRMED"
fi
