#!/bin/bash
# usage: tools/import_round2.sh <PROP>...   — takes /tmp/wt/<PROP>/OUT/{patch.diff,demo.rs,meta.json} (written by a sub-agent),
# confirms it with tools/confirm_seed.sh and stores it as /verif/seeded/<PROP>-c
for p in "$@"; do
  d=/tmp/r2/$p/${SUFFIX:-c}
  rm -rf /tmp/r2/$p; mkdir -p $d
  cp /tmp/wt/$p/OUT/patch.diff /tmp/wt/$p/OUT/demo.rs /tmp/wt/$p/OUT/meta.json $d/ 2>/dev/null || { echo "$p: deliverables missing"; continue; }
  /verif/tools/confirm_seed.sh /tmp/r2/$p $p 2>&1 | tail -2
  rm -rf /tmp/r2/$p
done
