#!/bin/bash
# usage: tools/bounded_on_seed.sh <seed id> <mode>...   — builds the replay crate against a scratch copy of /repo with the seeded patch applied
set -e
id=$1; shift
scr=$(mktemp -d /tmp/bseed-XXXX)
(cd /repo && git archive HEAD) | tar -x -C $scr
(cd $scr && git init -q . && git apply /verif/seeded/$id/patch.diff)
tmp=$(mktemp -d /tmp/brep-XXXX)
cp -r /verif/replay/src $tmp/src
sed "s|path = \"/repo\"|path = \"$scr\"|" /verif/replay/Cargo.toml > $tmp/Cargo.toml
cp /repo/Cargo.lock $tmp/Cargo.lock 2>/dev/null || true
(cd $tmp && CARGO_NET_OFFLINE=true CARGO_TARGET_DIR=/tmp/brep-target cargo build --offline --quiet 2>&1 | grep -E "^error" -A5 | head -20)
for m in "$@"; do /tmp/brep-target/debug/replay $m | cut -c1-400 | tail -3; done
rm -rf $scr $tmp
