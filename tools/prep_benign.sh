#!/bin/bash
# usage: tools/prep_benign.sh <PROP>...  — scratch copies /tmp/wb/<PROP> for sub-agents that write behaviour-preserving changes
mkdir -p /tmp/wb; cp /verif/tools/benign_instructions.txt /tmp/wb/INSTRUCTIONS.txt
for p in "$@"; do
  rm -rf /tmp/wb/$p; mkdir -p /tmp/wb/$p
  rsync -a --exclude target --exclude .git /repo/ /tmp/wb/$p/
  (cd /tmp/wb/$p && git init -q && git add -A && git -c user.name=x -c user.email=x@x commit -qm pristine && mkdir OUT)
  python3 - "$p" <<'PY'
import json, sys
p = sys.argv[1]
for l in open('/verif/properties.jsonl'):
    d = json.loads(l)
    if d['id'] == p:
        out = 'Property %s: %s\n\n%s\n\nMechanism anchors (change one or two of these functions, keeping behaviour):\n' % (p, d['title'], d['statement'])
        for m in d['anchors']['mechanism']:
            out += '  - %s (%s)\n' % (m['name'], m['where'])
        open('/tmp/wb/%s.prop.txt' % p, 'w').write(out)
PY
done
ls /tmp/wb
