#!/bin/bash
# usage: tools/confirm_seed.sh <src-dir-with a/ b/ ...> <prop>   -- confirms seeded changes in a scratch worktree, copies confirmed ones to /verif/seeded/
# For every <dir>/<x>/{patch.diff,demo.rs,meta.json}:
#   1. patch applies to a pristine worktree of /repo HEAD
#   2. cargo test --offline and --features css pass with the patch
#   3. demo fails with the patch, passes without
set -u
SRC=$1; PROP=$2
WT=/tmp/seedcheck-$PROP
rm -rf $WT; git -C /repo worktree prune; git -C /repo worktree add -q --detach $WT HEAD || exit 2
cp -r /repo/target $WT/target 2>/dev/null
for d in $SRC/*/; do
  x=$(basename $d)
  id=$PROP-$x
  feat=$(python3 -c "import json;print(json.load(open('$d/meta.json')).get('demo_features',''))" 2>/dev/null)
  fa=""; [ -n "$feat" ] && fa="--features $feat"
  cd $WT && git checkout -q -- . && rm -rf tests
  if ! git apply --check $d/patch.diff 2>/dev/null; then echo "$id: PATCH-DOES-NOT-APPLY"; continue; fi
  git apply $d/patch.diff
  t1=$(cargo test --offline 2>&1 | grep -E "^test result" | head -1)
  t2=$(cargo test --offline --features css 2>&1 | grep -E "^test result" | head -1)
  mkdir -p tests && cp $d/demo.rs tests/demo.rs
  dm=$(cargo test --offline $fa --test demo 2>&1 | grep -E "^test result" | head -1)
  git checkout -q -- .
  dp=$(cargo test --offline $fa --test demo 2>&1 | grep -E "^test result" | head -1)
  rm -rf tests
  echo "$id: suite=[$t1] css=[$t2] demo_with_patch=[$dm] demo_pristine=[$dp]"
  ok=1
  echo "$t1" | grep -q "107 passed; 0 failed" || ok=0
  echo "$t2" | grep -q "146 passed; 0 failed" || ok=0
  echo "$dm" | grep -q "FAILED" || ok=0
  echo "$dp" | grep -q "ok\." || ok=0
  echo "$dp" | grep -q " 0 failed" || ok=0
  if [ $ok = 1 ]; then
    mkdir -p /verif/seeded/$id && cp $d/patch.diff $d/demo.rs /verif/seeded/$id/
    python3 - <<PY
import json
m=json.load(open('$d/meta.json'))
m['property']='$PROP'
m['confirmed']={'suite':'$t1','suite_css':'$t2','demo_with_patch':'$dm','demo_pristine':'$dp','how':'tools/confirm_seed.sh in scratch worktree of /repo HEAD'}
json.dump(m,open('/verif/seeded/$id/meta.json','w'),indent=1)
PY
    echo "$id: CONFIRMED"
  else
    echo "$id: REJECTED"
  fi
done
cd / && git -C /repo worktree remove --force $WT
