#!/usr/bin/env python3
"""Run checks against seeded changes on scratch copies of /repo/src (never touches /repo).
usage: tools/run_seeded.py [ids...] [--all-props] [--benign]   -> table: id, property, exit code of ./check <prop>, first VIOLATION line
--benign: take the behaviour-preserving changes of /verif/benign instead (expected: no VIOLATION from any check)"""
import json, os, shutil, subprocess, sys, tempfile, concurrent.futures as cf

VERIF = os.path.dirname(os.path.dirname(os.path.abspath(__file__)))
SET = 'benign' if '--benign' in sys.argv else 'seeded'

def run_one(sid, props):
    d = os.path.join(VERIF, SET, sid)
    tmp = tempfile.mkdtemp(prefix='seedrun-')
    try:
        shutil.copytree('/repo', tmp, ignore=shutil.ignore_patterns('target', '.git'), dirs_exist_ok=True)
        p = subprocess.run(['patch', '-p1', '-s', '-i', os.path.join(d, 'patch.diff')], cwd=tmp, capture_output=True, text=True)
        if p.returncode != 0:
            return sid, {'patch': 'DOES-NOT-APPLY ' + p.stdout[-200:]}
        res = {}
        for prop in props:
            env = dict(os.environ, VERIF_REPO=tmp, VERIF_EVID=os.path.join(tmp, 'evidence'))
            r = subprocess.run(['python3', '-m', 'vf.check', prop], cwd=VERIF, env=env, capture_output=True, text=True)
            lines = [l for l in r.stdout.split('\n') if l.startswith(('VIOLATION', 'UNDECIDED'))]
            nb = sum(1 for l in lines if l.startswith('VIOLATION') and ' bounded=' in l)
            nc = sum(1 for l in lines if l.startswith('VIOLATION') and ' unit=' in l)
            first_c = [l for l in lines if l.startswith('VIOLATION') and ' unit=' in l][:2]
            res[prop] = (r.returncode, 'contract=%d bounded=%d' % (nc, nb), first_c + [l for l in lines if l not in first_c][:3])
        return sid, res
    finally:
        shutil.rmtree(tmp, ignore_errors=True)

def main():
    args = [a for a in sys.argv[1:] if not a.startswith('--')]
    ids = args or sorted(os.listdir(os.path.join(VERIF, SET)))
    man = json.load(open(os.path.join(VERIF, 'MANIFEST.json')))
    claimed = [c['property_id'] for c in man['checks']]
    jobs = []
    for sid in ids:
        meta = json.load(open(os.path.join(VERIF, SET, sid, 'meta.json')))
        props = claimed if '--all-props' in sys.argv else [meta['property']]
        for a in sys.argv:
            if a.startswith('--also='):      # own property plus these
                props = props + [q for q in a[7:].split(',') if q in claimed and q not in props]
        jobs.append((sid, props))
    with cf.ThreadPoolExecutor(max_workers=5) as ex:
        for sid, res in ex.map(lambda j: run_one(*j), jobs):
            for prop, v in res.items():
                print(sid, prop, v)
            sys.stdout.flush()

if __name__ == '__main__':
    main()
