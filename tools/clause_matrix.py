#!/usr/bin/env python3
"""For every stored seeded change: which contract clauses fail (in any unit whose real text the change touches) and which
properties those clauses are tagged with.  Used to audit the tags: a change made to break property P that fails only
clauses not tagged P shows a clause whose tag set is too narrow (or a property with no clause at that place).
usage: tools/clause_matrix.py [ids...]            -> notes/clause_matrix.jsonl  (one line per change)
       tools/clause_matrix.py --one <id>          (worker; VERIF_REPO set by the master)"""
import json, os, shutil, subprocess, sys, tempfile, glob, concurrent.futures as cf

VERIF = os.path.dirname(os.path.dirname(os.path.abspath(__file__)))
SET = 'benign' if '--benign' in sys.argv else 'seeded'


def one(sid):
    sys.path.insert(0, VERIF)
    from vf.unit import Unit
    from vf.runner import run_unit
    meta = json.load(open(os.path.join(VERIF, SET, sid, 'meta.json')))
    out = {'id': sid, 'property': meta['property'], 'units': {}}
    for up in sorted(glob.glob(os.path.join(VERIF, 'units', '*.rs'))):
        name = os.path.basename(up)[:-3]
        try:
            u = Unit(up)
            u.build()
            changed = [it.name for it in u.items if it.changed]
        except Exception as e:
            out['units'][name] = {'status': 'weave: %s' % str(e)[:200]}
            continue
        if not changed:
            continue
        r = run_unit(up, keep=False)
        fs = []
        for f in r.failures:
            fs.append({'fn': f.function, 'labels': f.labels, 'tags': sorted(f.tags), 'msg': f.message[:80], 'inserted': f.on_inserted, 'displaced': (getattr(r, 'displaced_items', {}) or {}).get(f.function, 0)})
        out['units'][name] = {'status': r.status, 'changed': changed, 'reason': r.reason[:300], 'isolated': getattr(r, 'isolated', []), 'failures': fs}
    print('MATRIX ' + json.dumps(out))


def master(ids):
    def run(sid):
        tmp = tempfile.mkdtemp(prefix='cm-')
        try:
            shutil.copytree('/repo', tmp, ignore=shutil.ignore_patterns('target', '.git'), dirs_exist_ok=True)
            p = subprocess.run(['patch', '-p1', '-s', '-i', os.path.join(VERIF, SET, sid, 'patch.diff')], cwd=tmp, capture_output=True, text=True)
            if p.returncode != 0:
                return json.dumps({'id': sid, 'error': 'patch does not apply'})
            r = subprocess.run([sys.executable, os.path.abspath(__file__), '--one', sid] + (['--benign'] if SET == 'benign' else []), cwd=VERIF, env=dict(os.environ, VERIF_REPO=tmp), capture_output=True, text=True)
            for l in r.stdout.split('\n'):
                if l.startswith('MATRIX '):
                    return l[7:]
            return json.dumps({'id': sid, 'error': (r.stderr or r.stdout)[-400:]})
        finally:
            shutil.rmtree(tmp, ignore_errors=True)
    with cf.ThreadPoolExecutor(max_workers=6) as ex, open(os.path.join(VERIF, 'notes', 'clause_matrix%s.jsonl' % ('_benign' if SET == 'benign' else '')), 'a') as f:
        for line in ex.map(run, ids):
            f.write(line + '\n')
            f.flush()
            d = json.loads(line)
            fails = [(u, x['fn'], ','.join(x['labels']), ','.join(x['tags'])) for u, v in d.get('units', {}).items() for x in v.get('failures', [])]
            print(d['id'], d.get('property'), d.get('error', ''), {u: v.get('status') for u, v in d.get('units', {}).items()}, fails[:6])
            sys.stdout.flush()


if __name__ == '__main__':
    if '--one' in sys.argv:
        one(sys.argv[sys.argv.index('--one') + 1])
    else:
        master([a for a in sys.argv[1:] if not a.startswith('--')] or sorted(os.listdir(os.path.join(VERIF, SET))))
