#!/bin/bash
# usage: tools/prep_round.sh <PROP>...  — scratch copies /tmp/wt/<PROP> of /repo (pristine state committed in a fresh git
# repository), /tmp/wt/<PROP>.prop.txt (the property text plus one-line summaries of the changes already stored for it, so that a
# new change differs from them) and /tmp/wt/INSTRUCTIONS.txt for the sub-agents.  Nothing from /verif's checks is copied.
mkdir -p /tmp/wt; cp /verif/tools/seed_instructions.txt /tmp/wt/INSTRUCTIONS.txt
for p in "$@"; do
  rm -rf /tmp/wt/$p; mkdir -p /tmp/wt/$p
  rsync -a --exclude target --exclude .git /repo/ /tmp/wt/$p/
  (cd /tmp/wt/$p && git init -q && git add -A && git -c user.name=x -c user.email=x@x commit -qm pristine && mkdir OUT)
  python3 - "$p" <<'PY'
import json, sys, glob
p = sys.argv[1]
for l in open('/verif/properties.jsonl'):
    d = json.loads(l)
    if d['id'] == p:
        out = 'Property %s: %s\n\n%s\n\nQuantifier: %s\n\nMechanism anchors:\n' % (p, d['title'], d['statement'], d['quantifier']['text'])
        for m in d['anchors']['mechanism']:
            out += '  - %s (%s)\n' % (m['name'], m['where'])
        prev = []
        for f in sorted(glob.glob('/verif/seeded/%s-*/meta.json' % p)):
            try: prev.append(json.load(open(f)).get('summary', '')[:220])
            except Exception: pass
        if prev:
            out += '\nChanges of this kind that were already made by others (make a DIFFERENT one, in a different function if you can):\n' + ''.join('  * %s\n' % s for s in prev)
        open('/tmp/wt/%s.prop.txt' % p, 'w').write(out)
PY
done
ls /tmp/wt
