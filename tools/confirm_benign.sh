#!/bin/bash
# usage: tools/confirm_benign.sh <PROP>...  -- takes /tmp/wb/<PROP>/OUT/{patch.diff,demo.rs,meta.json} (a behaviour-preserving change written by
# a sub-agent), confirms in a scratch worktree of /repo HEAD that both suites pass with it and that its demonstration passes with and
# without it, and stores it as /verif/benign/<PROP>-<suffix>.  These changes must NOT make any check report a VIOLATION.
set -u
SUF=${SUFFIX:-a}
for PROP in "$@"; do
  d=/tmp/wb/$PROP/OUT
  [ -f $d/patch.diff ] || { echo "$PROP: deliverables missing"; continue; }
  WT=/tmp/benigncheck-$PROP
  rm -rf $WT; git -C /repo worktree prune; git -C /repo worktree add -q --detach $WT HEAD || exit 2
  feat=$(python3 -c "import json;print(json.load(open('$d/meta.json')).get('demo_features',''))" 2>/dev/null)
  fa=""; [ -n "$feat" ] && fa="--features $feat"
  cd $WT
  mkdir -p tests && cp $d/demo.rs tests/demo.rs
  dp=$(cargo test --offline $fa --test demo 2>&1 | grep -E "^test result" | head -1)
  if ! git apply --check $d/patch.diff 2>/dev/null; then echo "$PROP: PATCH-DOES-NOT-APPLY"; cd /; git -C /repo worktree remove --force $WT; continue; fi
  git apply $d/patch.diff
  dm=$(cargo test --offline $fa --test demo 2>&1 | grep -E "^test result" | head -1)
  rm -rf tests
  t1=$(cargo test --offline 2>&1 | grep -E "^test result" | head -1)
  t2=$(cargo test --offline --features css 2>&1 | grep -E "^test result" | head -1)
  echo "$PROP: suite=[$t1] css=[$t2] demo_with_patch=[$dm] demo_pristine=[$dp]"
  ok=1
  echo "$t1" | grep -q "107 passed; 0 failed" || ok=0
  echo "$t2" | grep -q "146 passed; 0 failed" || ok=0
  echo "$dm" | grep -q "ok\." || ok=0
  echo "$dp" | grep -q "ok\." || ok=0
  id=$PROP-$SUF
  if [ $ok = 1 ]; then
    mkdir -p /verif/benign/$id && cp $d/patch.diff $d/demo.rs /verif/benign/$id/
    python3 - <<PY
import json
m=json.load(open('$d/meta.json'))
m['property']='$PROP'
m['confirmed']={'suite':'$t1','suite_css':'$t2','demo_with_patch':'$dm','demo_pristine':'$dp','how':'tools/confirm_benign.sh in scratch worktree of /repo HEAD'}
json.dump(m,open('/verif/benign/$id/meta.json','w'),indent=1)
PY
    echo "$id: CONFIRMED"
  else
    echo "$id: REJECTED"
  fi
  cd /; git -C /repo worktree remove --force $WT
done
