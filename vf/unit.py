"""Unit files: annotated copies of real items.  Extract -> lower -> weave.

A unit file (units/<name>.rs) is a Verus source file in which
  * text outside //@item … //@end blocks is ours (prelude, spec fns, lemmas, impl headers);
  * inside an //@item block every line is either REAL (must equal, after the stated
    lowering, the text currently in /repo) or INSERTED (marked with a trailing `//@w`
    or enclosed in `//@w[` … `//@w]`).
On every run the real text is re-extracted from /repo, lowered, and the inserted
lines are transferred onto it by line alignment.  The verified file therefore
always contains the code that is in /repo now, plus contracts.
"""
import difflib
import hashlib
import os
import re

from . import rustscan
from .rustscan import ScanError

REPO = os.environ.get('VERIF_REPO', '/repo')

MARK_RE = re.compile(r'\s*//@w(\[|\])?((?:\s+(?:@C\d+|kf=\S+|#\S+))*)\s*$')


class UnitError(Exception):
    """Anything that makes the unit undecidable (exit 2): lost anchor, rule
    that no longer applies, malformed unit file."""


def lower_ref_mut(text):
    """R21: `ref mut` bindings -> default binding mode on a `&mut` scrutinee (Verus has no ref patterns):
         if let P(ref mut x) = PLACE {      ->  if let P(x) = &mut PLACE {
         match PLACE { P(ref mut x) => …    ->  match &mut PLACE { P(x) => …
    Same bindings (x: &mut T), same arm order.  Returns (text, number of rewrites)."""
    n = 0
    while True:
        m = re.search(r'\bif let ([^\n=]*\bref mut [^\n=]*) = ([A-Za-z_][A-Za-z0-9_\.]*) \{', text)
        if not m:
            break
        text = text[:m.start()] + 'if let ' + m.group(1).replace('ref mut ', '') + ' = &mut ' + m.group(2) + ' {' + text[m.end():]
        n += 1
    pos = 0
    while True:
        msk = rustscan.mask(text)
        m = re.compile(r'\bmatch ([A-Za-z_][A-Za-z0-9_\.]*) \{').search(msk, pos)
        if not m:
            break
        bo = m.end() - 1
        bc = rustscan.match_close(msk, bo)
        block = text[bo:bc]
        if 'ref mut ' in block:
            text = text[:m.start()] + 'match &mut ' + text[m.start(1):m.end(1)] + ' ' + block.replace('ref mut ', '') + text[bc:]
            n += 1
        pos = m.end()
    return text, n


def lower_for_continue(text):
    """R22: Verus has no `continue` in `for` loops.  A guard at the top level of a `for` body
         if COND { STMTS; continue; }  REST            ->  if COND { STMTS; } else { REST }
    (the `if` has no `else`, `continue;` is its last statement, unlabelled, and no loop lies between it and the `for`).
    Same control flow: REST runs exactly when the guard is not taken.  Applied whenever the shape occurs; any other use of
    `continue` is left alone (the front end then rejects the function: undecided).  Returns (text, number of rewrites)."""
    n = 0
    for _ in range(50):
        msk = rustscan.mask(text)
        done = True
        for m in re.finditer(r'\bcontinue\s*;', msk):
            c = m.start()
            # enclosing blocks of c, innermost first
            blocks = []
            depth_stack = []
            for i, ch in enumerate(msk[:c]):
                if ch == '{':
                    depth_stack.append(i)
                elif ch == '}':
                    if depth_stack:
                        depth_stack.pop()
            blocks = depth_stack[::-1]
            if len(blocks) < 2:
                continue
            if_bo, for_bo = blocks[0], blocks[1]
            try:
                if_bc = rustscan.match_close(msk, if_bo)
                for_bc = rustscan.match_close(msk, for_bo)
            except ScanError:
                continue
            # the innermost block is an `if` (not `else`, not `else if`) whose last statement is the continue
            stmt_start = max(msk.rfind(';', 0, if_bo), msk.rfind('}', 0, if_bo), msk.rfind('{', 0, if_bo)) + 1
            head = msk[stmt_start:if_bo].strip()
            if not re.match(r'if\b', head) or msk[m.end():if_bc].strip():
                continue
            if re.match(r'\s*else\b', msk[if_bc + 1:]):
                continue
            # the next block out is the body of a `for`
            fstart = max(msk.rfind(';', 0, for_bo), msk.rfind('}', 0, for_bo), msk.rfind('{', 0, for_bo)) + 1
            fhead = msk[fstart:for_bo].strip()
            if not re.match(r"(?:'[A-Za-z_][A-Za-z0-9_]*\s*:\s*)?for\b", fhead):
                continue
            rest = text[if_bc + 1:for_bc]
            indent = re.match(r'[ \t]*', text[rustscan.line_start(text, if_bo):]).group(0)
            text = text[:c] + text[m.end():if_bc + 1] + ' else {' + rest.rstrip(' \t') + indent + '}\n' + re.match(r'[ \t]*', text[rustscan.line_start(text, for_bc):]).group(0) + text[for_bc:]
            n += 1
            done = False
            break
        if done:
            break
    return text, n


def split_or_arms(text):
    """R15: a match arm `P1 | P2 | … => { body }` whose pattern binds by `ref mut` becomes one arm per
    alternative, each with the same body.  Returns (new_text, number_of_arms_split)."""
    msk = rustscan.mask(text)
    out = []
    last = 0
    n = 0
    for m in re.finditer(r'=>\s*\{', msk):
        arrow = m.start()
        bo = m.end() - 1
        try:
            be = rustscan.match_close(msk, bo)
        except ScanError:
            continue
        # scan backwards for the start of the pattern
        depth = 0
        j = arrow - 1
        start = None
        while j >= 0:
            ch = msk[j]
            if ch in ')}]':
                if ch == '}' and depth == 0:
                    start = j + 1
                    break
                depth += 1
            elif ch in '({[':
                if depth == 0:
                    start = j + 1
                    break
                depth -= 1
            elif ch == ',' and depth == 0:
                start = j + 1
                break
            j -= 1
        if start is None or start < last:
            continue
        pat = text[start:arrow]
        pm = msk[start:arrow]
        if 'ref mut' not in pm:
            continue
        # split on top-level '|'
        alts = []
        d = 0
        a0 = 0
        for k, ch in enumerate(pm):
            if ch in '({[':
                d += 1
            elif ch in ')}]':
                d -= 1
            elif ch == '|' and d == 0:
                alts.append(pat[a0:k])
                a0 = k + 1
        alts.append(pat[a0:])
        alts = [a for a in alts if a.strip()]
        if len(alts) < 2:
            continue
        body = text[bo:be + 1]
        lead = re.match(r'\s*', pat).group(0)
        indent = lead.split('\n')[-1]
        # comments inside the pattern stay with the first alternative
        pieces = []
        for ai, alt in enumerate(alts):
            a = alt.strip('\n')
            a = a.rstrip()
            if ai == 0:
                pieces.append(lead + a.lstrip() + ' => ' + body)
            else:
                pieces.append('\n' + indent + a.strip() + ' => ' + body)
        out.append(text[last:start])
        out.append(''.join(pieces))
        last = be + 1
        n += 1
    out.append(text[last:])
    return ''.join(out), n


class Line:
    __slots__ = ('text', 'kind', 'tags', 'kf', 'label', 'item', 'src', 'flags')

    def __init__(self, text, kind, tags=(), kf=None, label=None, item=None, src=None, flags=()):
        self.text = text
        self.kind = kind      # 'raw' | 'real' | 'ins'
        self.tags = tuple(tags)
        self.kf = kf
        self.label = label
        self.item = item      # index into unit.items
        self.src = src        # (file, line) for real lines
        self.flags = tuple(flags)


class Item:
    def __init__(self, kind, relpath, path_text):
        self.kind = kind            # 'item' | 'slice'
        self.relpath = relpath
        self.path_text = path_text
        self.subs = []              # (count, regex, repl)
        self.lowering_incomplete = []   # lowering rules that did not apply as declared on the current /repo text
        self.auto = ['C01']
        self.stored = []            # list of (text, is_ins, tags, kf, label)
        self.slice_anchors = None   # (start_re, end_re)
        self.trusted = False        # has #[verifier::external_body]
        self.drop_body = False
        self.name = path_text.split('::')[-1].strip().split()[-1]
        self.src_range = None
        self.sha256 = None
        self.changed = False        # real text differs from stored copy
        self.displaced = 0          # in-body inserted blocks whose neighbouring real lines changed
        self.rules = []
        self.keep_vis = False
        self.named_rules = []


def _parse_marker(line):
    m = MARK_RE.search(line)
    if not m:
        return None
    text = line[:m.start()]
    br = m.group(1)
    tags, kf, label = [], None, None
    for tok in m.group(2).split():
        if tok.startswith('@'):
            tags.append(tok[1:])
        elif tok.startswith('kf='):
            kf = tok[3:]
        elif tok.startswith('#'):
            label = tok[1:]
    return text, br, tags, kf, label


class Unit:
    def __init__(self, path):
        self.path = path
        self.name = os.path.splitext(os.path.basename(path))[0]
        self.verus_args = []
        self.items = []
        self.segments = []   # ('raw', [lines]) | ('item', idx)
        self.vis = 'private'
        self.kfs = set()
        self._parse()

    # ------------------------------------------------------------------ parse
    def _parse(self):
        raw = []
        cur = None
        block = None   # (tags, kf, label) when inside //@w[ … //@w]
        with open(self.path) as f:
            lines = f.read().split('\n')
        for ln, line in enumerate(lines, 1):
            s = line.strip()
            if cur is None:
                if s.startswith('//@verus-arg '):
                    self.verus_args.append(s[len('//@verus-arg '):].strip())
                elif s.startswith('//@vis '):
                    self.vis = s.split()[1]
                elif s.startswith('//@import '):
                    if raw:
                        self.segments.append(('raw', raw))
                        raw = []
                    self.segments.append(('import', s.split()[1]))
                elif s in ('//@export-begin', '//@export-end'):
                    raw.append(Line(s, 'raw', flags=(s[3:],)))
                elif s.startswith('//@item ') or s.startswith('//@slice '):
                    if raw:
                        self.segments.append(('raw', raw))
                        raw = []
                    kind = 'item' if s.startswith('//@item ') else 'slice'
                    spec = s.split(None, 1)[1]
                    relpath, _, rest = spec.partition('::')
                    cur = Item(kind, relpath.strip(), rest.strip())
                    if kind == 'slice':
                        m = re.match(r'(.*?)::\s*/(.*)/\s*\.\.\s*/(.*)/\s*$', rest.strip())
                        if not m:
                            raise UnitError('%s:%d: bad //@slice' % (self.path, ln))
                        cur.path_text = m.group(1).strip()
                        cur.slice_anchors = (m.group(2), m.group(3))
                        cur.name = cur.path_text.split('::')[-1].strip() + '#slice'
                elif s == '//@end':
                    raise UnitError('%s:%d: //@end outside item' % (self.path, ln))
                else:
                    pm = _parse_marker(line)
                    if pm and (pm[2] or pm[3]):
                        # tagged line outside an item (e.g. a lemma or a spec clause)
                        raw.append(Line(pm[0], 'raw', pm[2], pm[3], pm[4]))
                        if pm[3]:
                            self.kfs.add(pm[3].lstrip('!'))
                    else:
                        raw.append(Line(line, 'raw'))
                continue
            # inside an item
            if s == '//@end':
                if block is not None:
                    raise UnitError('%s:%d: unterminated //@w[' % (self.path, ln))
                self.items.append(cur)
                self.segments.append(('item', len(self.items) - 1))
                cur = None
            elif s.startswith('//@sub '):
                m = re.match(r'//@sub\s+(?:(\d+|\*)\s+)?/(.*)/\s*==>\s?(.*)$', s)
                if not m:
                    raise UnitError('%s:%d: bad //@sub' % (self.path, ln))
                cur.subs.append((m.group(1) or '1', m.group(2), m.group(3)))
            elif s.startswith('//@auto'):
                cur.auto = [t.lstrip('@') for t in s.split()[1:]]
            elif s.startswith('//@name '):
                cur.name = s.split(None, 1)[1]
            elif s == '//@keep-vis':
                cur.keep_vis = True
            elif s == '//@drop-body':
                # a real fn left under an assumed contract (external_body): its body is not needed and is dropped
                cur.drop_body = True
            elif s.startswith('//@rule '):
                cur.named_rules.append(s.split()[1])
            else:
                pm = _parse_marker(line)
                if pm:
                    text, br, tags, kf, label = pm
                    if br == '[':
                        block = (tags, kf, label)
                        if text.strip():
                            cur.stored.append((text, True, tags, kf, label))
                    elif br == ']':
                        if text.strip():
                            cur.stored.append((text, True) + block)
                        block = None
                    else:
                        cur.stored.append((text, True, tags, kf, label))
                    if kf:
                        self.kfs.add(kf.lstrip('!'))
                    if 'verifier::external_body' in text:
                        cur.trusted = True
                elif block is not None:
                    cur.stored.append((line, True) + block)
                    if 'verifier::external_body' in line:
                        cur.trusted = True
                else:
                    cur.stored.append((line, False, (), None, None))
        if cur is not None:
            raise UnitError('%s: unterminated item %s' % (self.path, cur.path_text))
        if raw:
            self.segments.append(('raw', raw))

    def tags(self):
        t = set()
        for it in self.items:
            t.update(it.auto)
            for st in it.stored:
                t.update(st[2])
        for kind, seg in self.segments:
            if kind == 'raw':
                for l in seg:
                    t.update(l.tags)
        return t

    def imports(self):
        return [seg for kind, seg in self.segments if kind == 'import']

    # ---------------------------------------------------------------- extract
    def _extract(self, it, cache):
        fpath = os.path.join(REPO, it.relpath)
        if fpath not in cache:
            with open(fpath) as f:
                src = f.read()
            cache[fpath] = (src, rustscan.mask(src))
        src, msk = cache[fpath]
        s, e, bo = rustscan.resolve(src, rustscan.parse_path(it.path_text), msk)
        if it.kind == 'slice':
            if bo is None or msk[bo] != '{':
                raise ScanError('slice host has no body: ' + it.path_text)
            a_re, b_re = it.slice_anchors
            body = src[bo + 1:e - 1]
            ms = [m for m in re.finditer(a_re, body)]
            if len(ms) != 1:
                raise ScanError('slice start anchor /%s/ matches %d times in %s' % (a_re, len(ms), it.path_text))
            a = rustscan.line_start(body, ms[0].start())
            me = [m for m in re.finditer(b_re, body[ms[0].end():])]
            if not me:
                raise ScanError('slice end anchor /%s/ not found in %s' % (b_re, it.path_text))
            b = rustscan.line_start(body, ms[0].end() + me[0].start())
            s, e = bo + 1 + a, bo + 1 + b
            bo = None
        text = src[s:e]
        first_line = src.count('\n', 0, s) + 1
        it.src_range = (it.relpath, first_line, first_line + text.count('\n'))
        it.sha256 = hashlib.sha256(text.encode()).hexdigest()
        return text, first_line, (bo - s if bo is not None else None)

    # ------------------------------------------------------------------ lower
    def _lower(self, it, text, body_open):
        """Returns list of (line_text, src_line_offset, flags)."""
        orig_lines = text.split('\n')
        rules = []
        it.lowering_incomplete = []
        if 'R15' in it.named_rules:
            text2, n15 = split_or_arms(text)
            if n15 == 0:
                raise UnitError('%s: rule R15 no longer applies in %s' % (self.name, it.path_text))
            rules.append('R15x%d' % n15)
            if body_open is not None:
                body_open = body_open   # the fn signature precedes every match arm: offset unchanged
            text = text2
        if 'R21' in it.named_rules:
            text, n21 = lower_ref_mut(text)
            rules.append('R21x%d' % n21)      # nothing to rewrite is logged, not an error
        if re.search(r'\bcontinue\s*;', text):
            text, n22 = lower_for_continue(text)
            if n22:
                rules.append('R22x%d' % n22)
        if 'R19' in it.named_rules:
            # `mut self` receiver: fn f(mut self, …) { … self … }  ->  fn f(self, …) { let mut this = self; … this … }
            m0 = rustscan.mask(text)
            mm = re.search(r'\(\s*mut self\b', m0)
            if not mm or body_open is None:
                raise UnitError('%s: rule R19 no longer applies in %s' % (self.name, it.path_text))
            head = text[:body_open + 1]
            body = text[body_open + 1:]
            bmask = m0[body_open + 1:]
            head = head[:mm.start()] + head[mm.start():mm.end()].replace('mut self', 'self') + head[mm.end():]
            pieces = []
            last = 0
            for w in re.finditer(r'\bself\b', bmask):
                pieces.append(body[last:w.start()] + 'this')
                last = w.end()
            pieces.append(body[last:])
            indent = re.match(r'\n?([ \t]*)', body).group(1)
            delta = len(head) - (body_open + 1)
            text = head + ' let mut this = self;' + ''.join(pieces)
            body_open = body_open + delta
            rules.append('R19')
        msk = rustscan.mask(text)
        edits = []   # (pos, kind)
        # R16: body-opening braces of the fn and of loops go on their own line
        is_fn = it.kind == 'item' and rustscan.parse_path(it.path_text)[-1][0] == 'fn'
        if not is_fn:
            body_open = None
        if body_open is not None and msk[body_open] == '{':
            edits.append(body_open)
        for m in re.finditer(r"(?m)^[ \t]*(?:'[A-Za-z_][A-Za-z0-9_]*\s*:\s*)?(while|for|loop)\b", msk):
            try:
                bo = rustscan.find_body_open(msk, m.end())
            except ScanError:
                continue
            if msk[bo] == '{':
                edits.append(bo)
        out = text
        nsplit = 0
        for pos in sorted(set(edits), reverse=True):
            ls = rustscan.line_start(out, pos)
            before = out[ls:pos]
            if before.strip():
                indent = re.match(r'[ \t]*', before).group(0)
                mark = '\x02' if pos == body_open else ''
                out = out[:pos].rstrip(' \t') + '\x01' + indent + mark + out[pos:]
                nsplit += 1
            elif pos == body_open:
                out = out[:pos] + '\x02' + out[pos:]
        if nsplit:
            rules.append('R16x%d' % nsplit)
        # R1: visibility
        if not it.keep_vis:
            m2 = rustscan.mask(out)
            pieces = []
            last = 0
            nvis = 0
            for m in re.finditer(r'(?m)^([ \t]*)pub(\([^)]*\))?[ \t]+', m2):
                pieces.append(out[last:m.start()] + m.group(1) + ('pub ' if self.vis == 'pub' else ''))
                last = m.end()
                nvis += 1
            pieces.append(out[last:])
            out = ''.join(pieces)
            if nvis:
                rules.append('R1x%d' % nvis)
            if self.vis == 'pub' and it.kind == 'item':
                lk = rustscan.parse_path(it.path_text)[-1][0]
                if lk in ('struct', 'enum'):
                    # R1 (pub mode): the item and every named field become pub
                    out = re.sub(r'(?m)^([ \t]*)(struct|enum)\b', r'\1pub \2', out, count=1)
                    if lk == 'struct':
                        out, nf = re.subn(r'(?m)^([ \t]+)(?!pub\b)([a-z_][A-Za-z0-9_]*[ \t]*:)', r'\1pub \2', out)
                        rules.append('R1pubx%d' % nf)
        # declared substitutions
        for count, rx, repl in it.subs:
            new, n = re.subn(rx, repl.replace('\\n', '\x01'), out)
            # A lowering rule that finds nothing to rewrite is not an error: the text is then passed on as it is
            # (Verus accepts it or reports the unsupported construct); the count is logged.
            out = new
            as_expected = (count == '*' and n > 0) or (count != '*' and n == int(count))
            if not as_expected:
                # the construct this rule rewrites into something with a specification is no longer where it was: whatever replaced
                # it reaches the verifier unlowered (e.g. `%` on i64 instead of i64_rem), so a failed proof of this function proves nothing
                it.lowering_incomplete.append('sub /%s/ applied %d times, expected %s' % (rx, n, count))
            rules.append('sub/%s/x%d%s' % (rx, n, '' if as_expected else ' (expected %s)' % count))
        it.rules = rules
        res = []
        for off, l in enumerate(out.split('\n')):
            for part in l.split('\x01'):
                flags = ()
                if '\x02' in part:
                    part = part.replace('\x02', '')
                    flags = ('body_open',)
                res.append((part, off, flags))
        while res and not res[-1][0].strip():
            res.pop()
        if 'R15' in it.named_rules:
            # duplicated arms: recover source line offsets by matching line text
            norm = [l.strip() for l in orig_lines]
            p = 0
            fixed = []
            for (t, off, fl) in res:
                tt = t.strip()
                k = None
                if tt:
                    for q in range(p, len(norm)):
                        if norm[q] == tt:
                            k = q
                            break
                    if k is None:
                        for q in range(0, p):
                            if norm[q] == tt:
                                k = q
                                break
                if k is not None and k >= p:
                    p = k
                fixed.append((t, k if k is not None else p, fl))
            res = fixed
        return res

    # ------------------------------------------------------------------ weave
    @staticmethod
    def _norm(t):
        t = t.strip()
        if not t or (t.startswith('//') and not t.startswith('//@')):
            return None
        return re.sub(r'\s+', ' ', t)

    def _weave(self, it, idx, lowered, first_line, kf_on):
        stored_real = [(i, self._norm(st[0])) for i, st in enumerate(it.stored) if not st[1]]
        stored_real = [(i, t) for i, t in stored_real if t is not None]
        new_real = [(j, self._norm(l[0])) for j, l in enumerate(lowered)]
        new_real = [(j, t) for j, t in new_real if t is not None]
        a = [t for _, t in stored_real]
        b = [t for _, t in new_real]
        it.changed = (a != b)
        # map: stored real ordinal -> new real ordinal (anchor "after")
        amap = {}
        if not it.changed:
            amap = {k: k for k in range(len(a))}
        else:
            sm = difflib.SequenceMatcher(None, a, b, autojunk=False)
            for tag, i1, i2, j1, j2 in sm.get_opcodes():
                if tag == 'equal':
                    for k in range(i2 - i1):
                        amap[i1 + k] = j1 + k
                elif tag == 'replace':
                    if i2 - i1 == j2 - j1:
                        for k in range(i2 - i1):
                            amap[i1 + k] = j1 + k
                    else:
                        # blocks of different length (a line was added or removed next to changed ones): align each old line with
                        # the most similar new line, in order, so that e.g. a loop header keeps its invariant block
                        last = j1 - 1
                        for k in range(i1, i2):
                            best, bj = 0.0, None
                            for j in range(max(last, j1), j2):
                                r = difflib.SequenceMatcher(None, a[k], b[j], autojunk=False).ratio()
                                if r > best:
                                    best, bj = r, j
                            if bj is not None and best >= 0.55:
                                amap[k] = bj
                                last = bj
                            else:
                                amap[k] = last
                elif tag == 'delete':
                    for k in range(i1, i2):
                        amap[k] = j1 - 1   # after the line before the deletion (may be -1)
        # R23 local renames: when replaced line pairs differ only in identifiers, consistently (old -> new), the old name is gone from the
        # new text and the new name did not occur in the old one, the inserted lines follow the rename (they talk about the same variable)
        renames = {}
        if it.changed:
            tok = lambda t: re.findall(r"[A-Za-z_][A-Za-z0-9_]*|\S", t)
            ident = re.compile(r'^[A-Za-z_][A-Za-z0-9_]*$')
            cand, bad = {}, set()
            for tag, i1, i2, j1, j2 in sm.get_opcodes():
                if tag != 'replace' or i2 - i1 != j2 - j1:
                    continue
                for k in range(i2 - i1):
                    ta, tb = tok(a[i1 + k]), tok(b[j1 + k])
                    if len(ta) != len(tb):
                        continue
                    for x, y in zip(ta, tb):
                        if x != y:
                            if ident.match(x) and ident.match(y):
                                if cand.setdefault(x, y) != y:
                                    bad.add(x)
                            else:
                                bad.add(x)
            old_toks = set(t for line in a for t in tok(line))
            new_toks = set(t for line in b for t in tok(line))
            kw = {'self', 'Self', 'mut', 'let', 'if', 'else', 'match', 'for', 'while', 'loop', 'return', 'true', 'false', 'in', 'as', 'ref', 'fn', 'break', 'continue'}
            for x, y in cand.items():
                if x in bad or x in kw or y in kw or x in new_toks or y in old_toks or list(cand.values()).count(y) != 1:
                    continue
                renames[x] = y
        it.renames = dict(renames)
        # proof steps whose surroundings changed: an inserted block inside the body (not the contract header) is *displaced* when the
        # real line it follows or the real line it precedes is not carried over unchanged and adjacent — the hint may now sit at the wrong
        # program point (before instead of after the statement it talks about), so a failing obligation may be a lost hint, not a defect
        it.displaced = 0
        if it.changed:
            eq = set()
            for tag, i1, i2, j1, j2 in sm.get_opcodes():
                if tag == 'equal':
                    eq.update(range(i1, i2))
            in_body = False
            ordinal = -1
            s2o = {i: k for k, (i, _) in enumerate(stored_real)}
            for i, st in enumerate(it.stored):
                if not st[1]:
                    if i in s2o:
                        ordinal = s2o[i]
                    if st[0].strip() == '{' and not in_body:
                        in_body = True
                    continue
                if not in_body:
                    continue
                before_ok = ordinal < 0 or ordinal in eq
                after_ok = ordinal + 1 >= len(a) or ((ordinal + 1) in eq and (ordinal < 0 or amap.get(ordinal + 1) == amap.get(ordinal, -1) + 1))
                if not (before_ok and after_ok):
                    it.displaced += 1
        # insertion blocks keyed by the new real ordinal they follow
        after = {}
        ordinal = -1
        sidx_to_ord = {i: k for k, (i, _) in enumerate(stored_real)}
        for i, st in enumerate(it.stored):
            if st[1]:
                tgt = amap.get(ordinal, -1) if ordinal >= 0 else -1
                after.setdefault(tgt, []).append(st)
            elif i in sidx_to_ord:
                ordinal = sidx_to_ord[i]
        out = []

        def emit_ins(lst):
            for (text, _, tags, kf, label) in lst:
                if kf and kf.startswith('!'):
                    if kf_on:
                        continue     # known-failing clause: only checked in the strict run
                elif kf and not kf_on:
                    continue
                if renames:
                    head, sep, tail = text.partition('//@w')
                    for x, y in renames.items():
                        head = re.sub(r'\b%s\b' % re.escape(x), y, head)
                    text = head + sep + tail
                out.append(Line(text, 'ins', tags, kf, label, idx))
        emit_ins(after.get(-1, []))
        jord = {j: k for k, (j, _) in enumerate(new_real)}
        for j, (text, off, flags) in enumerate(lowered):
            out.append(Line(text, 'real', (), None, None, idx, (it.relpath, first_line + off), flags))
            if j in jord:
                emit_ins(after.get(jord[j], []))
        return out

    # ------------------------------------------------------------------ build
    def build(self, kf_on=True, vacuity=False, isolate=()):
        """Returns list[Line] of the woven file.  `isolate`: indices of fn items whose body could not be
        processed (rustc / VIR error inside it): their body is dropped and the fn kept under its contract
        (external_body) so that every other function is still decided; the isolated fn itself is undecided."""
        cache = {}
        out = []
        for kind, seg in self.segments:
            if kind == 'raw':
                for l in seg:
                    if l.kf and l.kf.startswith('!'):
                        if kf_on:
                            continue
                    elif l.kf and not kf_on:
                        continue
                    out.append(l)
                continue
            if kind == 'import':
                out.extend(self._import(seg, kf_on))
                continue
            it = self.items[seg]
            try:
                text, first_line, bo = self._extract(it, cache)
            except (ScanError, OSError) as e:
                raise UnitError('%s: %s' % (self.name, e))
            lowered = self._lower(it, text, bo)
            woven = self._weave(it, seg, lowered, first_line, kf_on)
            if seg in isolate and it.kind == 'slice':
                # a slice is a body fragment in a wrapper of its own: nothing refers to it, so it is left out as a whole
                out.append(Line('// isolated: slice %s not processable, left undecided' % it.name, 'raw'))
                continue
            if seg in isolate or it.drop_body:
                res = [] if it.drop_body else [Line('#[verifier::external_body] // isolated: body not processable, contract assumed for callers', 'raw')]
                for l in woven:
                    if 'body_open' in l.flags:
                        res.append(Line(l.text[:len(l.text) - len(l.text.lstrip())] + '{ unimplemented!() }', 'raw', (), None, None, seg))
                        break
                    res.append(l)
                out.extend(res)
                continue
            if vacuity and not it.trusted:
                res = []
                done = False
                pending = False
                for l in woven:
                    if pending and not (l.kind == 'ins' and l.text.strip().startswith(('hide(', 'reveal('))):
                        res.append(Line('assert(false); //@vac', 'ins', (), None, 'vac', seg))
                        pending = False
                        done = True
                    res.append(l)
                    if not done and 'body_open' in l.flags:
                        pending = True
                if it.kind == 'slice':
                    # slices: the wrapper fn is inserted text; put the probe before the first real line
                    res = []
                    done = False
                    for l in woven:
                        if not done and l.kind == 'real':
                            res.append(Line('assert(false); //@vac', 'ins', (), None, 'vac', seg))
                            done = True
                        res.append(l)
                woven = res
            out.extend(woven)
        # several imports may each declare the platform word size: keep the first declaration
        seen = False
        res = []
        for l in out:
            if l.text.strip().startswith('global size_of usize'):
                if seen:
                    continue
                seen = True
            res.append(l)
        return res

    def _import(self, name, kf_on):
        """Lines of another unit's exported region with every verified fn body made external_body:
        the contracts are textually the ones proved in that unit; bodies are not re-verified here."""
        other = Unit(os.path.join(os.path.dirname(self.path), name + '.rs'))
        lines = other.build(kf_on=kf_on)
        inside = False
        out = []
        marked = set()
        skipping = set()
        for l in lines:
            if 'export-begin' in l.flags:
                inside = True
                continue
            if 'export-end' in l.flags:
                inside = False
                continue
            if not inside:
                continue
            nl = Line(l.text, 'raw' if l.kind != 'ins' else 'ins', l.tags, l.kf, l.label, None, l.src, ())
            if l.item is not None:
                it = other.items[l.item]
                is_fn = it.kind == 'item' and rustscan.parse_path(it.path_text)[-1][0] == 'fn'
                if is_fn and not it.trusted:
                    if l.item in skipping:
                        continue
                    if l.item not in marked:
                        marked.add(l.item)
                        out.append(Line('#[verifier::external_body] // imported from unit %s: contract proved there' % name, 'raw'))
                    if 'body_open' in l.flags:
                        # the body is not re-verified here: drop it
                        out.append(Line(l.text[:len(l.text) - len(l.text.lstrip())] + '{ unimplemented!() }', 'raw'))
                        skipping.add(l.item)
                        continue
            out.append(nl)
        if not out:
            raise UnitError('%s: import %s has no //@export-begin … //@export-end region' % (self.name, name))
        self.imported_trusted = getattr(self, 'imported_trusted', []) + [
            '%s::%s (contract proved in unit %s)' % (name, it.name, name) for it in other.items
            if it.kind == 'item' and rustscan.parse_path(it.path_text)[-1][0] == 'fn']
        return out

    def unweave_ok(self, lines, skip=()):
        """Strip every inserted line and compare with a fresh lowering of /repo."""
        cache = {}
        for idx, it in enumerate(self.items):
            if idx in skip or it.drop_body:
                continue
            text, first_line, bo = self._extract(it, cache)
            lowered = [l[0] for l in self._lower(it, text, bo)]
            got = [l.text for l in lines if l.item == idx and l.kind == 'real']
            if got != lowered:
                return False, it.path_text
        return True, None
