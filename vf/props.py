"""Per-property metadata used for MANIFEST.json and evidence files."""

NOT_APPLICABLE = {
    'C10': 'Route agreement, determinism and tree reuse are relations between runs and call histories over html5ever / LinkedList / '
           'iterator glue that neither Verus nor Kani can ingest; no function-level contract expresses them (DESIGN.md §5).',
    'C17': 'Quantifies over the nom CSS grammar on str bytes: Verus has no byte-level str reasoning or specs for external generic '
           'combinators, Kani does not finish 3 symbolic bytes of string code here (DESIGN.md §5). Integer-conversion panics of the '
           'parser are covered under C01.',
}

_COMMON_NOTE = ('Trusted: Verus 0.2026.09.13 + bundled Z3; the lowering rules of DESIGN.md §2.3 (each application logged in the '
                'evidence); std/unicode-width contracts in each unit prelude (listed as trusted_base in the evidence on every run); '
                'boundary preconditions (widths below 2^62). ')

PROPS = {
    'C01': {
        'text': 'Proof, per function under contract: Verus discharges every automatic panic obligation (overflow, underflow, index, '
                'slice boundary, unwrap, division by zero, debug_assert, unreachable) and a decreases clause for every loop of the '
                'real functions woven into the units, for all arguments. Totality of the whole render call is not claimed: html5ever, '
                'tree_map_reduce and the DOM match are outside the units.',
        'unverified': ['html5ever/TreeSink glue, tree_map_reduce, Drop for Node, process_dom_node match, nom grammar: not under contract',
                       'stack depth of recursive Selector::do_matches not modelled'],
    },
    'C02': {
        'text': 'Proof: the width invariant (line.len <= width; every emitted line <= width unless overflow allowed) is a postcondition '
                'of every WrappedBlock operation, the sub-width arithmetic of width_minus and the table column allocation are proved '
                'against their specs for all arguments.',
        'unverified': ['append_subrender / append_columns_with_borders glue beyond the verified slices',
                       'display-width additivity axiom A2'],
    },
    'C03': {'text': 'Proof for the text engine and table allocation only: flushing keeps the buffered content; cells with positive width are kept in order.',
            'unverified': ['DOM -> render tree mapping (what is ignored / becomes a container) is not under contract']},
    'C04': {'text': 'Proof: the greedy fit rule of flush_word and the whitespace-collapse rule of add_text are postconditions on the real functions; effective widths come from width_minus / get_wrapping_or_insert.',
            'unverified': ['reference greedy wrapper equality is stated per step (fit test), not over whole paragraphs']},
    'C05': {'text': 'Proof: BorderHoriz operations against an abstract (bar above, bar below) view per position with full frame conditions; the glyph table is proved against the junction rule quoted from the property.',
            'unverified': ['row-emission loop of append_columns_with_borders (closures over LinkedList)']},
    'C06': {'text': 'Proof for allocation and cell/width assignment: sum of column widths plus separators <= width, no column below its minimum, loop terminates.',
            'unverified': ['zipping of cell sub-renderers in render_table_row closures']},
    'C07': {'text': 'Proof for numbering arithmetic and widths: ordered-list prefix size formula, no overflow for every i64 start, sub-renderer width from width_minus.',
            'unverified': ['append_subrender zip with the prefix iterator']},
    'C08': {'text': 'Proof: reference number equals the position of the link in TextRenderer.links; footnote list on/off switch; default finalise numbering.',
            'unverified': ['sharing of the one links vector across sub-renderers holds by construction (single field), empty-link removal in process_dom_node']},
    'C09': {'text': 'Proof of the annotation stack discipline: start_X pushes exactly one annotation, end_X pops it, add_inline_text tags text with the current stack and leaves the stack unchanged.',
            'unverified': ['that do_render_node calls end_X for every start_X (closures given to pending2)']},
    'C11': {'text': 'Proof: width_minus is total under allow_width_overflow and returns the same value whenever it already succeeded; every fallible WrappedBlock function returns Ok when overflow is allowed.',
            'unverified': ['document-level bound on the overflow width (composition over the render tree)']},
    'C12': {'text': 'Proof for the preformatted branch of the text engine: newline emits one line, tab advances to the next multiple of 8 with at least one space, width invariant kept.',
            'unverified': ['<pre> -> white-space: pre mapping in the DOM pass']},
    'C13': {'text': 'Proof for the engine: in collapsing mode a whitespace character changes state only by recording one pending space when the line is non-empty and none is pending, so whitespace runs are equivalent to one space.',
            'unverified': ['comment/span transparency in the DOM pass']},
    'C14': {'text': 'Proof: insert_child places the marker first; flush paths keep every non-string element of the word; markers have zero width.',
            'unverified': ['id/name extraction in process_dom_node']},
    'C15': {'text': 'Proof: each builder method changes exactly its field(s); wrap width is min(max_wrap_width, width); pad_to only appends spaces.',
            'unverified': ['table border switches inside closures of render_table_row']},
    'C16': {'text': 'Proof of prefix measurement under a decorator contract allowing arbitrary strings; TrivialDecorator returns only empty strings.',
            'unverified': ['affix placement relies on the start/end contracts of U-SR']},
    'C18': {'text': 'Proof for the mechanism only: styles_from_properties emits Display(None) exactly for display:none and the zero-height + hidden-overflow idiom.',
            'unverified': ['"renders as if deleted" relation over documents']},
    'C19': {'text': 'Proof: WithSpec::maybe_update replaces the stored value exactly when the cascade key (importance/origin rank, specificity) of the new declaration is >= the stored one, for all keys; Specificity order is lexicographic.',
            'unverified': ['nearest-ancestor colour nesting relies on push/pop pairing in closures']},
    'C20': {'text': 'Proof (partial correctness) that the real Selector::do_matches / matches return exactly the CSS selector semantics '
                    '(class, id, element name, universal, child and descendant combinators as "some proper ancestor", :nth-child(an+b of S) '
                    'as rank among matching element siblings) over the repository\'s own DOM types; :nth-child arithmetic against the '
                    'integer-existential spec; specificity counting.',
            'unverified': ['termination of the do_matches recursion is not proved (exec_allows_no_decreases_clause)',
                           'A10 the DOM is not mutated during matching: RefCell contents are a function of the cell',
                           'A11 tree shape delivered by html5ever: a node is among the children of its parent exactly once, fewer than 2^31 children, '
                           'parents are elements or the document, the document has no parent (axiom_tree, get_parent contract)',
                           'string comparisons on html5ever LocalName / StrTendril and str::split_whitespace are named trusted functions with uninterpreted results',
                           'selector parsing (src/css/parser.rs) and selector lists / rule application are not under contract']},
}

for _p in PROPS.values():
    _p['note'] = _COMMON_NOTE
