"""Per-property metadata used for MANIFEST.json and evidence files."""

NOT_APPLICABLE = {
    'C10': 'Route agreement, determinism and tree reuse are relations between runs and call histories over html5ever / LinkedList / '
           'iterator glue that neither Verus nor Kani can ingest; no function-level contract expresses them (DESIGN.md §5).',
    'C17': 'Quantifies over the nom CSS grammar on str bytes: Verus has no byte-level str reasoning or specs for external generic '
           'combinators, Kani does not finish 3 symbolic bytes of string code here (DESIGN.md §5). Integer-conversion panics of the '
           'parser are covered under C01.',
}

_COMMON_NOTE = ('Trusted: Verus 0.2026.09.13 + bundled Z3; the lowering rules of DESIGN.md §2.3 (each application logged in the '
                'evidence); std/unicode-width contracts in each unit prelude (listed as trusted_base in the evidence on every run); '
                'boundary preconditions (widths below 2^62). ')

PROPS = {
    'C01': {
        'text': 'Proof, per function under contract: Verus discharges every automatic panic obligation (overflow, underflow, index, '
                'slice boundary, unwrap/expect, division by zero, debug_assert, unreachable) and a decreases clause for every loop of the '
                'real functions woven into the units, for all arguments (do_matches: partial correctness). Totality of the whole render '
                'call is not proved: html5ever, tree_map_reduce and the DOM match are outside the units.',
        'unverified': ['html5ever/TreeSink glue, tree_map_reduce, Drop for Node, process_dom_node match, nom grammar: not under contract',
                       'termination / stack depth of recursive Selector::do_matches'],
    },
    'C02': {
        'text': 'Proof: the width invariant (line.len <= width; every emitted line <= width unless overflow allowed) is a postcondition '
                'of every WrappedBlock operation and part of the SubRenderer invariant (every finished line fits); sub-widths from '
                'width_minus, prefixes of append_subrender, footnote lines of fmt_links, table column allocation, cell widths and the row '
                'drawing loop (every row line has the row width) are proved against their specs for all arguments.',
        'unverified': ['composition over the render tree (do_render_node closures)', 'display-width additivity axiom A2'],
    },
    'C03': {'text': 'Proof: add_text and add_inline_text hand exactly the kept characters of the (filtered) text to the block, in order; every line '
                    'operation of the engine keeps the buffered content; add_line / append_subrender / collapse loops only add or move whole lines; '
                    'table cells with a positive width are kept in order.  Renderer level: closing a block moves all its characters to the renderer\'s lines '
                    '(the view finished lines ++ pending markers ++ open block is kept by every block / line / rule operation, extended by add_inline_text by exactly '
                    'the kept characters and by append_subrender by every nested line behind its prefix).',
            'unverified': ['DOM -> render tree mapping (what is ignored / becomes a container; findings D19, D20)', 'the order in which do_render_node calls the renderer operations']},
    'C04': {'text': 'Proof: the greedy fit rule of flush_word and the whitespace-collapse rule of add_text are postconditions on the real functions; effective widths come from width_minus / get_wrapping_or_insert.',
            'unverified': ['reference greedy wrapper equality is stated per step (fit test), not over whole paragraphs']},
    'C05': {'text': 'Proof: BorderHoriz operations against an abstract (bar above, bar below) view per position with full frame conditions; the glyph table against the '
                    'junction rule quoted from the property; the join and collapse loops of append_columns_with_borders place junctions at exactly the separator / column '
                    'offsets; every line of a row is drawn with the row width, cells in their columns.',
            'unverified': ['the collection closure chain of append_columns_with_borders apart from its per-line step', 'render_table_tree outside the allocation slices']},
    'C06': {'text': 'Proof for allocation and cell/width assignment: sum of column widths plus separators <= width, no column below its minimum, loop terminates; '
                    'cells get the widths of their columns plus the separators between the drawn ones (D15 side condition).',
            'unverified': ['zipping of cell sub-renderers in render_table_row closures', 'RenderTable::new column remapping']},
    'C07': {'text': 'Proof for numbering arithmetic and widths: ordered-list prefix size formula, no overflow for every i64 start, common marker width, padding by display width, '
                    'sub-renderer width from width_minus, prefix in front of every line (append_subrender).',
            'unverified': ['the closures that connect the slices inside do_render_node']},
    'C08': {'text': 'Proof: reference number equals the position of the link in TextRenderer.links; footnote list on/off switch; default finalise numbers footnote k with k; fmt_links line k is "[k]: target".',
            'unverified': ['render_tree_to_string glue and empty-link removal in process_dom_node (bounded stand-in only)']},
    'C09': {'text': 'Proof of the annotation stack discipline and of tagging: start_X pushes exactly one annotation, end_X pops it; every character that reaches the block through '
                    'add_inline_text is tagged with the current stack (continuation tag after a <pre> wrap); new_sub_renderer copies the stack; merging keeps tags.',
            'unverified': ['that do_render_node calls end_X for every start_X and new_sub_renderer on the innermost renderer (bounded stand-in only)']},
    'C11': {'text': 'Proof: width_minus is total under allow_width_overflow and returns the same value whenever it already succeeded; every fallible function under contract returns Ok when overflow is allowed; an overflowing line is one wide character.',
            'unverified': ['document-level composition over the render tree']},
    'C12': {'text': 'Proof for the preformatted branch of the text engine: newline emits one line, tab advances to the next multiple of 8 with at least one space, pre_wrapped / continuation tag, width invariant kept.',
            'unverified': ['<pre> -> white-space: pre mapping in the DOM pass']},
    'C13': {'text': 'Proof for the engine: in collapsing mode a whitespace character changes state only by recording one pending space when the line is non-empty and none is pending, so whitespace runs are equivalent to one space; whitespace between blocks is ignored.',
            'unverified': ['comment/span transparency in the DOM pass (bounded stand-in only)']},
    'C14': {'text': 'Proof: insert_child places the marker first (for a table, row group or row: in the first cell that is not definitely empty, else the first cell — first_cell_with_content, D27); flush paths keep every non-string element of the word; markers have zero width; pending markers go to the next text line exactly once and stay pending across borders; record_frag_start appends exactly one marker to the renderer\'s view; into_lines keeps markers left alone in the line buffer (D18).',
            'unverified': ['id/name extraction in process_dom_node (bounded stand-in only)']},
    'C15': {'text': 'Proof: each builder method changes exactly its field(s); wrap width is min(max_wrap_width, width); pad_to only appends spaces; strike-through filter and footnote switches follow the options.',
            'unverified': ['table border switches inside closures of render_table_row']},
    'C16': {'text': 'Proof of prefix measurement by display width under a decorator contract allowing arbitrary strings; prefixes in front of every line; inline affixes reach the block verbatim outside the element\'s own filter; TrivialDecorator returns only empty strings.',
            'unverified': ['decorator strings are spec functions of the decorator (A6: deterministic decorators)']},
    'C18': {'text': 'Proof for the mechanism: styles_from_properties emits Display(None) exactly for display:none and the zero-height + hidden-overflow idiom, and a declaration of its own for every other display value (so that it can win in the cascade: D23); which display declaration wins: the cascade clauses of WithSpec::maybe_update, Specificity ordering and computed_style (shared with C19); document CSS switch plumbing.',
            'unverified': ['"renders as if deleted" relation over documents: process_dom_node early return (bounded stand-in only)']},
    'C19': {'text': 'Proof: WithSpec::maybe_update replaces the stored value exactly when the cascade key (importance/origin rank, specificity) of the new declaration is >= the stored one, for all keys; Specificity order is lexicographic, counting saturating and recursive; computed_style offers every declaration of every matching rule of the three origins in order, then the style / color / bgcolor attributes as author declarations of inline specificity with their own importance.',
            'unverified': ['rule storage (which rules reach the three rule sets); nearest-ancestor colour nesting relies on push/pop pairing in closures']},
    'C20': {'text': 'Proof (partial correctness) that the real Selector::do_matches / matches return exactly the CSS selector semantics '
                    '(class, id, element name, universal = any element, child and descendant combinators as "some proper ancestor", :nth-child(an+b of S) '
                    'as rank among matching element siblings) over the repository\'s own DOM types; :nth-child arithmetic against the '
                    'integer-existential spec; specificity counting.',
            'unverified': ['termination of the do_matches recursion is not proved (exec_allows_no_decreases_clause)',
                           'A10 the DOM is not mutated during matching: RefCell contents are a function of the cell',
                           'A11 tree shape delivered by html5ever: a node is among the children of its parent exactly once, fewer than 2^31 children, '
                           'parents are elements or the document, the document has no parent (axiom_tree, get_parent contract)',
                           'string comparisons on html5ever LocalName / StrTendril and str::split_whitespace are named trusted functions with uninterpreted results',
                           'selector parsing (src/css/parser.rs) and rule application are not under contract (bounded stand-in only)']},
}

from .bounded import MODES as _BMODES
for _k, _p in PROPS.items():
    _p['note'] = _COMMON_NOTE
    if _k in _BMODES:
        _p['text'] += (' Beside the proof, a BOUNDED stand-in (labelled bounded in the evidence, never counted as proved) exercises the driver functions '
                       'no verifier here can ingest through the public API: ' + ', '.join(_BMODES[_k]) + ' (bounds stated in the evidence).')
