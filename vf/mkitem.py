"""Bootstrap: print an //@item block with the lowered real text from /repo.
usage: python3 -m vf.mkitem <relpath> '<item path>' [more paths...]"""
import sys
from .unit import Unit, Item
from . import rustscan


class _U(Unit):
    def __init__(self):
        self.name = 'mk'
        self.vis = 'private'
        self.items = []


def main():
    rel = sys.argv[1]
    u = _U()
    rules = [a.split('=')[1] for a in sys.argv if a.startswith('--rule=')]
    for p in [a for a in sys.argv[2:] if not a.startswith('--')]:
        it = Item('item', rel, p)
        it.named_rules = rules
        text, first, bo = u._extract(it, {})
        low = u._lower(it, text, bo)
        print('//@item %s :: %s' % (rel, p))
        for l in low:
            print(l[0])
        print('//@end')


if __name__ == '__main__':
    main()
