"""setup_cmd: nothing to build (pure python + verus on PATH); verify the tools are reachable."""
import shutil
import sys


def main():
    ok = True
    for tool in ('verus',):
        p = shutil.which(tool)
        print('%s: %s' % (tool, p))
        ok = ok and bool(p)
    sys.exit(0 if ok else 1)


if __name__ == '__main__':
    main()
