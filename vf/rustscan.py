"""Rust-aware text scanner: masks comments / literals, finds items by path.

Fails closed: every lookup returns exactly one range or raises ScanError.
"""
import re


class ScanError(Exception):
    pass


def mask(src):
    """Return a string of the same length as src where the contents of
    comments, string literals and char literals are replaced by spaces
    (newlines kept), so that brace matching and structural regexes are safe."""
    out = list(src)
    n = len(src)
    i = 0

    def blank(a, b):
        for k in range(a, b):
            if out[k] != '\n':
                out[k] = ' '

    while i < n:
        c = src[i]
        if c == '/' and i + 1 < n and src[i + 1] == '/':
            j = src.find('\n', i)
            if j < 0:
                j = n
            blank(i, j)
            i = j
        elif c == '/' and i + 1 < n and src[i + 1] == '*':
            depth = 1
            j = i + 2
            while j < n and depth > 0:
                if src.startswith('/*', j):
                    depth += 1
                    j += 2
                elif src.startswith('*/', j):
                    depth -= 1
                    j += 2
                else:
                    j += 1
            blank(i, j)
            i = j
        elif c == '"' or (c in 'rb' and re.match(r'(br|rb|r|b)(#*)"', src[i:i + 12]) and
                          (i == 0 or not (src[i - 1].isalnum() or src[i - 1] == '_'))):
            m = re.match(r'(br|rb|r|b)?(#*)"', src[i:i + 12])
            prefix = m.group(1) or ''
            hashes = m.group(2)
            start = i + m.end()
            if 'r' in prefix:
                end_tok = '"' + hashes
                j = src.find(end_tok, start)
                if j < 0:
                    raise ScanError('unterminated raw string')
                blank(start, j)
                i = j + len(end_tok)
            else:
                j = start
                while j < n and src[j] != '"':
                    if src[j] == '\\':
                        j += 2
                    else:
                        j += 1
                blank(start, j)
                i = j + 1
        elif c == "'":
            # char literal or lifetime
            m = re.match(r"'(\\x[0-9a-fA-F]{2}|\\u\{[0-9a-fA-F_]+\}|\\.|[^\\'\n])'", src[i:i + 16])
            if m:
                blank(i + 1, i + m.end() - 1)
                i += m.end()
            else:
                i += 1
        elif c == 'b' and src.startswith("b'", i) and (i == 0 or not (src[i - 1].isalnum() or src[i - 1] == '_')):
            i += 1
        else:
            i += 1
    return ''.join(out)


OPEN = {'{': '}', '(': ')', '[': ']'}
CLOSE = {'}', ')', ']'}


def match_close(msk, i):
    """msk[i] is an opening bracket; return index of its closing partner."""
    stack = []
    n = len(msk)
    j = i
    while j < n:
        ch = msk[j]
        if ch in OPEN:
            stack.append(OPEN[ch])
        elif ch in CLOSE:
            if not stack or stack[-1] != ch:
                raise ScanError('unbalanced bracket at %d' % j)
            stack.pop()
            if not stack:
                return j
        j += 1
    raise ScanError('unterminated bracket at %d' % i)


def find_body_open(msk, start, end=None):
    """From `start` (just after an item keyword) find the `{` that opens the body,
    or a `;` that ends a body-less item; skips (...) and [...] groups."""
    end = len(msk) if end is None else end
    j = start
    while j < end:
        ch = msk[j]
        if ch in '([':
            j = match_close(msk, j) + 1
            continue
        if ch == '{' or ch == ';':
            return j
        j += 1
    raise ScanError('no body found from %d' % start)


def line_start(src, i):
    k = src.rfind('\n', 0, i)
    return k + 1


def line_end(src, i):
    k = src.find('\n', i)
    return len(src) if k < 0 else k + 1


KW = {
    'fn': r'(?:pub(?:\([^)]*\))?\s+)?(?:const\s+)?(?:unsafe\s+)?fn\s+%s\b',
    'struct': r'(?:pub(?:\([^)]*\))?\s+)?struct\s+%s\b',
    'enum': r'(?:pub(?:\([^)]*\))?\s+)?enum\s+%s\b',
    'trait': r'(?:pub(?:\([^)]*\))?\s+)?trait\s+%s\b',
    'mod': r'(?:pub(?:\([^)]*\))?\s+)?mod\s+%s\b',
    'type': r'(?:pub(?:\([^)]*\))?\s+)?type\s+%s\b',
    'const': r'(?:pub(?:\([^)]*\))?\s+)?const\s+%s\b',
}


def _depth_at(msk, lo, pos):
    """brace depth of pos relative to lo"""
    d = 0
    for ch in msk[lo:pos]:
        if ch == '{':
            d += 1
        elif ch == '}':
            d -= 1
    return d


def find_in(src, msk, rng, kind, name):
    """Find items of `kind` named `name` directly inside range rng=(lo,hi)
    (brace depth 0 relative to lo).  Returns list of (start, end, body_open)."""
    lo, hi = rng
    res = []
    if kind == 'impl':
        # name is a regex matched against the impl header text
        for m in re.finditer(r'(?m)^[ \t]*(?:unsafe\s+)?impl\b', msk[lo:hi]):
            s = lo + m.start()
            if _depth_at(msk, lo, s) != 0:
                continue
            bo = find_body_open(msk, lo + m.end(), hi)
            header = ' '.join(src[lo + m.end():bo].split())
            if re.search(name, header):
                e = match_close(msk, bo)
                res.append((line_start(src, s), e + 1, bo))
        return res
    pat = KW[kind] % re.escape(name)
    for m in re.finditer(r'(?m)^[ \t]*' + pat, msk[lo:hi]):
        s = lo + m.start()
        if _depth_at(msk, lo, s) != 0:
            continue
        bo = find_body_open(msk, lo + m.end(), hi)
        if msk[bo] == ';':
            e = bo
        else:
            e = match_close(msk, bo)
        res.append((line_start(src, s), e + 1, bo))
    return res


def resolve(src, path, msk=None):
    """path: list of (kind, name).  Returns (start, end, body_open) of the unique
    item; impl selectors may match several blocks (the next selector is then
    searched in all of them)."""
    msk = msk or mask(src)
    ranges = [(0, len(src), None)]
    for kind, name in path:
        nxt = []
        for (s, e, bo) in ranges:
            inner = (s, e) if bo is None else (bo + 1, e - 1)
            nxt.extend(find_in(src, msk, inner, kind, name))
        ranges = nxt
        if not ranges:
            raise ScanError('item not found: %s %s in path %r' % (kind, name, path))
    if len(ranges) != 1:
        raise ScanError('item ambiguous (%d matches): %r' % (len(ranges), path))
    return ranges[0]


def parse_path(text):
    """'impl WrappedBlock :: fn flush_word' -> [('impl','WrappedBlock'),('fn','flush_word')]"""
    out = []
    for part in text.split('::'):
        part = part.strip()
        if not part:
            continue
        kind, _, name = part.partition(' ')
        kind = kind.strip()
        name = name.strip()
        if kind not in KW and kind != 'impl':
            raise ScanError('bad selector %r' % part)
        out.append((kind, name))
    return out
