"""Rewrite the stored real lines of a unit file from /repo's current text, keeping every inserted line
(run after a deliberate change to /repo, e.g. a fix: commit).  usage: python3 -m vf.refresh <unit>"""
import sys
from .unit import Unit


def main():
    path = 'units/%s.rs' % sys.argv[1]
    u = Unit(path)
    for it in u.items:
        it.drop_body = False     # the stored copy keeps the whole real text
    lines = u.build(kf_on=True)   # kf lines are kept below from the stored copy
    src = open(path).read().split('\n')
    out = []
    i = 0
    idx = -1
    while i < len(src):
        l = src[i]
        s = l.strip()
        if s.startswith('//@item ') or s.startswith('//@slice '):
            idx += 1
            out.append(l)
            i += 1
            # copy directives
            while src[i].strip().startswith(('//@sub', '//@auto', '//@name', '//@keep-vis', '//@rule', '//@drop-body')):
                out.append(src[i]); i += 1
            # skip the old body
            while src[i].strip() != '//@end':
                i += 1
            for wl in [x for x in lines if x.item == idx]:
                if wl.kind == 'real':
                    out.append(wl.text)
                else:
                    mark = ' //@w' + ''.join(' @' + t for t in wl.tags) + (' kf=' + wl.kf if wl.kf else '') + (' #' + wl.label if wl.label else '')
                    out.append(wl.text.rstrip() + mark)
            out.append(src[i])
            i += 1
        else:
            out.append(l)
            i += 1
    open(path, 'w').write('\n'.join(out))
    print('refreshed', path, 'changed items:', [it.name for it in u.items if it.changed])


if __name__ == '__main__':
    main()
