"""Regenerate MANIFEST.json from the unit files (a property is claimed iff some unit carries a clause for it)."""
import json
import os
from .check import load_units, VERIF
from .props import PROPS, NOT_APPLICABLE


def main():
    units = load_units()
    by_prop = {}
    for u in units:
        for t in u.tags():
            by_prop.setdefault(t, []).append(u.name)
    all_ids = [json.loads(l)['id'] for l in open(os.path.join(VERIF, 'properties.jsonl'))]
    checks = []
    na = []
    for pid in all_ids:
        if pid in by_prop and pid in PROPS:
            m = PROPS[pid]
            checks.append({
                'property_id': pid,
                'quick_cmd': './check %s --tier quick' % pid,
                'thorough_cmd': './check %s --tier thorough' % pid,
                'evidence_file': 'evidence/%s.json' % pid,
                'replay_cmd_template': './check %s --replay {path}' % pid,
                'engine': 'verus-units',
                'level_claimed': {'category': 'proof', 'text': m['text'] + ' Units: ' + ', '.join(sorted(by_prop[pid])) + '.',
                                  'design_ref': 'DESIGN.md §3, §4 (%s)' % pid},
                'level_note': m['note'] + ' Left unverified: ' + '; '.join(m.get('unverified', [])),
                'technique': 'contract-based deductive verification (Verus) of the real functions, re-extracted from /repo and woven with contracts on every run',
            })
        else:
            reason = NOT_APPLICABLE.get(pid, 'contracts designed (DESIGN.md §3) but not yet discharged; not claimed')
            na.append({'property_id': pid, 'reason': reason})
    man = {
        'version': 1,
        'setup_cmd': 'python3 -m vf.selftest',
        'hooks': {
            'guard': 'html2text_verif',
            'enable': 'none needed: checks read /repo sources, no instrumentation is compiled into the crate',
            'baseline_off_cmd': 'cd /repo && cargo test --workspace --no-fail-fast --offline',
            'source_commits': [],
            'add_only': True,
        },
        'engines': [{
            'name': 'verus-units', 'path': 'vf/',
            'serves_properties': [c['property_id'] for c in checks],
            'kind_free_text': 'extract real items from /repo -> lower (logged rules) -> weave contracts from units/*.rs -> verus single-file '
                              '-> attribute failed clauses to properties -> replay search; vacuity twin and assumption scan on every run; '
                              'bounded stand-ins (replay/src/bounded.rs, labelled bounded) for the driver functions out of reach',
        }],
        'checks': checks,
        'not_applicable': na,
        'notes': 'exit 2 = undecided (never a violation). See DESIGN.md.',
    }
    with open(os.path.join(VERIF, 'MANIFEST.json'), 'w') as f:
        json.dump(man, f, indent=1)
    print('claimed:', [c['property_id'] for c in checks])
    print('not applicable / not claimed:', [n['property_id'] for n in na])


if __name__ == '__main__':
    main()
