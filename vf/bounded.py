"""Bounded stand-ins (labelled bounded, never counted as proved).

The driver functions that no verifier here can ingest — process_dom_node, the closures of do_render_node,
render_tree_to_string, tree_map_reduce — are exercised through the public API of the real crate (replay/src/bounded.rs)
over an enumerated family of documents whose bound is stated in the evidence; the oracle is the property statement.
A hit is a concrete failing input on the real code, so it is reported as a VIOLATION with that input."""
import fcntl
import json
import os
import shutil
import subprocess
import tempfile

VERIF = os.path.dirname(os.path.dirname(os.path.abspath(__file__)))

MODES = {
    'C01': ['bnd_doc', 'bnd_tables', 'c07_ol', 'c01_colspan', 'c01_specificity', 'c20_nth', 'c01_engine', 'c01_css', 'c01_colours', 'bnd_mut'],
    'C02': ['bnd_tables', 'bnd_doc', 'bnd_c07', 'bnd_c04', 'c02_elements', 'bnd_c12', 'c16_roman'],
    'C03': ['bnd_tables', 'bnd_doc', 'c03_elements'],
    'C04': ['bnd_c04'],
    'C05': ['bnd_tables'],
    'C06': ['bnd_tables', 'c06_positions'],
    'C07': ['bnd_c07', 'c07_ol', 'c07_compose', 'c16_compose', 'c16_roman'],
    'C08': ['bnd_c08', 'c08_elements'],
    'C09': ['bnd_c09', 'c16_affix', 'bnd_c12'],
    'C11': ['bnd_doc', 'bnd_tables', 'bnd_mut', 'c02_elements'],
    'C12': ['bnd_c12', 'c12_contflag'],
    'C13': ['bnd_c13', 'c13_minwrap'],
    'C14': ['bnd_c14', 'c14_hardwrap', 'c14_elements'],
    'C15': ['bnd_c15'],
    'C16': ['bnd_doc', 'c16_prefix', 'c16_affix', 'c16_trivial', 'c07_compose', 'c16_compose', 'c16_roman'],
    'C18': ['bnd_c18'],
    'C19': ['c19', 'c19_inherit', 'c19_block', 'c19_order'],
    'C20': ['bnd_c20', 'c20_nth', 'c20_adoption'],
}
# enumerations written earlier as replay searchers (they stop at the first hit and print `NONE <cases>` otherwise); bound stated here
LEGACY_BOUND = {
    'c16_roman': 'a decorator numbering ordered lists in roman numerals (the widest marker is neither the first nor the last): 5 lists (start 1, 6, 17, 38; 2..9 items), first words of 3, 4 and 6 columns, at widths 8..=24: lines within the width; then: the texts of all items start in one column',
    'c16_compose': '50 (thorough: 200) seeded blocks inside a quote and a list item, 3 decorators with non-ASCII / wide / multi-character prefixes, widths 10..=40 step 3: when both render, the block is its content rendered at width - display width of the prefix with the prefix (then blank indentation of that width for items) in front of every line',
    'c07_ol': '<ol start=s> with s in {i64::MAX, MAX-1, i64::MIN, 0, -1, 98}, 1..3 items, widths 6 and 30: no panic',
    'c01_colspan': 'tables with colspan in {0, 1, 2, 3, usize::MAX, 2^32} in 2 rows x 2 cells, widths 1, 5, 20: no panic',
    'c01_specificity': 'one selector with 65 536 class components (run on a deep stack): no panic in the specificity counters',
    'c20_nth': ':nth-child(an+b) with a, b in {0, +-1, +-2, +-2147483647, 2147483647, values beyond i32} on a 3-item list: no panic, and the items coloured equal the integer definition',
    'c01_css': 'every concatenation of at most 3 (thorough: 4) of 23 CSS tokens (escapes, ASCII and multi-byte white space, braces, quotes, comment delimiters, !important, selectors, nth-child pieces), through add_css and through a <style> element with document CSS on: no panic',
    'c01_engine': 'text engine totality with a 2 s watchdog: 8 documents x widths 1..6 x max_wrap_width in {none, 0, 1, 3} x padding: returns',
    'c16_prefix': '3 decorators (ASCII, 2-byte width-1, 3-byte width-2 prefixes) x 5 documents x widths 6..=20: no panic, lines within the width',
    'c16_affix': 'decorator with visible affixes: 5 elements x 4 enclosing elements x unicode strikeout on/off x widths 80, 12: prefix + text + suffix appear verbatim',
    'c16_trivial': 'TrivialDecorator on 10 documents: output characters == document text characters',
    'c19': 'all pairs of colour declarations on one element: 4 origins (agent, user, author, inline) x importance x 4 selectors of different specificity, both source orders: the winner is the CSS cascade winner',
    'c19_block': '2..3 colour declarations with every importance pattern inside one rule block and inside one style attribute: the last important one wins, else the last',
    'c19_order': 'all 27 sequences of three colour rules of equal specificity (repeats included), in one sheet, split over two add_css calls, or as three <style> elements of the document (head, body, both) with use_doc_css, on an element matching all of them: the last rule wins; all ordered triples of five selectors of different specificity with every two-colour assignment: the cascade winner',
    'c19_inherit': '9 documents: the colour of a token is the one of the nearest ancestor-or-self with a winning declaration',
    'c14_hardwrap': '3 documents x widths 3..=8: an id whose first word is hard-wrapped still yields exactly one fragment marker',
}
STANDS_FOR = {
    'c16_roman': 'calc_ol_prefix_size and the Ol arm of do_render_node with a decorator whose marker widths are not monotone',
    'c12_contflag': 'add_text / flush_word: when the preformatted-continuation tag is chosen (the two smallest documents showing finding D24)',
    'c02_elements': 'the width bound and the overflow option over the element catalogue (elements the seeded grammars do not produce)',
    'c08_elements': 'process_dom_node (<a> arm: href / name / content-less links), start_link / end_link through every container kind',
    'c16_compose': 'do_render_node BlockQuote / Ul arms with a user decorator: prefix measured by display width, verbatim on every line',
    'bnd_mut': 'the whole pipeline on malformed input (html5ever error recovery, process_dom_node on whatever tree results, the nom CSS grammar on broken style sheets)',
    'c06_positions': 'render_table_tree / RenderTable::new / into_cells / append_columns_with_borders as a whole: where each cell ends up relative to the column bars',
    'c07_compose': 'do_render_node (BlockQuote, Ul, Ol, Dl arms and their closures), width_minus, new_sub_renderer, append_subrender composed: compositionality of prefixed blocks',
    'c14_elements': 'process_dom_node (id / name extraction for every element kind), insert_child, and the marker paths through word buffer, pending list and sub-renderers',
    'c03_elements': 'process_dom_node: which element becomes which render node (lists and definition lists with stray children, table sections, captions, form controls, foreign elements), and the table / list constructors that filter their children',
    'c13_minwrap': 'calc_size_estimate (Text arm: min_width = min(len, min_wrap_width) per text NODE) with width_minus: the two smallest documents showing finding D21',
    'bnd_c04': 'add_inline_text / add_text / flush_word / flush_word_hard_wrap as composed by do_render_node over text nodes and inline elements, against a reference greedy wrapper',
    'bnd_c12': 'the pre path as a whole: process_dom_node (pre, br), do_render_node, new_line_hard, add_text in preserving mode',
    'bnd_c15': 'option plumbing through size estimation (calc_size_estimate), sub-renderers and tables: each option changes only what it documents',
    'c07_ol': 'do_render_node Ol arm arithmetic with extreme start values', 'c01_colspan': 'tbody_to_render_tree / RenderTable::new with extreme colspans',
    'c01_specificity': 'Selector::specificity counters at their limit', 'c20_nth': 'nth-child parser and arithmetic at the i32 limits',
    'c01_engine': 'termination of the text engine at tiny widths', 'c01_css': 'the CSS tokenizer and parser (src/css/parser.rs) on odd token sequences', 'c16_prefix': 'prefix measurement in do_render_node for custom decorators',
    'c16_affix': 'affix placement by start_X/end_X through do_render_node', 'c16_trivial': 'TrivialDecorator through the whole pipeline',
    'c19': 'computed_style + merge_computed_style + maybe_update as a whole', 'c19_block': 'styles_from_properties + cascade inside one block / style attribute', 'c19_order': 'rule storage (do_add_css) and source order in computed_style', 'c19_inherit': 'colour push/pop around children in do_render_node',
    'c14_hardwrap': 'fragment marker through flush_word_hard_wrap',
    'c01_colours': 'parse_color and the colour attribute handling (src/css/parser.rs, src/css.rs): hash, rgb() and named colour values with non-ASCII members and CSS escapes',
    'c20_adoption': 'the tree builder of markup5ever_rcdom.rs (append / reparent_children / remove_from_parent keep parent links and child lists consistent — the assumption of unit SM about get_parent) together with do_matches, on documents the parser restructures',
    'bnd_doc': 'the whole pipeline on table-free documents (parse, process_dom_node, do_render_node and its closures, tree_map_reduce, render_tree_to_string): '
               'no panic, width bound, overflow option, and with the trivial decorator the document text preserved in order',
    'bnd_c07': 'do_render_node Ol/Ul arms with their closures, calc_ol_prefix_size, append_subrender as wholes: numbering, common marker width, indentation',
    'bnd_c14': 'process_dom_node id handling, insert_child, record_frag_start and the add_line / flush_wrapping hand-over across blocks and table borders',
    'bnd_c20': 'the selector parser (src/css/parser.rs), rule application in computed_style and do_matches together, against an independent reference matcher',
    'bnd_tables': 'render_table_tree, RenderTable::new, tbody_to_render_tree, table_to_render_tree, render_table_row, append_columns_with_borders / append_vert_row as wholes: '
                  'width bound, cell text preserved, box drawing consistent for regular tables (the slices of these functions under contract are proved separately)',
    'bnd_c08': 'render_tree_to_string (finalise glue), do_render_node Link arm, process_dom_node (links, empty-link removal), tree_map_reduce: '
               'reference [k] after the k-th link with content and exactly one list "[k]: target_k" at the end, in every container',
    'bnd_c09': 'do_render_node closures (start_X … children … end_X), new_sub_renderer call sites, tree_map_reduce: '
               'every token carries exactly the annotations of its annotating ancestors across block boundaries',
    'bnd_c13': 'process_dom_node (comments, span/unknown elements as transparent containers, text nodes), do_render_node Text/Container arms: '
               'output independent of the source form of collapsible white space',
    'bnd_c18': 'process_dom_node (display:none early return, id/fragment handling), computed_style: '
               'rendering with hidden subtrees == rendering with them deleted (rich lines incl. fragment markers, plain text with footnotes)',
}


def build(repo):
    """Builds the replay crate against `repo`; returns (path of a private copy of the executable, None) or (None, reason)."""
    if not os.path.exists(os.path.join(repo, 'Cargo.toml')):
        return None, 'no Cargo.toml under %s' % repo
    lock = open(os.path.join(VERIF, 'replay', '.lock'), 'w')
    fcntl.flock(lock, fcntl.LOCK_EX)
    tmp = tempfile.mkdtemp(prefix='vf-replay-')
    try:
        shutil.copytree(os.path.join(VERIF, 'replay', 'src'), os.path.join(tmp, 'src'))
        man = open(os.path.join(VERIF, 'replay', 'Cargo.toml')).read().replace('path = "/repo"', 'path = "%s"' % repo)
        open(os.path.join(tmp, 'Cargo.toml'), 'w').write(man)
        lockf = os.path.join(repo, 'Cargo.lock')
        if os.path.exists(lockf):
            shutil.copy(lockf, os.path.join(tmp, 'Cargo.lock'))
        tdir = os.path.join(VERIF, 'replay', 'target')
        env = dict(os.environ, CARGO_NET_OFFLINE='true', CARGO_TARGET_DIR=tdir)
        try:
            b = subprocess.run(['cargo', 'build', '--offline', '--quiet'], cwd=tmp, env=env, capture_output=True, text=True, timeout=900)
        except subprocess.TimeoutExpired:
            return None, 'cargo build of the replay crate timed out'
        if b.returncode != 0:
            errs = [l for l in b.stderr.split('\n') if l.startswith('error')][:3]
            return None, 'the crate under test does not build: ' + ' | '.join(errs)
        fd, exe = tempfile.mkstemp(prefix='vf-replay-exe-')
        os.close(fd)
        shutil.copy(os.path.join(tdir, 'debug', 'replay'), exe)
        os.chmod(exe, 0o755)
        return exe, None
    finally:
        shutil.rmtree(tmp, ignore_errors=True)
        fcntl.flock(lock, fcntl.LOCK_UN)
        lock.close()


def run(prop, tier, exe, budget_s=600):
    out = []
    for mode in MODES.get(prop, []):
        rec = {'mode': mode, 'stands_in_for': STANDS_FOR.get(mode, ''), 'label': 'bounded', 'found': [], 'error': None}
        try:
            r = subprocess.run([exe, mode], capture_output=True, text=True, timeout=budget_s, env=dict(os.environ, VERIF_TIER=tier))
        except subprocess.TimeoutExpired:
            rec['error'] = 'timed out after %ds' % budget_s
            out.append(rec)
            continue
        summary = None
        for line in r.stdout.split('\n'):
            if line.startswith('FOUND '):
                try:
                    rec['found'].append(json.loads(line[6:]))
                except ValueError:
                    rec['found'].append({'raw': line[6:]})
            elif line.startswith('BOUNDED '):
                try:
                    summary = json.loads(line[8:])
                except ValueError:
                    pass
        if summary is None and mode in LEGACY_BOUND:
            none = [l for l in r.stdout.split('\n') if l.startswith('NONE ')]
            if none or rec['found']:
                n = int(none[0].split()[1]) if none else None
                summary = {'cases': n, 'distinct': n, 'violations': len(rec['found']), 'bound': LEGACY_BOUND[mode] + (' (stopped at the first hit)' if rec['found'] else ''), 'samples': []}
        if summary is None:
            rec['error'] = 'no summary line (exit code %s): %s' % (r.returncode, r.stderr[-300:])
        else:
            rec.update({'cases': summary.get('cases'), 'distinct': summary.get('distinct'), 'violations': summary.get('violations'),
                        'bound': summary.get('bound'), 'samples': summary.get('samples')})
        rec['reproduce'] = '(cd /verif/replay && cargo build --offline && VERIF_TIER=%s ./target/debug/replay %s)' % (tier, mode)
        out.append(rec)
    return out


# Which properties a hit of a multi-property mode concerns, by the check that produced it (the text of `detail` is produced by
# replay/src/bounded.rs).  A mode serves several properties because it runs several oracles over the same documents; a failed oracle is
# reported only under the properties it states.  No rule => every property the mode serves.
import re as _re
_HIT_RULES = [
    (r'^panic \(allow_width_overflow', {'C01', 'C11'}),
    (r'^panic', {'C01'}),
    (r'^with overflow allowed, line', {'C11'}),
    (r'although width overflow is allowed|allow_width_overflow changed|^width 0 did not give', {'C11'}),
    (r'pad_block_width changed more than trailing spaces under overflow', {'C11', 'C15'}),
    (r'^with link footnotes: line .* columns wide', {'C02'}),
    (r'^line .* is \d+ columns wide|^line .* wider than \d+', {'C02', 'C12', 'C07', 'C06'}),
    (r'^cell characters .* but output characters', {'C03', 'C06'}),
    (r'^raw mode: cell characters', {'C03'}),
    (r'^lines of a side-by-side table differ|^first or last line is not a rule|but bar above=', {'C05', 'C06'}),
    (r'does not start with its prefix', {'C07', 'C16'}),
    (r'^item texts start in columns', {'C07', 'C16'}),
    (r'^trivial decorator: output characters', {'C03', 'C16'}),
    (r'greedy reference', {'C04'}),
    (r'although every character fits', {'C04'}),
    (r'^no error although a wide character cannot fit', {'C04', 'C02'}),
    (r'^non-space characters .* source|expected the source lines', {'C12', 'C03'}),
    (r'tagged preformatted', {'C12', 'C09'}),
]


def hit_props(mode, detail, served):
    """served: the properties whose MODES list contains `mode`."""
    for rx, props in _HIT_RULES:
        if _re.search(rx, detail or ''):
            inter = props & set(served)
            # a hit that concerns none of the properties the mode serves is kept for all of them (never dropped)
            return inter or set(served)
    return set(served)


def served_by(mode):
    return [p for p, ms in MODES.items() if mode in ms]
