"""Bootstrap helper (not used by checks): build //@item blocks by aligning the lowered real
text of items in /repo with an annotated spike file; spike-only lines become inserted (//@w) lines.
usage: python3 -m vf.fromspike <spike.rs> <relpath> '<item path>' ..."""
import difflib
import re
import sys
from .mkitem import _U
from .unit import Item


def spike_range(slines, name, kind):
    pat = re.compile(r'^(\s*)(?:pub\s+)?%s\s+%s\b' % (kind, re.escape(name)))
    for i, l in enumerate(slines):
        m = pat.match(l)
        if m:
            indent = m.group(1)
            # one-liner?
            if l.rstrip().endswith('}') and l.count('{') == l.count('}') and '{' in l:
                return i, i + 1
            for j in range(i + 1, len(slines)):
                if slines[j].rstrip() == indent + '}':
                    return i, j + 1
            break
    return None


def norm(t):
    return re.sub(r'\s+', ' ', t.strip())


def main():
    spike = open(sys.argv[1]).read().split('\n')
    rel = sys.argv[2]
    u = _U()
    for p in sys.argv[3:]:
        it = Item('item', rel, p)
        text, first, bo = u._extract(it, {})
        low = [l[0] for l in u._lower(it, text, bo)]
        kind, name = p.split('::')[-1].split()
        print('//@item %s :: %s' % (rel, p))
        rng = spike_range(spike, name, kind)
        if rng is None:
            sys.stderr.write('not in spike: %s\n' % p)
            for l in low:
                print(l)
            print('//@end')
            continue
        S = spike[rng[0]:rng[1]]
        a = [norm(x) for x in low]
        b = [norm(x) for x in S]
        sm = difflib.SequenceMatcher(None, a, b, autojunk=False)
        for tag, i1, i2, j1, j2 in sm.get_opcodes():
            if tag == 'equal':
                for k in range(i1, i2):
                    print(low[k])
            elif tag == 'insert':
                for k in range(j1, j2):
                    if S[k].strip():
                        print('%-100s //@w' % S[k].rstrip())
            elif tag == 'delete':
                for k in range(i1, i2):
                    print(low[k])
            else:
                for k in range(i1, i2):
                    print(low[k] + ('    //@FIXME-real' if norm(low[k]) and not norm(low[k]).startswith('//') else ''))
                for k in range(j1, j2):
                    if S[k].strip():
                        print('%-100s //@w @FIXME-spike' % S[k].rstrip())
        print('//@end')


if __name__ == '__main__':
    main()
