"""Replay search: after the verifier has refuted an obligation, look for a concrete failing input through the public API of the
real crate (bounded enumeration, replay/src/main.rs).  The searcher never decides anything; a hit only makes the report concrete."""
import json
import os
import shutil
import subprocess
import tempfile

VERIF = os.path.dirname(os.path.dirname(os.path.abspath(__file__)))
MODES = {
    'C01': ['c01_engine', 'c07_ol', 'c20_nth', 'c02_tables', 'c01_colspan', 'c16_prefix'],
    'C02': ['c02_tables', 'c16_prefix'],
    'C03': ['c03_tables'],
    'C06': ['c03_tables', 'c02_tables'],
    'C07': ['c07_ol', 'c16_prefix'],
    'C14': ['c14_hardwrap'],
    'C16': ['c16_prefix', 'c16_trivial', 'c16_affix'],
    'C09': ['c16_affix'],
    'C19': ['c19', 'c19_inherit'],
    'C20': ['c20_nth'],
}


def search(prop, unit, failure, budget_s=180):
    modes = MODES.get(prop)
    if not modes:
        return None
    repo = os.environ.get('VERIF_REPO', '/repo')
    if not os.path.exists(os.path.join(repo, 'Cargo.toml')):
        return None
    from . import bounded
    exe, why = bounded.build(repo)
    if exe is None:
        return None
    try:
        for mode in modes:
            try:
                r = subprocess.run([exe, mode], capture_output=True, text=True, timeout=60)
            except subprocess.TimeoutExpired:
                continue
            for line in r.stdout.split('\n'):
                if line.startswith('FOUND '):
                    try:
                        hit = json.loads(line[6:])
                    except ValueError:
                        hit = {'raw': line[6:]}
                    hit['reproduce'] = '(cd /verif/replay && cargo build --offline && ./target/debug/replay %s)' % mode
                    return hit
        return None
    finally:
        try:
            os.remove(exe)
        except OSError:
            pass
